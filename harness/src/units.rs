//! Direct drives of single units (exhaustive sweeps over finite domains, settings grid, …).
use crate::*;

pub fn run(args: &[String]) {
    match args.first().map(|s| s.as_str()) {
        Some("settings") => settings_grid(args.get(1).map(|s| s.as_str()).unwrap_or("quick")),
        Some("alnum") => alnum_ranges(),
        Some("identend") => ident_end(&args[1]),
        _ => {
            eprintln!("unknown unit");
            std::process::exit(2);
        }
    }
}

/// From<&FormattingConfig> for ReconstructionSettings on a grid: prints
/// `SET <tabs> <tw> <ci> <crlf> <nlhex> <indenthex> <conthex>`
fn settings_grid(tier: &str) {
    let vals: Vec<u8> = if tier == "thorough" {
        (0..=255).collect()
    } else {
        vec![0, 1, 2, 3, 4, 5, 7, 8, 15, 16, 17, 31, 63, 64, 127, 128, 200, 254, 255]
    };
    let out = std::io::stdout();
    let mut w = std::io::BufWriter::new(out.lock());
    for tabs in [false, true] {
        for &tw in &vals {
            for &ci in &vals {
                let crlf = (tw as u32 + ci as u32) % 2 == 1;
                let cfg = Cfg { wrap: 120, begin_always: false, fms: true, tabs, tab_width: tw, cont: ci, crlf };
                let rs = cfg.recon_settings();
                use std::io::Write;
                writeln!(
                    w,
                    "SET {} {} {} {} {} {} {}",
                    tabs as u8,
                    tw,
                    ci,
                    crlf as u8,
                    hex(rs.get_newline_str().as_bytes()),
                    hex(rs.get_indentation_str().as_bytes()),
                    hex(rs.get_continuation_str().as_bytes())
                )
                .unwrap();
            }
        }
    }
}

/// char::is_alphanumeric as code point ranges `lo hi` (inclusive), one per line
fn alnum_ranges() {
    let mut start: Option<u32> = None;
    for cp in 0..=0x110000u32 {
        let a = char::from_u32(cp).map(|c| c.is_alphanumeric()).unwrap_or(false);
        match (a, start) {
            (true, None) => start = Some(cp),
            (false, Some(s)) => {
                println!("{} {}", s, cp - 1);
                start = None;
            }
            _ => {}
        }
    }
}

/// both identifier-end routines on `<offset> <hex>` lines: prints `<offset> <hex> <generic> <avx2|->`
fn ident_end(file: &str) {
    use std::io::{BufRead, Write};
    let f = std::fs::File::open(file).expect("input file");
    let out = std::io::stdout();
    let mut w = std::io::BufWriter::new(out.lock());
    for line in std::io::BufReader::new(f).lines() {
        let line = line.unwrap();
        let p: Vec<&str> = line.split_whitespace().collect();
        if p.len() != 2 {
            continue;
        }
        let off: usize = p[0].parse().unwrap();
        let bytes = unhex(p[1]);
        let Ok(s) = String::from_utf8(bytes) else { continue };
        if !s.is_char_boundary(off) {
            continue;
        }
        let g = pasfmt_core::defaults::lexer::verif_ident_end_generic(&s, off);
        let a = pasfmt_core::defaults::lexer::verif_ident_end_avx2(&s, off);
        writeln!(w, "{} {} {} {}", off, p[1], g, a.map(|x| x.to_string()).unwrap_or("-".into())).unwrap();
    }
}
