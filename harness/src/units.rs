//! Direct drives of single units (exhaustive sweeps over finite domains, settings grid, …).
use crate::*;

pub fn run(args: &[String]) {
    match args.first().map(|s| s.as_str()) {
        Some("settings") => settings_grid(args.get(1).map(|s| s.as_str()).unwrap_or("quick")),
        Some("alnum") => alnum_ranges(),
        Some("identend") => ident_end(&args[1]),
        Some("spacinggrid") => spacing_grid(args.get(1).map(|s| s.as_str()).unwrap_or("quick")),
        _ => {
            eprintln!("unknown unit");
            std::process::exit(2);
        }
    }
}

/// From<&FormattingConfig> for ReconstructionSettings on a grid: prints
/// `SET <tabs> <tw> <ci> <crlf> <nlhex> <indenthex> <conthex>`
fn settings_grid(tier: &str) {
    let vals: Vec<u8> = if tier == "thorough" {
        (0..=255).collect()
    } else {
        vec![0, 1, 2, 3, 4, 5, 7, 8, 15, 16, 17, 31, 63, 64, 127, 128, 200, 254, 255]
    };
    let out = std::io::stdout();
    let mut w = std::io::BufWriter::new(out.lock());
    for tabs in [false, true] {
        for &tw in &vals {
            for &ci in &vals {
                let crlf = (tw as u32 + ci as u32) % 2 == 1;
                let cfg = Cfg { wrap: 120, begin_always: false, fms: true, tabs, tab_width: tw, cont: ci, crlf };
                let rs = cfg.recon_settings();
                use std::io::Write;
                writeln!(
                    w,
                    "SET {} {} {} {} {} {} {}",
                    tabs as u8,
                    tw,
                    ci,
                    crlf as u8,
                    hex(rs.get_newline_str().as_bytes()),
                    hex(rs.get_indentation_str().as_bytes()),
                    hex(rs.get_continuation_str().as_bytes())
                )
                .unwrap();
            }
        }
    }
}

/// char::is_alphanumeric as code point ranges `lo hi` (inclusive), one per line
fn alnum_ranges() {
    let mut start: Option<u32> = None;
    for cp in 0..=0x110000u32 {
        let a = char::from_u32(cp).map(|c| c.is_alphanumeric()).unwrap_or(false);
        match (a, start) {
            (true, None) => start = Some(cp),
            (false, Some(s)) => {
                println!("{} {}", s, cp - 1);
                start = None;
            }
            _ => {}
        }
    }
}

/// both identifier-end routines on `<offset> <hex>` lines: prints `<offset> <hex> <generic> <avx2|->`
fn ident_end(file: &str) {
    use std::io::{BufRead, Write};
    let f = std::fs::File::open(file).expect("input file");
    let out = std::io::stdout();
    let mut w = std::io::BufWriter::new(out.lock());
    for line in std::io::BufReader::new(f).lines() {
        let line = line.unwrap();
        let p: Vec<&str> = line.split_whitespace().collect();
        if p.len() != 2 {
            continue;
        }
        let off: usize = p[0].parse().unwrap();
        let bytes = unhex(p[1]);
        let Ok(s) = String::from_utf8(bytes) else { continue };
        if !s.is_char_boundary(off) {
            continue;
        }
        let g = pasfmt_core::defaults::lexer::verif_ident_end_generic(&s, off);
        let a = pasfmt_core::defaults::lexer::verif_ident_end_avx2(&s, off);
        writeln!(w, "{} {} {} {}", off, p[1], g, a.map(|x| x.to_string()).unwrap_or("-".into())).unwrap();
    }
}


/// TokenSpacing on every vector [a, b, c, Eof] (and [a, {comment}, b, c, Eof] for operator b) of token
/// TYPES, a from a representative set (plus "no previous token"), b and c from ALL token types, with
/// 0..2 original spaces in front of b and c: prints `SG <k> <a|-1> <b> <digits>` where digits are, for
/// each c and each (o1, o2), the resulting spaces_before of b and of c.
fn spacing_grid(tier: &str) {
    use pasfmt_core::lang::*;
    use pasfmt_core::prelude::*;
    use std::io::Write;
    let all = crate::gen_types::all_token_types();
    let is_op = |t: &TokenType| matches!(t, TokenType::Op(_));
    let mut reps: Vec<i64> = vec![-1];
    for (i, t) in all.iter().enumerate() {
        let name = format!("{:?}", t);
        let pick = if tier == "thorough" {
            is_op(t)
                || matches!(name.as_str(), "Identifier" | "Keyword(And)" | "Keyword(Begin)" | "Keyword(End)" | "Keyword(Not)" | "Keyword(Then)" | "Keyword(Of)" | "Keyword(In(Op))"
                    | "TextLiteral(SingleLine)" | "TextLiteral(Unterminated)" | "NumberLiteral(Decimal)" | "Comment(InlineBlock)" | "Comment(IndividualLine)" | "Comment(InlineLine)"
                    | "CompilerDirective" | "ConditionalDirective(If)" | "ConditionalDirective(Endif)" | "Unknown" | "Keyword(Class)" | "Keyword(Const(Section))")
        } else {
            matches!(name.as_str(), "Identifier" | "Op(RParen)" | "Op(LParen)" | "Op(Assign)" | "Op(Comma)" | "Keyword(And)" | "NumberLiteral(Decimal)" | "Comment(InlineBlock)" | "Op(Caret(Deref))" | "Op(Equal(Comp))")
        };
        if pick {
            reps.push(i as i64);
        }
    }
    let combos: &[(usize, usize)] = if tier == "thorough" {
        &[(0, 0), (0, 1), (0, 2), (1, 0), (1, 1), (1, 2), (2, 0), (2, 1), (2, 2)]
    } else {
        &[(0, 0), (1, 1), (2, 0), (0, 2)]
    };
    let ws = ["x", " x", "  x"];
    let out = std::io::stdout();
    let mut w = std::io::BufWriter::with_capacity(1 << 20, out.lock());
    let comment_ty = TokenType::Comment(CommentKind::InlineBlock);
    let rule = TokenSpacing {};
    for k in 0..2 {
        for &a in &reps {
            for (bi, b) in all.iter().enumerate() {
                if k == 1 && (!is_op(b) || a < 0) {
                    continue;
                }
                let mut digits = String::with_capacity(all.len() * combos.len() * 2);
                for c in all.iter() {
                    for &(o1, o2) in combos {
                        let mut toks: Vec<Token> = Vec::with_capacity(5);
                        if a >= 0 {
                            toks.push(Token::new_ref("x", 0, all[a as usize]));
                        }
                        if k == 1 {
                            toks.push(Token::new_ref(" x", 1, comment_ty));
                        }
                        let ib = toks.len();
                        toks.push(Token::new_ref(ws[o1], o1 as u32, *b));
                        toks.push(Token::new_ref(ws[o2], o2 as u32, *c));
                        toks.push(Token::new_ref("", 0, TokenType::Eof));
                        let mut ft = FormattedTokens::new_from_tokens(&mut toks, &TokenMarker::default());
                        rule.format(&mut ft, &[]);
                        let sb = ft.get_formatting_data(ib).unwrap().spaces_before.min(9);
                        let sc = ft.get_formatting_data(ib + 1).unwrap().spaces_before.min(9);
                        digits.push((b'0' + sb as u8) as char);
                        digits.push((b'0' + sc as u8) as char);
                    }
                }
                writeln!(w, "SG {} {} {} {}", k, a, bi, digits).unwrap();
            }
        }
    }
}
