//! vh — correspondence harness for the pasfmt verification (see /verif/DESIGN.md §3.4).
//!
//! `vh trace <cases> <out>`  : per case, the stage trace of the real pipeline.
//! `vh fmt <cases> <out>`    : per case, only the final output and cursors (fast oracle runs).
//!
//! A case line is: `<id> <cfg> <cursors|-> <input-hex|->`
//! cfg = `wrap,begin(0|1),fms(0|1),tabs(0|1),tab_width,cont_indents,crlf(0|1)`.
//!
//! Before a case is run, `BEGIN <id>` is written and flushed, so that a crash or hang of the
//! process is attributed to that case by the caller.

use std::fmt::Write as _;
use std::io::{BufRead, BufWriter, Write};
use std::panic::{catch_unwind, AssertUnwindSafe};
use std::sync::{Arc, Mutex};

use pasfmt::{make_formatter, FormattingConfig};
use pasfmt_core::prelude::*;

mod gen_types;
mod units;

pub fn hex(b: &[u8]) -> String {
    if b.is_empty() {
        return "-".to_string();
    }
    let mut s = String::with_capacity(b.len() * 2);
    for x in b {
        write!(s, "{:02x}", x).unwrap();
    }
    s
}

pub fn unhex(s: &str) -> Vec<u8> {
    if s == "-" {
        return vec![];
    }
    (0..s.len() / 2)
        .map(|i| u8::from_str_radix(&s[2 * i..2 * i + 2], 16).unwrap())
        .collect()
}

#[derive(Clone, Debug)]
pub struct Cfg {
    pub wrap: u32,
    pub begin_always: bool,
    pub fms: bool,
    pub tabs: bool,
    pub tab_width: u8,
    pub cont: u8,
    pub crlf: bool,
}

impl Cfg {
    pub fn parse(s: &str) -> Cfg {
        let p: Vec<&str> = s.split(',').collect();
        Cfg {
            wrap: p[0].parse().unwrap(),
            begin_always: p[1] == "1",
            fms: p[2] == "1",
            tabs: p[3] == "1",
            tab_width: p[4].parse().unwrap(),
            cont: p[5].parse().unwrap(),
            crlf: p[6] == "1",
        }
    }
    pub fn to_toml(&self) -> String {
        format!(
            "wrap_column = {}\nbegin_style = \"{}\"\nformat_multiline_strings = {}\nuse_tabs = {}\ntab_width = {}\ncontinuation_indents = {}\nline_ending = \"{}\"\nencoding = \"utf-8\"\n",
            self.wrap,
            if self.begin_always { "always_wrap" } else { "auto" },
            self.fms,
            self.tabs,
            self.tab_width,
            self.cont,
            if self.crlf { "crlf" } else { "lf" }
        )
    }
    pub fn config(&self) -> FormattingConfig {
        toml::from_str(&self.to_toml()).expect("config")
    }
    /// the conversions of front-end/src/lib.rs, through their public From impls
    pub fn recon_settings(&self) -> ReconstructionSettings {
        (&self.config()).into()
    }
    pub fn olf_settings(&self) -> OptimisingLineFormatterSettings {
        (&self.config()).into()
    }
}

type Shared = Arc<Mutex<String>>;

fn dump_state(label: &str, ft: &FormattedTokens<'_>, out: &mut String) {
    writeln!(out, "STATE {} {}", label, ft.len()).unwrap();
    for (tok, f) in ft.tokens() {
        writeln!(
            out,
            "k {} {} {} {} {} {:?} {} {}",
            f.is_ignored() as u8,
            f.newlines_before,
            f.indentations_before,
            f.continuations_before,
            f.spaces_before,
            tok.get_token_type(),
            hex(tok.get_leading_whitespace().as_bytes()),
            hex(tok.get_content().as_bytes())
        )
        .unwrap();
    }
}

fn dump_lines(label: &str, lines: &[LogicalLine], out: &mut String) {
    writeln!(out, "LINES {} {}", label, lines.len()).unwrap();
    for l in lines {
        let (pl, pt) = match l.get_parent() {
            Some(p) => (p.line_index as i64, p.global_token_index as i64),
            None => (-1, -1),
        };
        write!(out, "l {:?} {} {} {} {}", l.get_line_type(), l.get_level(), pl, pt, l.get_tokens().len()).unwrap();
        for t in l.get_tokens() {
            write!(out, " {}", t).unwrap();
        }
        out.push('\n');
    }
}

struct Dump {
    label: &'static str,
    with_lines: bool,
    sink: Shared,
}
impl LogicalLineFileFormatter for Dump {
    fn format(&self, ft: &mut FormattedTokens<'_>, lines: &[LogicalLine]) {
        let mut s = self.sink.lock().unwrap();
        if self.with_lines {
            dump_lines(self.label, lines, &mut s);
        }
        dump_state(self.label, ft, &mut s);
    }
}

struct DumpRecon {
    inner: DelphiLogicalLinesReconstructor,
    sink: Shared,
}
impl LogicalLinesReconstructor for DumpRecon {
    fn reconstruct(&self, ft: FormattedTokens, out: &mut String) {
        {
            let mut s = self.sink.lock().unwrap();
            dump_state("final", &ft, &mut s);
        }
        self.inner.reconstruct(ft, out)
    }
    fn process_cursors<'c>(
        &'c self,
        cursors: &'c mut [Cursor],
        tokens: &[RawToken],
    ) -> Box<dyn CursorTracker + 'c> {
        self.inner.process_cursors(cursors, tokens)
    }
}

/// A replica of front-end/src/lib.rs: make_formatter with dumping stages in between.
/// Its output is compared with the real make_formatter on every case ("replica drift").
fn make_replica(cfg: &Cfg, sink: Shared) -> Formatter {
    let rs = cfg.recon_settings();
    let eof: &'static EofNewline = &EofNewline {};
    let d = |label: &'static str, with_lines: bool| Dump { label, with_lines, sink: sink.clone() };
    Formatter::builder()
        .lexer(DelphiLexer {})
        .parser(DelphiLogicalLineParser {})
        .token_consolidator(DistinguishGenericTypeParamsConsolidator {})
        .lines_consolidator(ConditionalDirectiveConsolidator {})
        .lines_consolidator(DeindentPackageDirectives {})
        .token_ignorer(FormattingToggler {})
        .token_ignorer(IgnoreAsmIstructions {})
        .file_formatter(d("pre", true))
        .file_formatter(TokenSpacing {})
        .file_formatter(d("spacing", false))
        .file_formatter(LowercaseKeywords {})
        .file_formatter(d("lower", false))
        .file_formatter(CommentFormatter {})
        .file_formatter(d("comment", false))
        .line_formatter(FormatterSelector::new(move |t| match t {
            LogicalLineType::Eof => Some(eof as &dyn LogicalLineFormatter),
            _ => None,
        }))
        .file_formatter(d("eofnl", false))
        .file_formatter(OptimisingLineFormatter::new(cfg.olf_settings(), rs.clone()))
        .reconstructor(DumpRecon { inner: DelphiLogicalLinesReconstructor::new(rs), sink })
        .build()
}

fn parse_cursors(s: &str) -> Vec<Cursor> {
    if s == "-" {
        vec![]
    } else {
        s.split(',').map(|c| Cursor(c.parse().unwrap())).collect()
    }
}

fn fmt_cursors(c: &[Cursor]) -> String {
    if c.is_empty() {
        "-".into()
    } else {
        c.iter().map(|c| c.0.to_string()).collect::<Vec<_>>().join(",")
    }
}

fn trace_case(cfg: &Cfg, cursors: &[Cursor], input: &str, out: &mut String) {
    writeln!(
        out,
        "CFG {} {} {} {} {} {} {}",
        cfg.wrap, cfg.begin_always as u8, cfg.fms as u8, cfg.tabs as u8, cfg.tab_width, cfg.cont, cfg.crlf as u8
    )
    .unwrap();
    {
        let rs = cfg.recon_settings();
        writeln!(
            out,
            "RS {} {} {}",
            hex(rs.get_newline_str().as_bytes()),
            hex(rs.get_indentation_str().as_bytes()),
            hex(rs.get_continuation_str().as_bytes())
        )
        .unwrap();
    }
    writeln!(out, "INPUT {}", hex(input.as_bytes())).unwrap();
    writeln!(out, "CURSORS {}", fmt_cursors(cursors)).unwrap();
    // S1: raw tokens
    let raw = DelphiLexer {}.lex(input);
    writeln!(out, "RAW {}", raw.len()).unwrap();
    for t in &raw {
        writeln!(
            out,
            "r {} {} {:?}",
            t.get_leading_whitespace().len(),
            t.get_content().len(),
            t.get_token_type()
        )
        .unwrap();
    }
    // the conditional-directive passes (hook)
    {
        let passes = pasfmt_core::defaults::parser::verif_directive_passes(&raw);
        writeln!(out, "PASSES {}", passes.len()).unwrap();
        for p in &passes {
            let mut s = String::from("p");
            for i in p {
                write!(s, " {}", i).unwrap();
            }
            writeln!(out, "{}", s).unwrap();
        }
    }
    // S2: parse, with the kernel event log (hook)
    pasfmt_core::defaults::parser::verif_events::start();
    let (mut lines, mut tokens) = DelphiLogicalLineParser {}.parse(raw);
    for l in pasfmt_core::defaults::parser::verif_events::take().lines() {
        if let Some(ev) = l.strip_prefix("PASS ") {
            writeln!(out, "KPASS {}", if ev.is_empty() { "-" } else { ev }).unwrap();
        } else if l == "PASS" {
            writeln!(out, "KPASS -").unwrap();
        } else if let Some(pl) = l.strip_prefix("PL ") {
            let toks: String = pl.chars().filter(|c| c.is_ascii_digit() || *c == ',').collect();
            writeln!(out, "KPL {}", if toks.is_empty() { "-" } else { &toks }).unwrap();
        }
    }
    writeln!(out, "PARSED {}", tokens.len()).unwrap();
    for t in &tokens {
        writeln!(out, "t {:?}", t.get_token_type()).unwrap();
    }
    dump_lines("parsed", &lines, out);
    // S3: generics
    TokenConsolidator::consolidate(&DistinguishGenericTypeParamsConsolidator {}, &mut tokens);
    writeln!(out, "GENERICS {}", tokens.len()).unwrap();
    for t in &tokens {
        writeln!(out, "t {:?}", t.get_token_type()).unwrap();
    }
    // S4: line consolidators
    LogicalLinesConsolidator::consolidate(&ConditionalDirectiveConsolidator {}, (&mut tokens, &mut lines));
    dump_lines("conddir", &lines, out);
    LogicalLinesConsolidator::consolidate(&DeindentPackageDirectives {}, (&mut tokens, &mut lines));
    dump_lines("deindent", &lines, out);
    drop(tokens);
    // S5..S11 through the replica
    let sink: Shared = Arc::new(Mutex::new(String::new()));
    let replica = make_replica(cfg, sink.clone());
    let mut cs: Vec<Cursor> = cursors.to_vec();
    pasfmt_core::defaults::parser::verif_events::start();
    let replica_out = replica.format(input, FileOptions::new().with_cursors(&mut cs));
    let wlog = pasfmt_core::defaults::parser::verif_events::take();
    out.push_str(&sink.lock().unwrap());
    // the wrapper's decisions, in the order reconstruct_solution applied them, with the phase markers
    for l in wlog.lines() {
        if l.starts_with("WD ") || l.starts_with("WPHASE ") || l.starts_with("WL ") || l.starts_with("WS ") {
            writeln!(out, "{}", l).unwrap();
        }
    }
    writeln!(out, "OUT {}", hex(replica_out.as_bytes())).unwrap();
    writeln!(out, "OUTCURSORS {}", fmt_cursors(&cs)).unwrap();
    // the output re-scanned by the real lexer (C02)
    {
        let re = DelphiLexer {}.lex(&replica_out);
        writeln!(out, "RELEX {}", re.len()).unwrap();
        for t in &re {
            writeln!(out, "x {} {} {:?}", t.get_leading_whitespace().len(), t.get_content().len(), t.get_token_type()).unwrap();
        }
    }
    // the real thing
    let real = make_formatter(&cfg.config());
    let mut cs2: Vec<Cursor> = cursors.to_vec();
    let real_out = real.format(input, FileOptions::new().with_cursors(&mut cs2));
    if real_out != replica_out || cs2 != cs {
        writeln!(out, "DRIFT {} {}", hex(real_out.as_bytes()), fmt_cursors(&cs2)).unwrap();
    }
    // cursor independence (C15): the text must not depend on the cursors
    if !cursors.is_empty() {
        let plain = real.format(input, FileOptions::new());
        if plain != real_out {
            writeln!(out, "CURSORDEP {}", hex(plain.as_bytes())).unwrap();
        }
    }
}

fn fmt_case(cfg: &Cfg, cursors: &[Cursor], input: &str, out: &mut String) {
    let real = make_formatter(&cfg.config());
    let mut cs: Vec<Cursor> = cursors.to_vec();
    let real_out = real.format(input, FileOptions::new().with_cursors(&mut cs));
    writeln!(out, "OUT {}", hex(real_out.as_bytes())).unwrap();
    writeln!(out, "OUTCURSORS {}", fmt_cursors(&cs)).unwrap();
}

fn panic_msg(e: Box<dyn std::any::Any + Send>) -> String {
    if let Some(s) = e.downcast_ref::<&str>() {
        s.to_string()
    } else if let Some(s) = e.downcast_ref::<String>() {
        s.clone()
    } else {
        "?".into()
    }
}

thread_local! {
    static LAST_PANIC_LOC: std::cell::RefCell<String> = std::cell::RefCell::new(String::new());
}

fn run_cases(mode: &str, cases: &str, outp: &str) {
    std::panic::set_hook(Box::new(|info| {
        let loc = info
            .location()
            .map(|l| format!("{}:{}", l.file(), l.line()))
            .unwrap_or_default();
        LAST_PANIC_LOC.with(|c| *c.borrow_mut() = loc);
    }));
    // watchdog: a case that runs longer than the limit ends the process with status 97; the caller
    // attributes it to the case that was running (BEGIN without END) and restarts after it
    static CASE_START_MS: std::sync::atomic::AtomicU64 = std::sync::atomic::AtomicU64::new(0);
    let limit_ms: u64 = std::env::var("VH_CASE_TIMEOUT_MS").ok().and_then(|v| v.parse().ok()).unwrap_or(20_000);
    let t0 = std::time::Instant::now();
    std::thread::spawn(move || loop {
        std::thread::sleep(std::time::Duration::from_millis(50));
        let st = CASE_START_MS.load(std::sync::atomic::Ordering::Relaxed);
        if st != 0 && (t0.elapsed().as_millis() as u64).saturating_sub(st) > limit_ms {
            std::process::exit(97);
        }
    });
    let f = std::fs::File::open(cases).expect("cases file");
    let mut w = BufWriter::new(std::fs::File::create(outp).expect("out file"));
    for line in std::io::BufReader::new(f).lines() {
        let line = line.unwrap();
        let p: Vec<&str> = line.split_whitespace().collect();
        if p.len() < 4 {
            continue;
        }
        let (id, cfg, cursors, input) = (p[0], Cfg::parse(p[1]), parse_cursors(p[2]), unhex(p[3]));
        writeln!(w, "BEGIN {}", id).unwrap();
        w.flush().unwrap();
        let input = match String::from_utf8(input) {
            Ok(s) => s,
            Err(_) => {
                writeln!(w, "BADUTF8\nEND {}", id).unwrap();
                continue;
            }
        };
        let mut buf = String::new();
        let case_t0 = std::time::Instant::now();
        CASE_START_MS.store(t0.elapsed().as_millis() as u64 + 1, std::sync::atomic::Ordering::Relaxed);
        let r = catch_unwind(AssertUnwindSafe(|| match mode {
            "trace" => trace_case(&cfg, &cursors, &input, &mut buf),
            _ => fmt_case(&cfg, &cursors, &input, &mut buf),
        }));
        CASE_START_MS.store(0, std::sync::atomic::Ordering::Relaxed);
        w.write_all(buf.as_bytes()).unwrap();
        writeln!(w, "TIME {}", case_t0.elapsed().as_millis()).unwrap();
        if let Err(e) = r {
            let loc = LAST_PANIC_LOC.with(|c| c.borrow().clone());
            writeln!(w, "PANIC {} {}", loc, hex(panic_msg(e).as_bytes())).unwrap();
        }
        writeln!(w, "END {}", id).unwrap();
    }
    w.flush().unwrap();
}

fn main() {
    let args: Vec<String> = std::env::args().collect();
    match args.get(1).map(|s| s.as_str()) {
        Some(m @ ("trace" | "fmt")) => run_cases(m, &args[2], &args[3]),
        Some("unit") => units::run(&args[2..]),
        _ => {
            eprintln!("usage: vh trace|fmt <cases> <out> | vh unit <name> ...");
            std::process::exit(2);
        }
    }
}
