#!/usr/bin/env python3
"""rs2v.py — the translator: regenerates the *tables and the composition* of pasfmt from the
current /repo sources into Coq (coq/theories/Gen/*.v) and OCaml name tables (driver/gen_names.ml).

It is deliberately narrow (regex / bracket matching over rustfmt-formatted source).  What it
recognises is listed in DESIGN.md §3.2.  If it cannot parse what it expects it raises
TranslatorError: that is a broken tie, reported by the caller, never silently ignored.

A file is rewritten only when its content changes, so unchanged tables keep their .vo.
"""
import os, re, sys, json, hashlib

REPO = os.environ.get("VERIF_REPO", "/repo")
ROOT = os.path.dirname(os.path.dirname(os.path.abspath(__file__)))
GEN_DIR = os.path.join(ROOT, "coq", "theories", "Gen")
DRIVER_DIR = os.path.join(ROOT, "driver")


class TranslatorError(Exception):
    pass


PREFIX = {
    "InKind": "IK", "DeclKind": "DK", "KeywordKind": "KK", "EqKind": "EK", "ChevronKind": "ChK",
    "CaretKind": "CaK", "OperatorKind": "OK", "NumberLiteralKind": "NK", "CommentKind": "CoK",
    "ConditionalDirectiveKind": "CDK", "TextLiteralKind": "TK", "RawTokenType": "RTT",
    "TokenType": "TT", "LogicalLineType": "LLT",
}


def read(rel):
    p = os.path.join(REPO, rel)
    try:
        with open(p, encoding="utf-8") as f:
            return f.read()
    except OSError as e:
        raise TranslatorError(f"cannot read {rel}: {e}")


def strip_comments(src):
    """Remove // comments and /* */ comments, keeping string literals intact (good enough for
    rustfmt-formatted code that has no comment markers inside strings in the parts we read)."""
    out = []
    i = 0
    n = len(src)
    while i < n:
        c = src[i]
        if c == '"':
            j = i + 1
            while j < n and src[j] != '"':
                if src[j] == '\\':
                    j += 1
                j += 1
            out.append(src[i:j + 1])
            i = j + 1
        elif src.startswith("//", i):
            j = src.find("\n", i)
            if j < 0:
                j = n
            i = j
        elif src.startswith("/*", i):
            j = src.find("*/", i)
            i = n if j < 0 else j + 2
        elif c == "'" and i + 2 < n and (src[i + 2] == "'" or (src[i + 1] == '\\' and src.find("'", i + 2) - i <= 8)):
            # char literal
            j = src.find("'", i + 2 if src[i + 1] != '\\' else i + 3)
            out.append(src[i:j + 1])
            i = j + 1
        else:
            out.append(c)
            i += 1
    return "".join(out)


def match_brace(src, start, open_ch="{", close_ch="}"):
    """src[start] == open_ch; returns index of the matching close."""
    assert src[start] == open_ch
    depth = 0
    i = start
    n = len(src)
    while i < n:
        c = src[i]
        if c == '"':
            i += 1
            while i < n and src[i] != '"':
                if src[i] == '\\':
                    i += 1
                i += 1
        elif c == open_ch:
            depth += 1
        elif c == close_ch:
            depth -= 1
            if depth == 0:
                return i
        i += 1
    raise TranslatorError("unbalanced braces")


def parse_enums(src):
    """returns ordered dict name -> list of (variant, payload or None)"""
    src = strip_comments(src)
    enums = {}
    for m in re.finditer(r"\bpub enum (\w+)\s*\{", src):
        name = m.group(1)
        end = match_brace(src, m.end() - 1)
        body = src[m.end():end]
        # drop attributes
        body = re.sub(r"#\[[^\]]*\]", "", body)
        variants = []
        for part in split_top(body, ","):
            part = part.strip()
            if not part:
                continue
            mm = re.fullmatch(r"(\w+)(?:\((.*)\))?", part, re.S)
            if not mm:
                raise TranslatorError(f"enum {name}: cannot parse variant {part!r}")
            variants.append((mm.group(1), mm.group(2).strip() if mm.group(2) else None))
        enums[name] = variants
    return enums


def split_top(s, sep):
    parts, depth, cur = [], 0, []
    for c in s:
        if c in "([{":
            depth += 1
        elif c in ")]}":
            depth -= 1
        if c == sep and depth == 0:
            parts.append("".join(cur))
            cur = []
        else:
            cur.append(c)
    parts.append("".join(cur))
    return parts


def coq_ctor(enum, variant):
    return f"{PREFIX.get(enum, enum)}_{variant}"


def expand(enums, name):
    """all inhabitants as (coq_term, rust_debug_name)"""
    res = []
    for v, payload in enums[name]:
        c = coq_ctor(name, v)
        if payload is None:
            res.append((c, v))
        elif payload in enums:
            for t, d in expand(enums, payload):
                res.append((f"({c} {t})", f"{v}({d})"))
        else:
            raise TranslatorError(f"enum {name}::{v}: payload {payload} is not a known enum")
    return res


def gen_lang(enums, lang_src):
    wanted = ["InKind", "DeclKind", "KeywordKind", "EqKind", "ChevronKind", "CaretKind", "OperatorKind",
              "NumberLiteralKind", "CommentKind", "ConditionalDirectiveKind", "TextLiteralKind",
              "RawTokenType", "TokenType", "LogicalLineType"]
    for w in wanted:
        if w not in enums:
            raise TranslatorError(f"enum {w} not found in core/src/lang.rs")
    out = ["(* GENERATED by gen/rs2v.py from core/src/lang.rs — do not edit *)",
           "From Coq Require Import List Bool PeanoNat.", "Import ListNotations.", ""]
    for name in wanted:
        out.append(f"Inductive {name} : Set :=")
        for v, payload in enums[name]:
            if payload is None:
                out.append(f"  | {coq_ctor(name, v)}")
            else:
                out.append(f"  | {coq_ctor(name, v)} (k : {payload})")
        out[-1] += "."
        # index into the enumeration (nat; at most a few hundred), equality through it
        offs = 0
        idx_cases = []
        for v, payload in enums[name]:
            c = coq_ctor(name, v)
            if payload is None:
                idx_cases.append(f"  | {c} => {offs}")
                offs += 1
            else:
                idx_cases.append(f"  | {c} k => {offs} + {payload}_idx k")
                offs += len(expand(enums, payload))
        idx_def = (f"Definition {name}_idx (x : {name}) : nat :=\n  match x with\n" + "\n".join(idx_cases) + "\n  end.")
        # enumeration
        items = []
        for v, payload in enums[name]:
            c = coq_ctor(name, v)
            if payload is None:
                items.append(f"[{c}]")
            else:
                items.append(f"map {c} all_{payload}")
        out.append(f"Definition all_{name} : list {name} :=\n  " + " ++\n  ".join(items) + ".")
        out.append(idx_def)
        has_payload = any(p is not None for _, p in enums[name])
        tac = "destruct x as [ " + " | ".join("k" if p is not None else "" for _, p in enums[name]) + " ]; try reflexivity; destruct k; try reflexivity; destruct k; reflexivity" if has_payload else "destruct x; reflexivity"
        out.append(f"Lemma {name}_idx_nth (x : {name}) : nth_error all_{name} ({name}_idx x) = Some x.\nProof. {tac}. Qed.")
        out.append(f"Definition {name}_eqb (a b : {name}) : bool := Nat.eqb ({name}_idx a) ({name}_idx b).")
        out.append(f"Lemma {name}_eqb_eq a b : {name}_eqb a b = true <-> a = b.\nProof. unfold {name}_eqb. rewrite PeanoNat.Nat.eqb_eq. split; [intros H|intros ->; reflexivity]. "
                   f"pose proof ({name}_idx_nth a) as Ha. rewrite H, {name}_idx_nth in Ha. congruence. Qed.")
        out.append(f"Lemma {name}_eqb_refl a : {name}_eqb a a = true.\nProof. apply {name}_eqb_eq; reflexivity. Qed.")
        out.append(f"Lemma {name}_in_all (x : {name}) : In x all_{name}.\nProof. exact (nth_error_In _ _ ({name}_idx_nth x)). Qed.")
        out.append(f"Lemma {name}_forallb (P : {name} -> bool) : forallb P all_{name} = true -> forall x, P x = true.\nProof. intros H x. rewrite forallb_forall in H. apply H, {name}_in_all. Qed.")
        out.append("")
    # classifiers from matches!
    src = strip_comments(lang_src)
    for m in re.finditer(r"impl (\w+) \{", src):
        enum = m.group(1)
        if enum not in wanted:
            continue
        end = match_brace(src, m.end() - 1)
        body = src[m.end():end]
        for fm in re.finditer(r"fn (\w+)\(&self\) -> bool \{\s*matches!\(\s*self,\s*(.*?)\)\s*\}", body, re.S):
            fname, pats = fm.group(1), fm.group(2)
            alts = [a.strip() for a in split_top(pats, "|") if a.strip()]
            cases = []
            for a in alts:
                a = a.rstrip(",").strip()
                mm = re.fullmatch(r"(?:(\w+)::)?(\w+)(?:\((.*)\))?", a)
                if not mm:
                    raise TranslatorError(f"{enum}::{fname}: cannot parse pattern {a!r}")
                v = mm.group(2)
                if v not in [x for x, _ in enums[enum]]:
                    raise TranslatorError(f"{enum}::{fname}: unknown variant {v}")
                payload = dict(enums[enum])[v]
                if payload is None:
                    cases.append(f"{coq_ctor(enum, v)}")
                else:
                    if mm.group(3) not in ("_",):
                        raise TranslatorError(f"{enum}::{fname}: payload pattern {mm.group(3)!r} unsupported")
                    cases.append(f"{coq_ctor(enum, v)} _")
            out.append(f"Definition {enum}_{fname} (x : {enum}) : bool :=\n  match x with\n  | "
                       + "\n  | ".join(cases) + " => true\n  | _ => false\n  end.")
            out.append("")
    # From<RawToken> for Token : the type map
    m = re.search(r"impl<'a> From<RawToken<'a>> for Token<'a> \{", src)
    if not m:
        raise TranslatorError("From<RawToken> for Token not found")
    end = match_brace(src, m.end() - 1)
    body = src[m.end():end]
    mm = re.search(r"match val\.token_type \{", body)
    if not mm:
        raise TranslatorError("type map match not found")
    e2 = match_brace(body, mm.end() - 1)
    arms = [a.strip() for a in split_top(body[mm.end():e2], ",") if a.strip()]
    cases = []
    for a in arms:
        am = re.fullmatch(r"RTT::(\w+)(?:\((\w+)\))? => TT::(\w+)(?:\((\w+)\))?", a)
        if not am:
            raise TranslatorError(f"type map arm {a!r} not understood")
        lv, lp, rv, rp = am.groups()
        lhs = coq_ctor("RawTokenType", lv) + (f" {('_' if lp == '_' else lp)}" if lp else "")
        rhs = coq_ctor("TokenType", rv) + (f" {rp}" if rp else "")
        if rp and rp != lp:
            raise TranslatorError(f"type map arm {a!r}: payload mismatch")
        cases.append(f"{lhs} => {rhs}")
    out.append("Definition tt_of_raw (r : RawTokenType) : TokenType :=\n  match r with\n  | "
               + "\n  | ".join(cases) + "\n  end.")
    out.append("")
    return "\n".join(out) + "\n"


def expand_rust(enums, name):
    """all inhabitants as Rust expressions, in the order of `expand`"""
    res = []
    for v, payload in enums[name]:
        if payload is None:
            res.append(f"{name}::{v}")
        else:
            for t in expand_rust(enums, payload):
                res.append(f"{name}::{v}({t})")
    return res


def gen_types_rs(enums):
    items = expand_rust(enums, "TokenType")
    return ("// GENERATED by gen/rs2v.py from core/src/lang.rs — every TokenType value, in the order of the Coq enumeration all_TokenType\n"
            "#![allow(unused_imports)]\nuse pasfmt_core::lang::*;\n\npub fn all_token_types() -> Vec<TokenType> {\n    vec![\n"
            + "".join(f"        {t},\n" for t in items) + "    ]\n}\n")


def gen_names_ml(enums):
    out = ["(* GENERATED by gen/rs2v.py — Rust {:?} names, in the order of the Coq enumerations *)"]
    for name in ["RawTokenType", "TokenType", "LogicalLineType"]:
        names = [d for _, d in expand(enums, name)]
        out.append(f"let names_{name} = [| " + "; ".join(json.dumps(n) for n in names) + " |]")
    return "\n".join(out) + "\n"


def write_if_changed(path, content):
    os.makedirs(os.path.dirname(path), exist_ok=True)
    try:
        with open(path, encoding="utf-8") as f:
            if f.read() == content:
                return False
    except OSError:
        pass
    tmp = path + ".tmp%d" % os.getpid()
    with open(tmp, "w", encoding="utf-8") as f:
        f.write(content)
    os.replace(tmp, path)
    return True


def main():
    changed = []
    lang_src = read("core/src/lang.rs")
    enums = parse_enums(lang_src)
    if write_if_changed(os.path.join(GEN_DIR, "Lang.v"), gen_lang(enums, lang_src)):
        changed.append("Gen/Lang.v")
    if write_if_changed(os.path.join(DRIVER_DIR, "gen_names.ml"), gen_names_ml(enums)):
        changed.append("driver/gen_names.ml")
    if write_if_changed(os.path.join(os.path.dirname(DRIVER_DIR), "harness", "src", "gen_types.rs"), gen_types_rs(enums)):
        changed.append("harness/src/gen_types.rs")
    from importlib import import_module
    sys.path.insert(0, os.path.dirname(os.path.abspath(__file__)))
    for modname in ("rs2v_pipeline", "rs2v_tables"):
        try:
            mod = import_module(modname)
        except ModuleNotFoundError:
            continue
        changed += mod.generate(read, write_if_changed, GEN_DIR, DRIVER_DIR, enums,
                                dict(strip_comments=strip_comments, match_brace=match_brace,
                                     split_top=split_top, coq_ctor=coq_ctor, expand=expand,
                                     TranslatorError=TranslatorError))
    print(json.dumps({"changed": changed}))


if __name__ == "__main__":
    try:
        main()
    except TranslatorError as e:
        print(json.dumps({"error": str(e)}))
        sys.exit(3)
