#!/usr/bin/env python3
"""Writes MANIFEST.json from the property table (so that it always validates and stays in sync)."""
import json, os, sys
sys.path.insert(0, os.path.dirname(os.path.abspath(__file__)))
from vlib import props, manifest_text
ROOT = os.path.dirname(os.path.dirname(os.path.abspath(__file__)))
ids = [json.loads(l)["id"] for l in open(os.path.join(ROOT, "properties.jsonl"))]
checks, na = [], []
for pid in ids:
    if pid in props.PROPS and pid in manifest_text.CLAIMS:
        c = manifest_text.CLAIMS[pid]
        checks.append({
            "property_id": pid,
            "quick_cmd": f"python3 tools/vpcheck.py --property {pid} --tier quick",
            "thorough_cmd": f"python3 tools/vpcheck.py --property {pid} --tier thorough",
            "evidence_file": f"/verif/evidence/{pid}.json",
            "replay_cmd_template": f"python3 tools/vpcheck.py --property {pid} --replay {{path}}",
            "engine": "coq-model+correspondence",
            "level_claimed": {"category": "proof", "text": c["text"], "design_ref": c.get("design_ref", "DESIGN.md §6")},
            "level_note": c["note"],
            "technique": c["technique"],
        })
    else:
        na.append({"property_id": pid, "reason": manifest_text.NOT_CLAIMED.get(pid, "not yet built in this development; no check is registered, nothing is claimed")})
m = {
    "version": 1,
    "setup_cmd": "python3 tools/vpcheck.py --setup",
    "hooks": {
        "guard": "cargo feature verif-hooks of pasfmt-core (off by default; every hook item is #[cfg(feature = \"verif-hooks\")])",
        "enable": "the harness crate depends on pasfmt-core with features = [\"verif-hooks\"] (harness/Cargo.toml.in); by hand: cargo build -p pasfmt-core --features verif-hooks",
        "baseline_off_cmd": "cd /repo && cargo test --workspace --no-fail-fast --offline",
        "source_commits": ["71ebd92", "c8d375b", "faf1412", "a933d4f", "85a3a03"],
        "add_only": True,
    },
    "engines": [{"name": "coq-model+correspondence", "path": "/verif/coq, /verif/harness, /verif/driver, /verif/tools",
                 "serves_properties": [c["property_id"] for c in checks],
                 "kind_free_text": "Coq 8.16 theorems over an executable Gallina model; tables regenerated from /repo by gen/rs2v.py; extracted model run against stage traces of the real pipeline (stage by stage, and composed into one function format_model compared byte for byte from input and configuration alone); oracle search on the real formatter"}],
    "checks": checks,
    "not_applicable": na,
    "notes": "See DESIGN.md. Every check rebuilds the harness from /repo's working tree, regenerates Gen/*.v, re-proves, audits assumptions, runs the correspondence and the oracle search.",
}
json.dump(m, open(os.path.join(ROOT, "MANIFEST.json"), "w"), indent=1)
print(len(checks), "claimed;", len(na), "not claimed")
