#!/usr/bin/env python3
"""Confirm a seeded change in its scratch worktree (tests pass with it; demo fails with it and passes
without it), keep it under /verif/seeded/<name>/, then run checks against /repo with the patch applied
and ALWAYS undo it.  usage: seedcheck.py <worktree> <name> <prop> [other props to run ...] [--skip-confirm]"""
import json, os, shutil, subprocess, sys, time
ROOT = os.path.dirname(os.path.dirname(os.path.abspath(__file__)))
wt, name, prop = sys.argv[1], sys.argv[2], sys.argv[3]
others = [a for a in sys.argv[4:] if not a.startswith("--")]
skip = "--skip-confirm" in sys.argv
sd = os.path.join(wt, "SEEDED")
env = dict(os.environ, CARGO_TARGET_DIR=os.path.join(wt, "target"), CARGO_NET_OFFLINE="true")

def sh(cmd, cwd, timeout=3600):
    p = subprocess.run(cmd, cwd=cwd, env=env, shell=isinstance(cmd, str), stdout=subprocess.PIPE, stderr=subprocess.STDOUT, text=True, timeout=timeout)
    return p.returncode, p.stdout

patch = os.path.join(sd, "patch.diff")
report = {"name": name, "property": prop, "worktree": wt}
if not skip:
    # the change is applied in the worktree: tests must pass
    rc, out = sh("cargo test --workspace --no-fail-fast --offline 2>&1 | grep -E '^test result|^error' ", wt)
    import re
    out = re.sub(r"\x1b\[[0-9;]*m", "", out)
    res = re.findall(r"test result: (\w+)\. (\d+) passed; (\d+) failed", out)
    total = sum(int(a) for _, a, _ in res)
    ok = bool(res) and all(r == "ok" and f == "0" for r, _, f in res) and "error" not in out and total >= 3212
    report["tests_passed"] = total
    report["tests_with_change"] = "ok" if ok else out[-500:]
    sh("cargo build --offline -q 2>&1 | tail -3", wt)
    rc1, out1 = sh("bash SEEDED/demo.sh", wt)
    report["demo_with_change_rc"] = rc1
    rcr, _ = sh(["git", "apply", "-R", patch], wt)
    sh("cargo build --offline -q 2>&1 | tail -3", wt)
    rc2, out2 = sh("bash SEEDED/demo.sh", wt)
    report["demo_without_change_rc"] = rc2
    sh(["git", "apply", patch], wt)
    sh("cargo build --offline -q 2>&1 | tail -3", wt)
    report["confirmed"] = (report["tests_with_change"] == "ok" and rc1 != 0 and rc2 == 0 and rcr == 0)
    print(json.dumps(report, indent=1), flush=True)
    if not report["confirmed"]:
        print("NOT CONFIRMED", out1[-800:], out2[-800:])
        sys.exit(2)
# keep it
dst = os.path.join(ROOT, "seeded", name)
shutil.rmtree(dst, ignore_errors=True)
shutil.copytree(sd, dst, ignore=shutil.ignore_patterns("target", "*.o"))
# run the checks against a scratch worktree of /repo's HEAD with the change applied (/repo itself is left alone, so
# that other runs that build from /repo are not disturbed); the checks follow VERIF_REPO
RUNREPO = os.environ.get("SEED_RUN_REPO", "/tmp/seedrun/repo")
head = subprocess.run(["git", "-C", "/repo", "rev-parse", "HEAD"], stdout=subprocess.PIPE, text=True).stdout.strip()
if not os.path.isdir(RUNREPO):
    os.makedirs(os.path.dirname(RUNREPO), exist_ok=True)
    subprocess.run(["git", "-C", "/repo", "worktree", "add", "-q", "--detach", RUNREPO, head], check=True)
else:
    subprocess.run(["git", "-C", RUNREPO, "reset", "-q", "--hard"], check=True)
    subprocess.run(["git", "-C", RUNREPO, "checkout", "-q", "--detach", head], check=True)
rc, out = sh(["git", "-C", RUNREPO, "apply", "--3way", patch], RUNREPO)
if rc != 0:
    rc, out = sh(["git", "-C", RUNREPO, "apply", patch], RUNREPO)
if rc != 0:
    print("patch does not apply to the current HEAD of /repo:", out); sys.exit(4)
results = {}
try:
    for p in [prop] + others:
        t0 = time.time()
        e2 = dict(os.environ, VERIF_SEED=os.environ.get("VERIF_SEED", "1"), VERIF_REPO=RUNREPO, VERIF_EVIDENCE_DIR=os.path.join(ROOT, ".cache", "seed-evidence"))
        r = subprocess.run([sys.executable, os.path.join(ROOT, "tools", "vpcheck.py"), "--property", p, "--tier", os.environ.get("TIER", "quick")], cwd=ROOT, env=e2, stdout=subprocess.PIPE, stderr=subprocess.STDOUT, text=True)
        viol = [l for l in r.stdout.splitlines() if l.startswith("VIOLATION")]
        detail = ""
        if viol:
            try:
                d = json.load(open(viol[0].split("replay=")[1].split()[0]))
                detail = (d.get("kind") or "") + ": " + (d.get("detail") or json.dumps(d.get("broken", ""))[:300])[:300]
            except Exception:
                pass
        results[p] = {"rc": r.returncode, "caught": r.returncode == 1, "wall_s": round(time.time() - t0, 1), "violation": viol[:1], "detail": detail}
        print(p, json.dumps(results[p]), flush=True)
finally:
    subprocess.run(["git", "-C", RUNREPO, "reset", "-q"], check=False)
    subprocess.run(["git", "-C", RUNREPO, "checkout", "--", "."], check=False)
rc, out = sh(["git", "-C", RUNREPO, "status", "--porcelain"], RUNREPO)
print("scratch repo clean:", not out.strip())
meta_path = os.path.join(dst, "meta.json")
try:
    meta = json.load(open(meta_path))
except Exception:
    meta = {}
meta["confirmation"] = {k: report.get(k) for k in ("tests_with_change", "demo_with_change_rc", "demo_without_change_rc", "confirmed")}
meta["checks_run"] = results
json.dump(meta, open(meta_path, "w"), indent=1)
