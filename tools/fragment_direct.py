#!/usr/bin/env python3
"""Independent check of Model/Fragment.v's expected lines: random programs of the fragment are run
through the real parser (harness `vh trace`, section `LINES parsed`) and compared with the expected
lines written down directly in Python (grammar_diff.frag_expected): level, parent (line, token), tokens.
usage: tools/fragment_direct.py [n] [seed]"""
import sys, os, random, subprocess, tempfile
sys.path.insert(0, os.path.dirname(os.path.abspath(__file__)))
import grammar_diff as g

def main():
    n = int(sys.argv[1]) if len(sys.argv) > 1 else 600
    seed = int(sys.argv[2]) if len(sys.argv) > 2 else 99
    rng = random.Random(seed); progs = [g.frag_program(rng) for _ in range(n)]
    d = tempfile.mkdtemp(prefix="fragdirect")
    with open(os.path.join(d, "c.txt"), "w") as f:
        for i, (t, _) in enumerate(progs): f.write("f%d 120,0,1,0,2,2,0 - %s\n" % (i, t.encode().hex()))
    subprocess.run([g.VH, "trace", os.path.join(d, "c.txt"), os.path.join(d, "t.trace")], check=True)
    cur = None; lines = {}; on = False
    for l in open(os.path.join(d, "t.trace")):
        p = l.split()
        if not p: continue
        if p[0] == "BEGIN": cur = int(p[1][1:]); lines[cur] = []; on = False
        elif p[0] == "LINES": on = (p[1] == "parsed")
        elif p[0] == "l" and on:
            par = None if int(p[3]) < 0 else (int(p[3]), int(p[4]))
            lines[cur].append((p[1], int(p[2]), par, [int(x) for x in p[6:]]))
        elif p[0] in ("GENERICS", "STATE"): on = False
    bad = 0; maxlevel = 0; withpar = 0
    for i, (t, exp) in enumerate(progs):
        got = [(lv, par, toks) for (ty, lv, par, toks) in lines[i]]
        eof = lines[i][-1][0] == "Eof" and sum(1 for x in lines[i] if x[0] == "Eof") == 1
        maxlevel = max(maxlevel, max(lv for lv, _, _ in exp)); withpar += any(p is not None for _, p, _ in exp)
        if got != exp or not eof: bad += 1; print("MISMATCH", i, repr(t)[:160])
    print("programs", len(progs), "mismatches", bad, "with child lines", withpar, "max level", maxlevel,
          "max tokens", max(e[-1][2][0] + 1 for _, e in progs))
    return 1 if bad else 0
if __name__ == "__main__": sys.exit(main())
