#!/usr/bin/env python3
"""coverage.py — development tool (not a check): which regions of pasfmt's sources do the generated inputs of the
checks never execute?  Builds the harness (and the pasfmt binary) with `-C instrument-coverage` on the nightly
toolchain into .cache/target-cov, runs the input streams of the given properties (default: all pipeline properties,
quick tier) through it, merges the profiles and prints, per source file, the uncovered line ranges (test modules and
hook-guarded code excluded).   usage: coverage.py [C01 C02 ...] [--seed N] [--thorough]"""
import glob, json, os, re, subprocess, sys
sys.path.insert(0, os.path.dirname(os.path.abspath(__file__)))
from vlib import build, runner, props, gen  # noqa: E402

ROOT = build.ROOT
COV = os.path.join(build.CACHE, "target-cov")
PROF = os.path.join(build.CACHE, "cov-prof")
TOOLS = os.path.expanduser("~/.rustup/toolchains/nightly-x86_64-unknown-linux-gnu/lib/rustlib/x86_64-unknown-linux-gnu/bin")
FILES = ["core/src/defaults/parser.rs", "core/src/defaults/parser/directive_tree.rs", "core/src/defaults/lexer.rs", "core/src/defaults/reconstructor.rs",
         "core/src/lang.rs", "core/src/formatter.rs", "core/src/rules/token_spacing.rs", "core/src/rules/comment_contents.rs",
         "core/src/rules/formatting_toggle.rs", "core/src/rules/ignore_asm_instructions.rs", "core/src/rules/generics_consolidator.rs",
         "core/src/rules/conditional_directive_consolidator.rs", "core/src/rules/deindent_package_directives.rs", "core/src/rules/eof_newline.rs",
         "core/src/rules/lowercase_keywords.rs", "core/src/rules/optimising_line_formatter/mod.rs", "core/src/rules/optimising_line_formatter/contexts.rs",
         "core/src/rules/optimising_line_formatter/requirements.rs", "core/src/rules/optimising_line_formatter/multiline_strings.rs",
         "core/src/rules/optimising_line_formatter/types.rs", "front-end/src/lib.rs"]


def main():
    args = [a for a in sys.argv[1:] if not a.startswith("--")]
    seed = int(sys.argv[sys.argv.index("--seed") + 1]) if "--seed" in sys.argv else 1
    tier = "thorough" if "--thorough" in sys.argv else "quick"
    plist = args or ["C01", "C02", "C03", "C04", "C05", "C06", "C07", "C08", "C09", "C10", "C11", "C12", "C13", "C14", "C15"]
    env = dict(build.ENV, RUSTFLAGS="-C instrument-coverage", CARGO_TARGET_DIR=COV, LLVM_PROFILE_FILE=os.path.join(PROF, "build-%p.profraw"))
    os.makedirs(PROF, exist_ok=True)
    for f in glob.glob(os.path.join(PROF, "*.profraw")):
        os.remove(f)
    build.translate()
    build.build_driver()
    with build.Lock("build"):      # (the manifest is shared with the checks: hold the build lock while it is written and used)
        build.write_harness_manifest()
        p = subprocess.run(["cargo", "+nightly", "build", "--offline", "--release"], cwd=os.path.join(ROOT, "harness"), env=env, stdout=subprocess.PIPE, stderr=subprocess.STDOUT, text=True)
    if p.returncode:
        sys.exit(p.stdout[-3000:])
    for f in glob.glob(os.path.join(PROF, "build-*.profraw")):
        os.remove(f)
    vh = os.path.join(COV, "release", "vh")
    build.VH = vh
    runner.build.VH = vh
    os.environ["LLVM_PROFILE_FILE"] = os.path.join(PROF, "run-%p-%m.profraw")
    build.ENV["LLVM_PROFILE_FILE"] = os.environ["LLVM_PROFILE_FILE"]
    for pid in plist:
        ctx = props.Ctx(pid, tier, seed)
        try:
            props.PROPS[pid].run(ctx)
        except Exception as e:      # a failing stream is of no interest here
            print("stream of", pid, "raised", repr(e)[:200], file=sys.stderr)
        ctx.cleanup()
        print(pid, "ran:", ctx.evaluations, "evaluations", file=sys.stderr)
    raws = glob.glob(os.path.join(PROF, "run-*.profraw"))
    merged = os.path.join(PROF, "merged.profdata")
    subprocess.run([os.path.join(TOOLS, "llvm-profdata"), "merge", "-sparse", "-o", merged] + raws, check=True)
    srcs = [os.path.join(build.REPO, f) for f in FILES]
    out = subprocess.run([os.path.join(TOOLS, "llvm-cov"), "export", "-format=lcov", "-instr-profile", merged, vh] + srcs,
                         stdout=subprocess.PIPE, text=True, check=True).stdout
    cur, miss, total = None, {}, {}
    for ln in out.splitlines():
        if ln.startswith("SF:"):
            cur = os.path.relpath(ln[3:], build.REPO)
            miss[cur], total[cur] = [], 0
        elif ln.startswith("DA:") and cur:
            n, cnt = ln[3:].split(",")[:2]
            total[cur] += 1
            if cnt == "0":
                miss[cur].append(int(n))
    report = {}
    for f in FILES:
        if f not in miss:
            continue
        src = open(os.path.join(build.REPO, f)).read().split("\n")
        # cut at the first test module; drop hook-guarded lines
        cut = next((i + 1 for i, l in enumerate(src) if l.strip() == "#[cfg(test)]" and i + 1 < len(src) and src[i + 1].lstrip().startswith("mod ")), len(src) + 1)
        ms = [n for n in miss[f] if n < cut and "verif" not in src[n - 1] and "trace!(" not in src[n - 1]]
        ranges = []
        for n in ms:
            if ranges and n <= ranges[-1][1] + 1:
                ranges[-1][1] = n
            else:
                ranges.append([n, n])
        report[f] = {"uncovered_lines": len(ms), "instrumented_lines": total[f], "ranges": ranges}
        print("== %s: %d uncovered of %d instrumented lines" % (f, len(ms), total[f]))
        for a, b in ranges:
            print("   %d-%d: %s" % (a, b, src[a - 1].strip()[:110]))
    json.dump(report, open(os.path.join(build.CACHE, "coverage_report.json"), "w"), indent=1)


if __name__ == "__main__":
    main()
