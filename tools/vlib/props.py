"""Per-property specifications: Coq targets and theorems, correspondence units, input streams, oracles."""
import os, re, random, hashlib, json
from . import build, runner, gen
from .runner import Case

TRUSTED_BASE = [
    "Coq 8.16.1 kernel (coqc, full .vo builds; vm_compute used for reflection over finite generated tables; no native_compute)",
    "hand-written Gallina model under coq/theories/Model (tied to the Rust code by differential execution, not verified against it)",
    "translator gen/rs2v.py (enums, matches! classifiers, type map, tables, stage list of make_formatter regenerated from /repo on every run)",
    "extraction: ExtrOcamlBasic only (bool, option, unit, list, prod, sumbool); no Extract Constant; OCaml 4.13.1; driver/*.ml",
    "Rust harness /verif/harness (replica pipeline checked against pasfmt::make_formatter on every case), Python orchestration, generators and oracles",
]

AXIOM_ALLOWLIST = set()  # target: every property theorem is closed under the global context


def coq_error_summary(detail):
    m = re.search(r'File "([^"]+)", line (\d+), characters [\d-]+:\s*\n(Error:.*?)(?:\n\n|\nmake|\Z)', detail, re.S)
    if m:
        return "%s:%s %s" % (os.path.basename(m.group(1)), m.group(2), " ".join(m.group(3).split())[:600])
    return detail[-800:]


class Ctx:
    def __init__(self, prop, tier, seed):
        self.prop, self.tier, self.seed = prop, tier, seed
        self.rng = random.Random((seed << 8) ^ int(hashlib.sha256(prop.encode()).hexdigest()[:8], 16))
        self.failures = []
        self.corr_counts = {}
        self.corr_diffs = []
        self.evaluations = 0
        self.traces_validated = 0
        self.samples = []
        self.oracle_counts = {}
        self.hypotheses = {}
        self.streams = {}
        self.sizes = []
        self._nontrivial = set()
        self.workdirs = []
        self.replay = None
        self.extra_obligations = 0
        self.extra_discharged = 0
        self.no_output = 0
        self._id = 0

    def quick(self):
        return self.tier != "thorough"

    def n(self, q, t):
        return q if self.quick() else t

    def new_id(self, stream):
        self._id += 1
        return "%s%d" % (stream, self._id)

    def case(self, stream, text, cfg=gen.DEFAULT_CFG, cursors=None, meta=None):
        m = {"stream": stream}
        if meta:
            m.update(meta)
        return Case(self.new_id(stream), cfg, cursors or [], text, m)

    def note_case(self, c, nontrivial=True):
        self.evaluations += 1
        self.streams[c.meta.get("stream", "?")] = self.streams.get(c.meta.get("stream", "?"), 0) + 1
        b = c.input_bytes()
        self.sizes.append(len(b))
        if nontrivial and len(b.strip()) > 0:
            self._nontrivial.add(hashlib.sha1(b + repr(c.cfg).encode() + repr(c.cursors).encode()).digest())

    def distinct_nontrivial(self):
        return len(self._nontrivial)

    def distribution(self):
        s = sorted(self.sizes)
        if not s:
            return {}
        return {"streams": self.streams, "bytes_min": s[0], "bytes_median": s[len(s) // 2], "bytes_max": s[-1],
                "no_output_cases": self.no_output}

    def search_summary(self):
        return {"evaluations": self.evaluations, "streams": self.streams, "oracle": self.oracle_counts}

    def fail(self, kind, case, detail, **kw):
        f = {"kind": kind, "input_hex": case.input_bytes().hex() if case else "", "cfg": list(case.cfg) if case else None,
             "cursors": list(case.cursors) if case else None, "detail": detail[:2000], "stream": case.meta.get("stream") if case else None}
        f.update(kw)
        self.failures.append(f)
        return f

    def sample(self, c, extra=None):
        if len(self.samples) < 8:
            t = c.text if isinstance(c.text, str) else c.text.decode("utf-8", "replace")
            s = {"stream": c.meta.get("stream"), "cfg": list(c.cfg), "input": t[:300]}
            if c.cursors:
                s["cursors"] = c.cursors[:10]
            if extra:
                s.update(extra)
            self.samples.append(s)

    def run_stream(self, cases, units=None, oracle=None, mode="trace", plain=False, panics_are_failures=False, per_case_timeout=0.5):
        """runs cases through the implementation (and, in trace mode, the model); applies the oracle"""
        if not cases:
            return {}
        results, files, wd = runner.run_cases(cases, mode=mode, plain=plain, per_case_timeout=per_case_timeout)
        self.workdirs.append(wd)
        for c in cases:
            self.note_case(c)
        for c in cases[:: max(1, len(cases) // 3)][:3]:
            self.sample(c)
        if mode == "trace":
            counts, diffs, xs = runner.run_driver(files, units)
            for u, (ok, bad) in counts.items():
                cc = self.corr_counts.setdefault(u, [0, 0])
                cc[0] += ok
                cc[1] += bad
                self.traces_validated += ok
            byid = {c.id: c for c in cases}
            for cid, unit, detail in diffs:
                c = byid.get(cid)
                self.corr_diffs.append((cid, unit, detail + ((" input=" + c.input_bytes().hex()[:400] + " cfg=" + repr(c.cfg)) if c else "")))
            for cid, what in xs:
                if what.startswith("DRIFT"):
                    self.corr_diffs.append((cid, "replica", "replica pipeline output differs from make_formatter"))
        for r in results.values():
            if r.failure is not None:
                self.no_output += 1
                if panics_are_failures:
                    kind = "abort" if r.failure[0] in ("PANIC", "CRASH") else "hang"
                    site = normalise_site(r.failure[1])
                    self.fail(kind, r.case, r.failure[0] + " " + r.failure[1], site=site)
                continue
            if "BADUTF8" in r.flags:
                continue
            if oracle is not None and r.out is not None:
                oracle(r)
        if self.quick() or True:
            for f in files:
                try:
                    os.remove(f)
                except OSError:
                    pass
        return results

    def count(self, name, k=1):
        self.oracle_counts[name] = self.oracle_counts.get(name, 0) + k

    def cleanup(self):
        for wd in self.workdirs:
            runner.cleanup(wd)


def normalise_site(detail):
    m = re.search(r"([\w/.-]+\.rs):(\d+)", detail)
    if m:
        return os.path.basename(m.group(1))
    if "stack" in detail.lower() or "SIGSEGV" in detail or "exit -11" in detail or "exit -6" in detail:
        return "stack-overflow"
    return "unknown"


class Spec:
    def __init__(self, **kw):
        self.coq_targets = kw.get("coq_targets", [])
        self.module = kw.get("module", "")
        self.theorems = kw.get("theorems", [])
        self.run = kw["run"]
        self.rule = kw.get("rule", "")
        self.explanation = kw.get("explanation", "")
        self.assumptions = kw.get("assumptions", [])
        self.trusted_extra = kw.get("trusted_extra", [])
        self.needs_plain = kw.get("needs_plain", False)


# ------------------------------------------------------------------ shared helpers

def strip_blank(b: bytes) -> bytes:
    """the non-blank projection of C01 on bytes (drop <= 0x20 and U+3000)"""
    b = b.replace(b"\xe3\x80\x80", b"")
    return bytes(x for x in b if x > 0x20)


def fold(b: bytes) -> bytes:
    return b.lower() if b.isascii() else bytes((x + 32) if 65 <= x <= 90 else x for x in b)


def standard_streams(ctx, n_seed_cfgs=1, n_mut=200, n_soup=300, n_bytes=100, n_gram=100, cfgs=None):
    """the common mixed stream: seeds x configurations, mutated seeds, soup, arbitrary bytes, grammar programs"""
    rng = ctx.rng
    S = gen.seeds()
    texts = [s["text"] for s in S]
    cases = []
    for s in S:
        cases.append(ctx.case("seed", s["text"], (s["wrap"], 0, 1, 0, 2, 2, 0)))
        for _ in range(n_seed_cfgs - 1):
            cases.append(ctx.case("seedcfg", s["text"], gen.random_cfg(rng)))
    for _ in range(n_mut):
        cases.append(ctx.case("mut", gen.mutate(rng.choice(texts), rng, texts), gen.random_cfg(rng)))
    for _ in range(n_soup):
        cases.append(ctx.case("soup", gen.soup(rng, 1, 12), gen.random_cfg(rng)))
    for _ in range(n_bytes):
        cases.append(ctx.case("bytes", gen.random_bytes_text(rng, rng.randrange(1, 60)), gen.random_cfg(rng)))
    for _ in range(n_gram):
        p = gen.grammar_program(rng)
        t = p.text()
        if rng.random() < 0.5:
            t2 = gen.relayout(t, rng)
            t = t2 if t2 is not None else t
        cases.append(ctx.case("grammar", t, gen.random_cfg(rng)))
    return cases


# ------------------------------------------------------------------ C01

def run_c01(ctx):
    def oracle(r):
        ctx.count("nonblank_fold_checked")
        a = fold(strip_blank(r.case.input_bytes()))
        b = fold(strip_blank(r.out))
        if a != b:
            # locate first difference
            i = next((k for k in range(min(len(a), len(b))) if a[k] != b[k]), min(len(a), len(b)))
            ctx.fail("nonblank_changed", r.case, "non-blank characters differ at projected offset %d: in=%r out=%r" % (i, a[max(0, i - 10):i + 10], b[max(0, i - 10):i + 10]),
                     observed=r.out.hex()[:2000])
    cases = standard_streams(ctx, n_seed_cfgs=ctx.n(1, 4), n_mut=ctx.n(300, 6000), n_soup=ctx.n(300, 8000),
                             n_bytes=ctx.n(150, 3000), n_gram=ctx.n(100, 3000))
    ctx.run_stream(cases, units=["settings", "recon", "r01", "tokok"], oracle=oracle)
    ctx.hypotheses["tok_ok (blank leading whitespace, content not starting inside U+3000)"] = "evaluated by unit tokok on every token of every trace"
    ctx.hypotheses["R01 (per-token content relation between lexer output and final tokens)"] = "evaluated by unit r01 on every token of every trace"


PROPS = {
    "C01": Spec(
        coq_targets=["theories/Properties/C01.v"], module="Properties.C01",
        theorems=["C01_reconstruct_nonblank", "C01_settings_wf"],
        run=run_c01,
        rule="seeds of the repository's data tests x configurations, token-level mutations of seeds, token soup, arbitrary bytes decoded as text, grammar-generated programs (relayouted); distinct = distinct (input, cfg); non-trivial = input not all blank",
        explanation="Theorems: reconstruction preserves the non-blank projection for all counters/marks/settings; per-token content relation R01 checked on every real token by the extracted predicate; the oracle compares fold(nonblank) of input and output of the real formatter.",
        assumptions=["tok_ok for lexer output (monitored on every token until the lexer model proves it)",
                     "the three content-rewriting rules are the only set_content sites (inventory)"],
    ),
}
