"""Per-property specifications: Coq targets and theorems, correspondence units, input streams, oracles."""
import os, re, random, hashlib, json
from . import build, runner, gen
from .runner import Case

TRUSTED_BASE = [
    "Coq 8.16.1 kernel (coqc, full .vo builds; vm_compute used for reflection over finite generated tables; no native_compute)",
    "hand-written Gallina model under coq/theories/Model (tied to the Rust code by differential execution, not verified against it)",
    "translator gen/rs2v.py (enums, matches! classifiers, type map, tables, stage list of make_formatter regenerated from /repo on every run)",
    "extraction: ExtrOcamlBasic only (bool, option, unit, list, prod, sumbool); no Extract Constant; OCaml 4.13.1; driver/*.ml",
    "Rust harness /verif/harness (replica pipeline checked against pasfmt::make_formatter on every case), Python orchestration, generators and oracles",
]

AXIOM_ALLOWLIST = set()  # target: every property theorem is closed under the global context


def coq_error_summary(detail):
    m = re.search(r'File "([^"]+)", line (\d+), characters [\d-]+:\s*\n(Error:.*?)(?:\n\n|\nmake|\Z)', detail, re.S)
    if m:
        return "%s:%s %s" % (os.path.basename(m.group(1)), m.group(2), " ".join(m.group(3).split())[:600])
    return detail[-800:]


class Ctx:
    def __init__(self, prop, tier, seed):
        self.prop, self.tier, self.seed = prop, tier, seed
        self.rng = random.Random((seed << 8) ^ int(hashlib.sha256(prop.encode()).hexdigest()[:8], 16))
        self.failures = []
        self.corr_counts = {}
        self.corr_diffs = []
        self.evaluations = 0
        self.traces_validated = 0
        self.samples = []
        self.oracle_counts = {}
        self.hypotheses = {}
        self.streams = {}
        self.sizes = []
        self._nontrivial = set()
        self.workdirs = []
        self.replay = None
        self.extra_obligations = 0
        self.extra_discharged = 0
        self.no_output = 0
        self._id = 0

    def quick(self):
        return self.tier != "thorough"

    def n(self, q, t):
        return q if self.quick() else t

    def new_id(self, stream):
        self._id += 1
        return "%s_%d" % (stream, self._id)   # (the separator keeps ids of streams whose names end in digits apart)

    def case(self, stream, text, cfg=gen.DEFAULT_CFG, cursors=None, meta=None):
        m = {"stream": stream}
        if meta:
            m.update(meta)
        return Case(self.new_id(stream), cfg, cursors or [], text, m)

    def note_case(self, c, nontrivial=True):
        self.evaluations += 1
        self.streams[c.meta.get("stream", "?")] = self.streams.get(c.meta.get("stream", "?"), 0) + 1
        b = c.input_bytes()
        self.sizes.append(len(b))
        if nontrivial and len(b.strip()) > 0:
            self._nontrivial.add(hashlib.sha1(b + repr(c.cfg).encode() + repr(c.cursors).encode()).digest())

    def distinct_nontrivial(self):
        return len(self._nontrivial)

    def distribution(self):
        s = sorted(self.sizes)
        if not s:
            return {}
        return {"streams": self.streams, "bytes_min": s[0], "bytes_median": s[len(s) // 2], "bytes_max": s[-1],
                "no_output_cases": self.no_output}

    def search_summary(self):
        return {"evaluations": self.evaluations, "streams": self.streams, "oracle": self.oracle_counts}

    def fail(self, kind, case, detail, **kw):
        f = {"kind": kind, "input_hex": case.input_bytes().hex() if case else "", "cfg": list(case.cfg) if case else None,
             "cursors": list(case.cursors) if case else None, "detail": detail[:2000], "stream": case.meta.get("stream") if case else None}
        f.update(kw)
        self.failures.append(f)
        return f

    def sample(self, c, extra=None):
        if len(self.samples) < 8:
            t = c.text if isinstance(c.text, str) else c.text.decode("utf-8", "replace")
            s = {"stream": c.meta.get("stream"), "cfg": list(c.cfg), "input": t[:300]}
            if c.cursors:
                s["cursors"] = c.cursors[:10]
            if extra:
                s.update(extra)
            self.samples.append(s)

    def run_stream(self, cases, units=None, oracle=None, mode="trace", plain=False, panics_are_failures=False, per_case_timeout=0.5, case_limit_ms=20000, slow_ms=None):
        """runs cases through the implementation (and, in trace mode, the model); applies the oracle"""
        if not cases:
            return {}
        results, files, wd = runner.run_cases(cases, mode=mode, plain=plain, per_case_timeout=per_case_timeout, case_limit_ms=case_limit_ms)
        self.workdirs.append(wd)
        for c in cases:
            self.note_case(c)
        for c in cases[:: max(1, len(cases) // 3)][:3]:
            self.sample(c)
        if mode == "trace":
            counts, diffs, xs, viols = runner.run_driver(files, units)
            for u, (ok, bad) in counts.items():
                cc = self.corr_counts.setdefault(u, [0, 0])
                cc[0] += ok
                cc[1] += bad
                self.traces_validated += ok
            byid = {c.id: c for c in cases}
            for cid, unit, detail in diffs:
                c = byid.get(cid)
                self.corr_diffs.append((cid, unit, detail + ((" input=" + c.input_bytes().hex()[:400] + " cfg=" + repr(c.cfg)) if c else "")))
            for cid, unit, kind, detail in viols:
                c = byid.get(cid)
                k, _, cls = kind.partition(":")
                self.fail(k, c, "%s: %s" % (unit, detail), token_class=cls)
            for cid, what in xs:
                if what.startswith("CURSORDEP"):
                    self.fail("text_depends_on_cursors", byid.get(cid), "formatting with cursors gave a different text")
                if what.startswith("DRIFT"):
                    self.corr_diffs.append((cid, "replica", "replica pipeline output differs from make_formatter"))
        for r in results.values():
            if slow_ms is not None and r.ms is not None and r.failure is None:
                self.max_ms = max(getattr(self, "max_ms", 0), r.ms)
                if r.ms > slow_ms + len(r.case.input_bytes()) // 50:
                    self.fail("hang", r.case, "took %d ms for %d bytes (limit %d ms + 1 ms per 50 bytes)" % (r.ms, len(r.case.input_bytes()), slow_ms), site="slow")
            if r.failure is not None:
                self.no_output += 1
                if panics_are_failures:
                    kind = "abort" if r.failure[0] in ("PANIC", "CRASH") else "hang"
                    site = normalise_site(r.failure[1])
                    self.fail(kind, r.case, r.failure[0] + " " + r.failure[1], site=site)
                continue
            if "BADUTF8" in r.flags:
                continue
            if oracle is not None and r.out is not None:
                oracle(r)
        if self.quick() or True:
            for f in files:
                try:
                    os.remove(f)
                except OSError:
                    pass
        return results

    def count(self, name, k=1):
        self.oracle_counts[name] = self.oracle_counts.get(name, 0) + k

    def cleanup(self):
        for wd in self.workdirs:
            runner.cleanup(wd)


def ml_string_families(ctx, text, cfg):
    """For the F6/F25 class detectors: traces `text` and reports, for its multi-line string tokens, whether the
    family of logical lines they sit in (the top-level line and all its descendants) has child lines.  The stale
    child-line cache of the reflow (F6, F25) needs one; a literal in a family without child lines is outside the class.
    returns {"ml_tokens": n, "in_family_with_children": n} or None"""
    c = Case("mlfam", cfg, [], text)
    try:
        results, files, wd = runner.run_cases([c], mode="trace")
    except Exception:
        return None
    ctx.workdirs.append(wd)
    types, lines, lab = [], [], None
    for tf in files:
        try:
            fh = open(tf, errors="replace")
        except OSError:
            continue
        with fh:
            for ln in fh:
                p = ln.split()
                if not p:
                    continue
                if p[0] == "PARSED":
                    lab = "parsed"
                elif p[0] == "LINES":
                    lab = "lines-" + p[1]
                elif p[0] in ("GENERICS", "STATE", "OUT", "RAW", "PASSES", "RELEX"):
                    lab = None
                elif p[0] == "t" and lab == "parsed":
                    types.append(p[1])
                elif p[0] == "l" and lab == "lines-deindent":
                    lines.append((int(p[3]), [int(x) for x in p[6:]]))
    if not lines:
        return None
    root = list(range(len(lines)))
    for i, (par, _) in enumerate(lines):
        j, seen = i, 0
        while lines[j][0] >= 0 and lines[j][0] < len(lines) and seen < len(lines):
            j = lines[j][0]
            seen += 1
        root[i] = j
    fam_size = {}
    for r in root:
        fam_size[r] = fam_size.get(r, 0) + 1
    ml = [i for i, t in enumerate(types) if t == "TextLiteral(MultiLine)"]
    with_children = 0
    for t in ml:
        if any(t in toks and fam_size[root[i]] > 1 for i, (_, toks) in enumerate(lines)):
            with_children += 1
    return {"ml_tokens": len(ml), "in_family_with_children": with_children}


def equal_penalty_tie(ctx, text, cfg_a, cfg_b):
    """For the F43 class detector: trace `text` under both configurations (they differ in wrap_column); True iff the decisions
    differ in at least one top-level logical line and every such line was solved under both with the SAME penalty (two solutions
    the search values equally: which one it returns depends on the order in which it explores them)."""
    runs = []
    for cfg in (cfg_a, cfg_b):
        c = Case("tie", cfg, [], text)
        try:
            results, files, wd = runner.run_cases([c], mode="trace")
        except Exception:
            return False
        ctx.workdirs.append(wd)
        # only ties of the search AS MODELLED are this finding: the model must agree with the implementation on both runs
        try:
            counts, _d, _x, _v = runner.run_driver(files, ["search"])
        except Exception:
            return False
        if list(counts.get("search", [0, 0])) != [1, 0]:
            return False
        lines, lab, ws, wd_ = [], None, {}, {}
        for tf in files:
            try:
                fh = open(tf, errors="replace")
            except OSError:
                continue
            with fh:
                for ln in fh:
                    p = ln.split()
                    if not p:
                        continue
                    if p[0] == "LINES":
                        lab = p[1]
                    elif p[0] in ("STATE", "OUT", "PARSED", "GENERICS", "RAW"):
                        lab = None
                    elif p[0] == "l" and lab == "pre":
                        lines.append((int(p[3]), [int(x) for x in p[6:]]))
                    elif p[0] == "WS" and len(p) >= 4:
                        ws[int(p[1])] = (p[2], p[3])
                    elif p[0] == "WD" and len(p) >= 3:
                        wd_[int(p[1])] = tuple(p[2:])
        runs.append((lines, ws, wd_))
    (la, wsa, wda), (lb, wsb, wdb) = runs
    if la != lb or not la:
        return False

    def root(i):
        seen = 0
        while 0 <= la[i][0] < len(la) and seen <= len(la):
            i = la[i][0]
            seen += 1
        return i
    differing = set()
    for i, (par, toks) in enumerate(la):
        if any(wda.get(t) != wdb.get(t) for t in toks):
            differing.add(root(i))
    if not differing:
        return False
    return all(wsa.get(r, ("?",))[0] == "ok" and wsa.get(r) == wsb.get(r) for r in differing)


def token_in_line_without_solution(ctx, text, cfg, token):
    """For the F42 class detector: does the token belong to a logical line (or to a descendant of one) for which the
    search reported `none` or `limit` (hook: WS <line> none|limit <n>)?  `token` may also name a text-level clause
    ("leading_blank_line", "two_blank_lines"): then the question is asked of every token whose final newline count breaks it."""
    c = Case("nosol", cfg, [], text)
    try:
        results, files, wd = runner.run_cases([c], mode="trace")
    except Exception:
        return False
    ctx.workdirs.append(wd)
    # the class is "the search, AS MODELLED, has no solution for the line": an implementation that gives up where the search model
    # finds a solution is a different violation (and a broken tie), not this finding
    try:
        counts, _d, _x, _v = runner.run_driver(files, ["search"])
    except Exception:
        return False
    if list(counts.get("search", [0, 0])) != [1, 0]:
        return False
    lines, lab, failed, final, slab = [], None, set(), [], None
    for tf in files:
        try:
            fh = open(tf, errors="replace")
        except OSError:
            continue
        with fh:
            for ln in fh:
                p = ln.split()
                if not p:
                    continue
                if p[0] == "LINES":
                    lab, slab = p[1], None
                elif p[0] == "STATE":
                    lab, slab = None, p[1]
                elif p[0] in ("OUT", "PARSED", "GENERICS", "RAW"):
                    lab = slab = None
                elif p[0] == "k" and slab == "final" and len(p) >= 3:
                    final.append(int(p[2]))      # newlines_before of the token after the wrapper
                elif p[0] == "l" and lab == "pre":
                    lines.append((int(p[3]), [int(x) for x in p[6:]]))
                elif p[0] == "WS" and len(p) >= 3 and p[2] in ("none", "limit"):
                    failed.add(int(p[1]))
    def in_failed(tok):
        for i, (par, toks) in enumerate(lines):
            if tok in toks:
                j, seen = i, 0
                while seen <= len(lines):
                    if j in failed:
                        return True
                    if not (0 <= lines[j][0] < len(lines)):
                        break
                    j = lines[j][0]
                    seen += 1
        return False

    if token == "leading_blank_line":       # the text-level clauses: every token whose final counters make the clause fail
        offenders = [0] if final and final[0] >= 1 else []
    elif token == "two_blank_lines":
        offenders = [i for i, nl in enumerate(final) if nl >= 3]
    else:
        offenders = [token]
    return bool(offenders) and all(in_failed(t) for t in offenders)


def voided_parent_with_children(ctx, text, cfg):
    """For the F41 class detector: after the ignorers ran, is there a logical line that is NOT voided but whose parent
    line IS (all of the parent's tokens lie in a disabled region)?  Such child lines are never visited by the wrapper."""
    c = Case("voidpar", cfg, [], text)
    try:
        results, files, wd = runner.run_cases([c], mode="trace")
    except Exception:
        return False
    ctx.workdirs.append(wd)
    lines, lab = [], None
    for tf in files:
        try:
            fh = open(tf, errors="replace")
        except OSError:
            continue
        with fh:
            for ln in fh:
                p = ln.split()
                if not p:
                    continue
                if p[0] == "LINES":
                    lab = p[1]
                elif p[0] in ("STATE", "OUT", "PARSED", "GENERICS", "RAW"):
                    lab = None
                elif p[0] == "l" and lab == "pre":
                    lines.append((p[1], int(p[3])))
    for ty, par in lines:
        if ty != "Voided" and 0 <= par < len(lines) and lines[par][0] == "Voided":
            return True
    return False


def real_token_spans_lines(ctx, text):
    """does the REAL lexer produce a token (other than Eof) whose content holds a line break?"""
    c = Case("spans", gen.DEFAULT_CFG, [], text)
    try:
        results, files, wd = runner.run_cases([c], mode="trace")
    except Exception:
        return False
    ctx.workdirs.append(wd)
    data = c.input_bytes()
    pos, in_raw = 0, False
    for tf in files:
        try:
            fh = open(tf, errors="replace")
        except OSError:
            continue
        with fh:
            for ln in fh:
                p = ln.split()
                if not p:
                    continue
                if p[0] == "RAW":
                    in_raw, pos = True, 0
                elif p[0] == "r" and in_raw:
                    w, n = int(p[1]), int(p[2])
                    content = data[pos + w: pos + w + n]
                    pos += w + n
                    if b"\n" in content or b"\r" in content:
                        return True
                elif in_raw:
                    in_raw = False
    return False


def witness_cases(ctx, prop, **meta):
    """the concrete witnesses of this property's known findings, replayed through the same oracle"""
    from . import findings
    out = []
    for fid, text, cfg, cursors, w in findings.witness_inputs(prop):
        m = {"witness": fid}
        m.update(meta)
        out.append(ctx.case("witness-" + fid, text, tuple(cfg) if cfg else gen.DEFAULT_CFG, cursors=cursors or [], meta=m))
    return out


def normalise_site(detail):
    m = re.search(r"([\w/.-]+\.rs):(\d+)", detail)
    if m:
        return os.path.basename(m.group(1))
    if "stack" in detail.lower() or "SIGSEGV" in detail or "exit -11" in detail or "exit -6" in detail:
        return "stack-overflow"
    return "unknown"


class Spec:
    def __init__(self, **kw):
        self.coq_targets = kw.get("coq_targets", [])
        self.thorough_rounds = kw.get("thorough_rounds", 6)
        self.module = kw.get("module", "")
        self.theorems = kw.get("theorems", [])
        self.run = kw["run"]
        self.rule = kw.get("rule", "")
        self.explanation = kw.get("explanation", "")
        self.assumptions = kw.get("assumptions", [])
        self.trusted_extra = kw.get("trusted_extra", [])
        self.needs_plain = kw.get("needs_plain", False)


# ------------------------------------------------------------------ shared helpers

def strip_blank(b: bytes) -> bytes:
    """the non-blank projection of C01 on bytes (drop <= 0x20 and U+3000)"""
    b = b.replace(b"\xe3\x80\x80", b"")
    return bytes(x for x in b if x > 0x20)


def fold(b: bytes) -> bytes:
    return b.lower() if b.isascii() else bytes((x + 32) if 65 <= x <= 90 else x for x in b)


def standard_streams(ctx, n_seed_cfgs=1, n_mut=200, n_soup=300, n_bytes=100, n_gram=100, cfgs=None):
    """the common mixed stream: seeds x configurations, mutated seeds, soup, arbitrary bytes, grammar programs"""
    rng = ctx.rng
    S = gen.seeds()
    texts = [s["text"] for s in S]
    cases = []
    for s in S:
        cases.append(ctx.case("seed", s["text"], (s["wrap"], 0, 1, 0, 2, 2, 0)))
        for _ in range(n_seed_cfgs - 1):
            cases.append(ctx.case("seedcfg", s["text"], gen.random_cfg(rng)))
    for _ in range(n_mut):
        cases.append(ctx.case("mut", gen.mutate(rng.choice(texts), rng, texts), gen.random_cfg(rng)))
    for _ in range(n_soup):
        cases.append(ctx.case("soup", gen.soup(rng, 1, 12), gen.random_cfg(rng)))
    for _ in range(n_bytes):
        cases.append(ctx.case("bytes", gen.random_bytes_text(rng, rng.randrange(1, 60)), gen.random_cfg(rng)))
    for _ in range(n_gram):
        p = gen.grammar_program(rng)
        t = p.text()
        if rng.random() < 0.5:
            t2 = gen.relayout(t, rng)
            t = t2 if t2 is not None else t
        cases.append(ctx.case("grammar", t, gen.random_cfg(rng)))
    for _ in range(n_gram * 2):
        cases.append(ctx.case("literal", literal_text(rng), gen.random_cfg(rng)))
    for _ in range(n_gram):
        cases.append(ctx.case("childline", gen.child_line_program(rng), gen.random_cfg(rng)))
    for text, tag in placement_sample(ctx):
        cases.append(ctx.case("placement", text, gen.random_cfg(rng), meta={"tag": tag}))
    for t, widths in gen.RARE_STMTS:
        for w in widths:
            for bs in (0, 1):
                cases.append(ctx.case("rare", t, (w, bs, 1, 0, 2, 2, 0)))
    for t in gen.RARE_DECLS:
        for _ in range(3):
            t2 = gen.relayout(t, rng)
            cases.append(ctx.case("decls", t2 if t2 is not None and rng.random() < 0.6 else t, gen.random_cfg(rng)))
    for _ in range(n_gram * 3):
        d = gen.directive_text(rng)
        cases.append(ctx.case("directive", rng.choice(["%s\n", "begin\n  %s\n  Foo;\nend.\n", "Foo(A, %s B);\n", "%s %s\n" % ("%s", gen.directive_text(rng).replace("%", "%%"))]) % d, gen.random_cfg(rng)))
    return cases


def placement_sample(ctx):
    m = list(gen.child_placement_matrix())
    return m if not ctx.quick() else ctx.rng.sample(m, 400)


# ------------------------------------------------------------------ C01

def run_c01(ctx):
    rng = ctx.rng

    def oracle(r):
        ctx.count("nonblank_fold_checked")
        a = fold(strip_blank(r.case.input_bytes()))
        b = fold(strip_blank(r.out))
        if a != b:
            # locate first difference
            i = next((k for k in range(min(len(a), len(b))) if a[k] != b[k]), min(len(a), len(b)))
            ctx.fail("nonblank_changed", r.case, "non-blank characters differ at projected offset %d: in=%r out=%r" % (i, a[max(0, i - 10):i + 10], b[max(0, i - 10):i + 10]),
                     observed=r.out.hex()[:2000])
    cases = standard_streams(ctx, n_seed_cfgs=ctx.n(1, 4), n_mut=ctx.n(300, 6000), n_soup=ctx.n(300, 8000),
                             n_bytes=ctx.n(150, 3000), n_gram=ctx.n(100, 3000))
    for kind, text in gen.codepoint_sweep():
        cases.append(ctx.case(kind, text, gen.random_cfg(rng) if rng.random() < 0.3 else gen.DEFAULT_CFG))
    ctx.run_stream(cases, units=["settings", "recon", "r01", "tokok", "comment", "lower", "lex", "e2e"], oracle=oracle)
    ctx.hypotheses["tok_ok (blank leading whitespace, content not starting inside U+3000)"] = "evaluated by unit tokok on every token of every trace"
    ctx.hypotheses["R01 (per-token content relation between lexer output and final tokens)"] = "evaluated by unit r01 on every token of every trace"


PROPS = {
    "C01": Spec(
        coq_targets=["theories/Properties/C01.v"], module="Properties.C01",
        theorems=["C01_reconstruct_nonblank", "C01_settings_wf"],
        run=run_c01,
        rule="seeds of the repository's data tests x configurations, token-level mutations of seeds, token soup, arbitrary bytes decoded as text, grammar-generated programs (relayouted); distinct = distinct (input, cfg); non-trivial = input not all blank",
        explanation="Theorems: reconstruction preserves the non-blank projection for all counters/marks/settings; per-token content relation R01 checked on every real token by the extracted predicate; the oracle compares fold(nonblank) of input and output of the real formatter.",
        assumptions=["tok_ok for lexer output (monitored on every token until the lexer model proves it)",
                     "the three content-rewriting rules are the only set_content sites (inventory)"],
    ),
}


# ------------------------------------------------------------------ helper: paired runs

def run_pairs(ctx, pairs, compare, mode="fmt"):
    """pairs: list of (caseA, caseB, meta). Runs all cases, then compare(resA, resB, meta)."""
    cases = []
    for a, b, _ in pairs:
        cases.append(a)
        cases.append(b)
    res = ctx.run_stream(cases, mode=mode)
    for a, b, meta in pairs:
        ra, rb = res.get(a.id), res.get(b.id)
        if ra is None or rb is None or ra.out is None or rb.out is None:
            continue
        compare(ra, rb, meta)


def wellformed_texts(ctx, n_gram):
    """(text, kind) of inputs that are well-formed by construction: curated seeds and grammar programs"""
    out = [(s["text"], "seed", s["wrap"]) for s in gen.seeds()]
    for _ in range(n_gram):
        out.append((gen.grammar_program(ctx.rng).text(), "grammar", 120))
    for _ in range(n_gram):
        out.append((gen.child_line_program(ctx.rng), "childline", ctx.rng.choice([30, 60, 120, 120])))
    for text, tag in placement_sample(ctx):
        out.append((text, "placement", ctx.rng.choice([30, 120])))
    for _ in range(n_gram):
        d = gen.directive_text(ctx.rng)
        if d.endswith(("}", "*)")) and "\n" not in d:
            out.append(("begin\n  %s\n  Foo;\nend.\n" % d, "directive", 120))
    for t in gen.RARE_DECLS:
        out.append((t, "decls", ctx.rng.choice([30, 60, 120])))
    for t, widths in gen.RARE_STMTS:
        for w in widths:
            out.append((t, "rare", w))
    return out


# ------------------------------------------------------------------ C07

TOGGLE_FORMS = [("// pasfmt off\n", "// pasfmt on\n"), ("{pasfmt off}", "{pasfmt on}"), ("(* pasfmt off *)", "(* pasfmt on *)"),
                ("//PASFMT OFF\n", "//  PasFmt   On\n"), ("{ \tPASFMT off now }", "{pasfmt ON}"), ("(*pasfmt Off*)", "//pasfmt on\n"),
                ("// pasfmt off\r\n", "// pasfmt on\r\n"), ("// pasfmt off\r", "{pasfmt on}"), ("//pasfmt\toff\n", "{\tpasfmt\x0con}")]
NON_TOGGLES = ["// pasfmt offx\n", "// pasfmtoff\n", "{ pasfmt }", "{pasfmt o}", "(* pas fmt off *)", "/// pasfmt off\n", "// xpasfmt off\n", "{$pasfmt off}", "{pasfmt offf}", "{pasfmt on1}"]


OFF_FORMS = ["// pasfmt off\n", "{pasfmt off}", "(* pasfmt off *)", "//PASFMT OFF\n", "{ \tPASFMT off now }", "(*pasfmt Off*)", "// pasfmt off\r\n", "// pasfmt off\r", "//pasfmt\toff\n",
             "{ pasfmt off: aligned by hand }"]
ON_FORMS = ["// pasfmt on\n", "{pasfmt on}", "(* pasfmt on *)", "//  PasFmt   On\n", "{pasfmt ON}", "//pasfmt on\n", "// pasfmt on\r\n", "{\tpasfmt\x0con}",
            "// pasfmt on\r", "// pasfmt on\r{x} ", "// pasfmt on\r// y\n"]


def insert_region(text, rng):
    """inserts a random sequence of 1..4 toggle comments (off/on in any order, so also a second `off`
    inside a disabled region and an `on` without `off`) at token gaps; returns (new_text, [regions])
    where each region is the exact byte string that must appear in the output"""
    if gen.has_asm_or_toggle(text) or "'''" in text:
        # multi-line literals: the approximate tokenizer could place the comment inside a string
        return None
    toks = gen.tokenize(text)
    gaps = [i for i, (k, t) in enumerate(toks) if k == "ws" and 0 < i < len(toks) - 1
            and not gen.is_comment_kind(toks[i - 1][0]) and toks[i - 1][0] not in ("unk",) and toks[i + 1][0] not in ("unk",)]
    if not gaps:
        return None
    n = min(len(gaps), rng.choice([1, 2, 2, 2, 3, 4]))
    chosen = sorted(rng.sample(gaps, n))
    kinds = []
    for j in range(n):
        if j == 0:
            kinds.append("off" if rng.random() < 0.85 else "on")
        else:
            kinds.append(rng.choice(["off", "on", "on"]))
    pieces = []   # (text, toggle kind or None)
    prev = 0
    for g, kd in zip(chosen, kinds):
        pieces.append(("".join(t for _, t in toks[prev:g + 1]), None))
        form = rng.choice(OFF_FORMS if kd == "off" else ON_FORMS)
        if not form.startswith("//") and not form.endswith(("\n", "\r")) and rng.random() < 0.6:
            # blanks between a block-form toggle and the next token of the same line: after an `on` comment they are
            # ordinary (formatted) whitespace again, whatever their amount
            form += rng.choice([" ", "   ", "\t", "  \t ", "     "])
        pieces.append((form, kd))
        prev = g + 1
    pieces.append(("".join(t for _, t in toks[prev:]), None))
    if rng.random() < 0.15:
        # a region that opens at the very top of the file: the toggle comment is the file's first token (in any spelling, also the
        # ones the comment rewriter would normalise), with or without whitespace in front of it - all of it verbatim
        form = rng.choice(OFF_FORMS + ["//pasfmt off  \n", "//pasfmt off\n", "{pasfmt off}   "])
        pieces = [(rng.choice(["", "", "  ", "\n\n", "\t", " \n "]), None), (form, "off")] + pieces
    new = "".join(p for p, _ in pieces)
    regions = []
    ignored = False
    start = None
    pos = 0
    for ptxt, kd in pieces:
        if kd == "off" and not ignored:
            ignored = True
            # (the whitespace in front of the file's first token belongs to that token: verbatim with it)
            start = 0 if new[:pos].strip(" \t\r\n") == "" else pos
        elif kd == "on" and ignored:
            # the region ends with the `on` comment itself (some forms carry text after the comment)
            if ptxt.startswith("//"):
                clen = min([ptxt.index(ch) for ch in "\r\n" if ch in ptxt] + [len(ptxt)])
            else:
                clen = ptxt.index("}") + 1 if ptxt.startswith("{") else ptxt.index("*)") + 2
            end = pos + clen
            regions.append(new[start:end].encode("utf-8"))
            ignored = False
        pos += len(ptxt)
    if ignored:
        regions.append(new[start:].encode("utf-8"))
    if not regions:
        return None
    return new, regions


ASM_BODIES = ["  mov eax, 1\n   @@loop:  dec   ecx\n  jnz @@loop\n", "mov   A,B\n mov C , D\n  mov   C ,   D\n", "  db $0F,$31 ; rdtsc\n  PUSH  EBX\n",
              # conditional directives written on an instruction's line belong to that line (F33): at its end, in its middle, around it
              "  PUSH  {$IFDEF CPUX64}   rbx   {$ENDIF}\n  ret\n", "  MOV {$IFDEF CPUX64} rax {$ELSE} eax {$ENDIF}, 1\n",
              "  mov eax, {$IFDEF A} 1 {$ELSE} 2 {$ENDIF}\n  {$IFDEF X} mov ebx, 2 {$ENDIF}\n  ret\n",
              "  {$IFNDEF PUREPASCAL}  xor eax,  eax {$ELSE} nop {$ENDIF}\n",
              # runs of adjacent directives at the start, the end and in the middle of an instruction line
              "  {$IFDEF CPUX64}{$IFDEF MSWINDOWS}   mov   rax,  [rcx]   {$ENDIF}{$ENDIF}\n  ret\n",
              "  mov  eax, 1 {$IFDEF A} {$IFDEF B}{$ENDIF}  {$ENDIF}\n", "  {$IFDEF A}{$ELSE}{$ENDIF} nop\n",
              "  push {$IFDEF A}{$IFDEF B} eax {$ELSE}  ebx {$ENDIF}{$ELSE}{$IFDEF C}ecx{$ENDIF}{$ENDIF}\n  pop  edx\n", "  db   'abc' , \"def\",0FFh\n  mov  al,'x'\n  or al,  101b\n", "  push {$IF Defined(A)} eax {$ELSEIF Defined(B)} ebx {$ELSE} ecx {$IFEND}; pop  edx\n"]


def run_c07(ctx):
    rng = ctx.rng
    wf = wellformed_texts(ctx, ctx.n(200, 4000))
    cases = []
    for text, kind, wrap in wf:
        for _ in range(ctx.n(1, 4)):
            r = insert_region(text, rng)
            if r is None:
                continue
            new, regions = r
            cases.append(ctx.case("region", new, gen.random_cfg(rng), meta={"regions": regions}))
        r = double_region_in_statement(text, rng)
        if r is not None:
            cases.append(ctx.case("region2", r[0], gen.random_cfg(rng), meta={"regions": r[1]}))
    # asm bodies
    for _ in range(ctx.n(60, 600)):
        body = rng.choice(ASM_BODIES)
        t = "procedure P;\nbegin\n  X  :=  1;\n  asm\n" + body + "  end;\n  Y:=2;\nend;\n"
        cases.append(ctx.case("asm", t, gen.random_cfg(rng), meta={"regions": [body.rstrip("\n").encode()]}))
    # negative spellings: must NOT open a region (the code after it is still formatted)
    for nt in NON_TOGGLES:
        for _ in range(ctx.n(3, 30)):
            t = "begin\n" + nt + "  Foo  :=   Bar ;\nend.\n"
            cases.append(ctx.case("nontoggle", t, gen.random_cfg(rng, wrap=120), meta={"formatted": b"Foo := Bar;"}))

    def oracle(r):
        m = r.case.meta
        for region in m.get("regions", []):
            ctx.count("region_checked")
            if region not in r.out:
                ctx.fail("region_not_verbatim", r.case, "verbatim region %r not found byte-for-byte in the output" % region[:200], observed=r.out.hex()[:2000])
                break
        if "formatted" in m:
            ctx.count("nontoggle_checked")
            if m["formatted"] not in r.out:
                ctx.fail("toggle_misrecognised", r.case, "a comment that is not a pasfmt toggle disabled formatting", observed=r.out.hex()[:2000])

    for wc in witness_cases(ctx, "C07"):
        wc.meta["regions"] = [wc.input_bytes()]
        cases.append(wc)
    ctx.run_stream(cases, units=["ignore", "recon", "lower", "comment", "eofnl", "e2e"], oracle=oracle)
    ctx.hypotheses["no_net inside ignored runs (no safety-net newline inside a region)"] = "region substring oracle on every case; lone-CR terminated comments included in the toggle forms"
    ctx.hypotheses["which lines are AsmInstruction lines (grammar oracle)"] = "asm stream: instruction lines compared byte for byte"


# ------------------------------------------------------------------ C08

def line_split(out: bytes):
    return out.replace(b"\r\n", b"\n").split(b"\n")


def double_region_in_statement(text, rng):
    """one statement whose head and tail are in disabled regions while its middle is formatted code, with several blank
    lines before a middle token: `{pasfmt off}Foo  ({pasfmt on} A,<blank lines> B {pasfmt off})  ;{pasfmt on}`.
    returns (new_text, [regions]) or None"""
    if gen.has_asm_or_toggle(text) or "'''" in text or gen.has_multiline_token(text):
        # (works line by line: a line inside a multi-line comment would get its "toggles" inside that comment)
        return None
    lines = text.split("\n")
    cand = [i for i, ln in enumerate(lines) if ln.strip().endswith(";") and "//" not in ln and "{" not in ln and "(*" not in ln and "'" not in ln]
    rng.shuffle(cand)
    for li in cand:
        toks = [(k, t) for k, t in gen.tokenize(lines[li])]
        idx = [i for i, (k, t) in enumerate(toks) if k != "ws"]
        if len(idx) < 6:
            continue
        a = rng.randrange(1, len(idx) - 3)          # the first region ends after token a
        b = rng.randrange(a + 2, len(idx))          # the second region starts before token b
        parts = []
        regions = []
        for n_, i in enumerate(idx):
            if n_ == 0:
                parts.append("{pasfmt off}")
            if n_ == b:
                parts.append(rng.choice(["\n\n\n\n   ", "\n\n\n", "  "]) if rng.random() < 0.7 else " ")
                parts.append("{pasfmt off}")
            parts.append(toks[i][1])
            if n_ == a:
                parts.append("{pasfmt on}")
                parts.append(rng.choice(["\n\n\n\n      ", "\n\n\n  ", " "]))
            elif n_ == len(idx) - 1:
                parts.append("{pasfmt on}")
            else:
                parts.append(rng.choice([" ", "  ", "   "]))
        new_line = "".join(parts)
        r1 = new_line[:new_line.index("{pasfmt on}") + len("{pasfmt on}")]
        r2 = new_line[new_line.rindex("{pasfmt off}"):]
        lead = lines[li][:len(lines[li]) - len(lines[li].lstrip())]
        out = lines[:li] + [lead + new_line] + lines[li + 1:]
        return "\n".join(out), [r1.encode("utf-8"), r2.encode("utf-8")]
    return None


def twice_decided_texts(ctx, n1, n2):
    rng = ctx.rng
    # statements that belong to two logical lines (child of an `if` in one conditional-compilation
    # pass, plain statement in the other) and multi-line literals followed by a call, both inside
    # indented blocks, at wrap columns next to their line lengths: tokens decided twice
    bt = []
    for _ in range(n1):
        p = gen.grammar_program(rng).text()
        lines = p.split("\n")
        idx = [i for i, l in enumerate(lines) if l.startswith("  ") and l.rstrip().endswith(";") and not l.lstrip().startswith(("end", "until"))]
        for i in rng.sample(idx, min(len(idx), 2)):
            ind = lines[i][:len(lines[i]) - len(lines[i].lstrip())]
            lines[i] = ind + "{$ifdef X}\n" + ind + "if Cond then\n" + ind + "{$else}\n" + ind + "Other;\n" + ind + "{$endif}\n" + lines[i]
        bt.append(("\n".join(lines), gen.random_cfg(rng)))
    for _ in range(n2):
        # (the literal sits left OR far right of its final position: the first pass measures what follows the closing
        # quotes from the SOURCE indentation, so the reflow has to add breaks in one case and to remove them in the other)
        lind = " " * rng.choice([0, 0, 0, 2, 8, 16, 24, 30, 40])
        lit = "'''\n" + lind + rng.choice(["", "  "]) + "foo\n" + lind + "'''"
        # (half of them take an anonymous routine: its body is a CHILD line, re-decided by the reflow)
        call = rng.choice([".Format(%s, %s)", ".Replace(%s, %s)", " + Foo(%s, %s)",
                           ".Map(procedure begin %s; end, %s)", ".Each(procedure(X: T) begin %s; %s; end)", " + Foo(function: T begin Result := %s; end, %s)",
                           ".Map(procedure begin %s(%s); end)"]) % ("B" + "b" * rng.randrange(3, 22), "C" + "c" * rng.randrange(3, 22))
        body = "  " * rng.randrange(1, 4)
        sep = rng.choice([" ", " ", "\n"])
        bt.append(("procedure P;\nbegin\n" + body + "A :=" + sep + lit + call + ";\nend;\n", gen.random_cfg(rng)))
    return bt


def run_c08(ctx):
    rng = ctx.rng

    def oracle(r):
        c = r.case
        out = r.out
        text = c.text if isinstance(c.text, str) else ""
        ctx.count("outputs_scanned")
        if out == b"":
            return
        simple = not gen.has_multiline_token(text) and not gen.has_asm_or_toggle(text)
        if simple:
            lines = line_split(out)
            # no blank line at the start (unless the whole output is one terminator), never two blank lines
            if lines[0] == b"" and out.strip(b"\r\n") != b"":
                ctx.fail("leading_blank_line", c, "output starts with a blank line", observed=out.hex()[:2000])
            for i in range(len(lines) - 2):
                if lines[i] == b"" and lines[i + 1] == b"" and i + 2 < len(lines) - 0 and any(l != b"" for l in lines[i + 2:]):
                    ctx.fail("two_blank_lines", c, "two consecutive blank lines at output line %d" % i, observed=out.hex()[:2000])
                    break
            # indentation: whole number of units
            tabs, tw, ci = c.cfg[3], c.cfg[4], c.cfg[5]
            for ln in lines:
                lead = ln[:len(ln) - len(ln.lstrip(b" \t"))]
                if not lead:
                    continue
                if tabs:
                    ok = lead.strip(b"\t") == b""
                else:
                    ok = lead.strip(b" ") == b"" and (tw == 0 or len(lead) % tw == 0)
                if not ok and not c.meta.get("invalid"):
                    ctx.fail("indent_not_unit_multiple", c, "line indentation %r is not a whole number of units" % lead, observed=out.hex()[:2000])
                    break
        if c.meta.get("closed_region_then_eof"):
            ctx.count("eof_clause_checked")
            nl = b"\r\n" if c.cfg[6] else b"\n"
            if not out.endswith(b"{pasfmt on}" + nl):
                ctx.fail("no_final_newline", c, "after the comment that closes the last verbatim region the output does not end with exactly one line terminator: ...%r" % out[-24:], observed=out.hex()[-400:])
        if c.meta.get("wellformed"):
            ctx.count("eof_clause_checked")
            nl = b"\r\n" if c.cfg[6] else b"\n"
            if not out.endswith(nl) or out.endswith(nl + nl):
                ctx.fail("no_final_newline", c, "output of well-formed input does not end with exactly one line terminator: ...%r" % out[-20:], observed=out.hex()[-400:])

    cases = []
    for text, kind, wrap in wellformed_texts(ctx, ctx.n(150, 3000)):
        cfg = gen.random_cfg(rng)
        if cfg[3] == 0 and cfg[4] * cfg[5] > 255:
            cfg = cfg[:5] + (2,) + cfg[6:]
        cases.append(ctx.case(kind, text, cfg, meta={"wellformed": True}))
        t2 = gen.relayout(text, rng)
        if t2 is not None and rng.random() < 0.5:
            cases.append(ctx.case("relayout", t2, cfg, meta={"wellformed": True}))
    texts = [s["text"] for s in gen.seeds()]
    for _ in range(ctx.n(400, 8000)):
        cases.append(ctx.case("mut", gen.mutate(rng.choice(texts), rng, texts), gen.random_cfg(rng), meta={"invalid": True}))
    for _ in range(ctx.n(300, 6000)):
        cases.append(ctx.case("soup", gen.soup(rng, 1, 12), gen.random_cfg(rng), meta={"invalid": True}))
    bt = twice_decided_texts(ctx, ctx.n(250, 4000), ctx.n(250, 4000))
    cases += boundary_width_cases(ctx, bt, "twice-decided", input_lines=True)
    for kind, text in gen.codepoint_sweep(rng, frac=ctx.n(0.5, 1.0), wellformed_only=True):
        cases.append(ctx.case(kind, text, gen.DEFAULT_CFG, meta={"wellformed": True}))
    # disabled regions inside statements: the tokens around them are formatted as usual (spacing, canonical counters)
    for text, kind, wrap in wellformed_texts(ctx, ctx.n(60, 1500))[:: ctx.n(3, 1)]:
        if rng.random() < 0.6 and "'''" not in text and not gen.has_asm_or_toggle(text):
            # several blank lines INSIDE statements: around a region that ends mid-statement they belong to formatted tokens again
            toks = gen.tokenize(text)
            for gi in rng.sample(range(len(toks)), min(len(toks), 3)):
                if toks[gi][0] == "ws" and 0 < gi < len(toks) - 1 and not gen.is_comment_kind(toks[gi - 1][0]) and not gen.is_comment_kind(toks[gi + 1][0]) \
                        and toks[gi - 1][0] not in ("unk", "str", "num", "mls") and toks[gi + 1][0] not in ("unk", "str", "num", "mls"):
                    toks[gi] = ("ws", "\n\n\n\n" + " " * rng.randrange(0, 9))
            text = "".join(t for _, t in toks)
        r = insert_region(text, rng)
        if r is not None:
            cases.append(ctx.case("region", r[0], gen.random_cfg(rng, wrap=rng.choice([wrap, 120, 1000000])), meta={"invalid": True}))
        r = double_region_in_statement(text, rng)
        if r is not None:
            cases.append(ctx.case("region2", r[0], gen.random_cfg(rng, wrap=rng.choice([wrap, 120, 1000000])), meta={"invalid": True}))
    # a file that is verbatim from top to bottom but whose last region is CLOSED before the end: the end-of-file token is then an ordinary
    # token and the end-of-file clause applies to what follows the closing comment (nothing, blanks, several line breaks)
    for text, kind, wrap in wellformed_texts(ctx, ctx.n(40, 800)):
        if gen.has_asm_or_toggle(text) or "'''" in text or gen.has_multiline_token(text):
            continue
        tail = rng.choice(["", "", "   ", "\n\n\n", " \n", "\t\n\n", "\n"])
        body = text.rstrip(" \t\r\n")
        mid = rng.choice(["", "", "{pasfmt on}\n{pasfmt off}", "// pasfmt on\n// pasfmt off\n"]) if "\n" in body else ""
        k = body.find("\n", len(body) // 2) + 1 if mid else 0
        cases.append(ctx.case("wholefile-region", "{pasfmt off}" + body[:k] + mid + body[k:] + rng.choice(["\n", "\n  "]) + "{pasfmt on}" + tail, gen.random_cfg(rng), meta={"closed_region_then_eof": True}))
    cases += witness_cases(ctx, "C08", wellformed=True)
    wf_cases = [c for c in cases if c.meta.get("wellformed")]
    other = [c for c in cases if not c.meta.get("wellformed")]
    ctx.run_stream(wf_cases, units=["canon", "lineend", "invariants", "recon", "eofnl", "settings", "wrapapply", "search", "e2e"], oracle=oracle)
    ctx.run_stream(other, units=["canon", "lineend", "recon", "eofnl", "settings", "wrapapply", "spacing", "search"], oracle=oracle)
    # class attribute of finding F41, decided on the trace, for failures of inputs with disabled regions
    for f in ctx.failures:
        if "voided_parent" not in f and f.get("input_hex") and f.get("cfg"):
            try:
                t = bytes.fromhex(f["input_hex"]).decode("utf-8")
            except (ValueError, UnicodeDecodeError):
                continue
            if "pasfmt" in t.lower():
                f["voided_parent"] = voided_parent_with_children(ctx, t, tuple(f["cfg"]))
            m = re.search(r"\btoken (\d+)\b", f.get("detail") or "")
            if m and f.get("kind") == "plan_not_canonical":
                f["no_solution_line"] = token_in_line_without_solution(ctx, t, tuple(f["cfg"]), int(m.group(1)))
            elif f.get("kind") in ("leading_blank_line", "two_blank_lines"):
                # the same clause seen on the text: F42 only if EVERY token whose final newline count makes it fail lies in a line without solution
                f["no_solution_line"] = token_in_line_without_solution(ctx, t, tuple(f["cfg"]), f["kind"])
    ctx.hypotheses["the wrapper's decisions are those of the search model (Model/WrapSearch.v: one decision per token, invariants respected: search_plan_respects)"] = "unit search on every trace: decisions, measured lengths, search outcomes and final token vector against olf_model"
    ctx.hypotheses["H-W1 canon_fmt (final per-token data: line start => no spaces; continuation => <= 1 space, no indentation; <= 1 blank line)"] = "unit canon on every trace"
    ctx.hypotheses["no content ends in a blank before a line break"] = "unit lineend on every trace (classes F3/F7 matched against known findings)"


# ------------------------------------------------------------------ C09

def run_c09(ctx):
    rng = ctx.rng
    pairs = []
    pool = wellformed_texts(ctx, ctx.n(150, 3000))
    texts = [s["text"] for s in gen.seeds()]
    extra = [(gen.mutate(rng.choice(texts), rng, texts), "mut", 120) for _ in range(ctx.n(300, 5000))]
    for text, kind, wrap in pool + extra:
        cfg = gen.random_cfg(rng)
        lf = cfg[:6] + (0,)
        crlf = cfg[:6] + (1,)
        if "\r" in text:
            continue
        verbatim_multiline = gen.has_multiline_token(text) or gen.has_asm_or_toggle(text)
        pairs.append((ctx.case(kind + "-lf", text, lf), ctx.case(kind + "-crlf", text, crlf), {"what": "config", "vm": verbatim_multiline}))
        if not verbatim_multiline:
            pairs.append((ctx.case(kind + "-inlf", text, lf), ctx.case(kind + "-incrlf", gen.to_crlf(text), lf), {"what": "input"}))

    # `//` comments ended by a LONE CR and directly followed by a comment or code: the only line break the
    # reconstructor adds on its own (the safety net after a line comment) must be the configured one too
    crtexts = []
    for text, kind, wrap in pool[:: ctx.n(2, 1)]:
        t2 = lone_cr_comment_variant(text, rng)
        if t2 and not gen.has_multiline_token(t2) and not gen.has_asm_or_toggle(t2):
            crtexts.append(t2)
            cfg = gen.random_cfg(rng)
            pairs.append((ctx.case("lone-cr-lf", t2, cfg[:6] + (0,)), ctx.case("lone-cr-crlf", t2, cfg[:6] + (1,)), {"what": "config", "vm": False}))

    # eligible multi-line literals are REWRITTEN (terminators included), so clause 3 applies to them: the same text with
    # CRLF and with LF line breaks, at widths next to the lengths of its lines, literal first on its line or not (F32)
    for _ in range(ctx.n(200, 3000)):
        lind = "  " * rng.randrange(0, 4)
        lit = "'''\n" + lind + rng.choice(["abcdef", "a", "some longer text here"]) + "\n" + lind + "'''"
        tail = rng.choice([".Foo(%s, %s)", ".Format(%s)", " + %s + %s", "", ".A.B(%s)"])
        tail = tail.replace("%s", "%s") % tuple("x" * rng.randrange(3, 14) for _ in range(tail.count("%s")))
        stmt = rng.choice(["%s%s;", "A := %s%s;", "Run(%s%s, 1);", "Result :=\n    %s%s;"]) % (lit, tail)
        text = "procedure Foo;\nbegin\n  " + stmt + "\nend;\n"
        L = max(len(l) for l in text.split("\n"))
        cfg = gen.random_cfg(rng)
        for w in rng.sample(range(max(10, L - 12), L + 6), 3):
            c = (w,) + tuple(cfg[1:2]) + (1,) + tuple(cfg[3:6]) + (0,)
            pairs.append((ctx.case("mlit-inlf", text, c), ctx.case("mlit-incrlf", gen.to_crlf(text), c), {"what": "input"}))
    # the whole domain of the indentation settings, the saturating region (tab_width x continuation_indents > 255) included: the
    # line ending must not depend on any other setting
    for text, kind, wrap in pool[:: ctx.n(8, 2)]:
        if "\r" in text or gen.has_multiline_token(text) or gen.has_asm_or_toggle(text):
            continue
        cfg = gen.random_cfg(rng)
        ext = cfg[:3] + (rng.randrange(2), rng.choice([0, 1, 15, 16, 17, 64, 128, 255]), rng.choice([0, 1, 15, 16, 17, 100, 255]))
        pairs.append((ctx.case("extreme-lf", text, ext + (0,)), ctx.case("extreme-crlf", text, ext + (1,)), {"what": "config", "vm": False}))
    from . import findings as _f9
    for fid, text, cfg, cursors, w in _f9.witness_inputs("C09"):
        if "\r\n" in text:
            pairs.append((ctx.case("witness-" + fid + "-lf", text.replace("\r\n", "\n"), tuple(cfg)), ctx.case("witness-" + fid, text, tuple(cfg)), {"what": "input"}))

    def compare(ra, rb, meta):
        if meta["what"] == "config":
            ctx.count("lf_vs_crlf_config")
            if meta["vm"]:
                # verbatim multi-line tokens keep their own terminators: compare modulo CR
                if ra.out.replace(b"\r", b"") != rb.out.replace(b"\r", b""):
                    ctx.fail("crlf_not_subst", rb.case, "crlf result differs from lf result beyond line terminators")
                return
            if b"\r" in ra.out:
                ctx.fail("cr_in_lf_output", ra.case, "line_ending=lf output contains CR", observed=ra.out.hex()[:2000])
            if ra.out.replace(b"\n", b"\r\n") != rb.out:
                if ra.out.replace(b"\r", b"") == rb.out.replace(b"\r", b"") and real_token_spans_lines(ctx, rb.case.text):
                    ctx.count("lf_vs_crlf_config_line_spanning_token_modulo_cr")
                    return
                ctx.fail("crlf_not_subst", rb.case, "crlf result is not the lf result with each terminator substituted", observed=rb.out.hex()[:2000], expected=ra.out.replace(b"\n", b"\r\n").hex()[:2000])
        else:
            ctx.count("lf_vs_crlf_input")
            if ra.out != rb.out:
                if ra.out.replace(b"\r", b"") == rb.out.replace(b"\r", b"") and real_token_spans_lines(ctx, rb.case.text):
                    # the proviso of clause 3, decided by the real lexer: a token that holds a line break (an
                    # unterminated directive or comment of an ill-formed input, ...) is kept verbatim with its CRs
                    ctx.count("lf_vs_crlf_input_excluded_line_spanning_token")
                    return
                ctx.fail("input_endings_matter", rb.case, "CRLF input formats differently from the same input with LF", observed=rb.out.hex()[:2000], expected=ra.out.hex()[:2000])

    run_pairs(ctx, pairs, compare)
    # correspondence of reconstruct under both settings, on a traced sample
    sample = [ctx.case("trace", t, gen.random_cfg(rng)) for t, _, _ in pool[:: max(1, len(pool) // ctx.n(300, 3000))]]
    # multi-line literals in every terminator style, also already at their final indentation: the
    # interior terminators of every eligible literal must come out as the configured line ending
    for _ in range(ctx.n(1200, 20000)):
        lit = gen_literal(rng)
        cfg = gen.random_cfg(rng)
        sample.append(ctx.case("literal", literal_text(rng, lit), cfg))
    for t2 in crtexts[:: 2]:
        sample.append(ctx.case("lone-cr-trace", t2, gen.random_cfg(rng)[:6] + (1,)))
    lits = [c for c in sample if c.meta["stream"] == "literal"][:: 2]
    res0 = ctx.run_stream([ctx.case("literal-pre", c.text, c.cfg) for c in lits], mode="fmt")
    for r in res0.values():
        if r.out is not None:
            try:
                t = r.out.decode("utf-8")
            except UnicodeDecodeError:
                continue
            # the formatted text, fed back under the opposite line ending and with its endings swapped
            flip = tuple(r.case.cfg[:6]) + (1 - r.case.cfg[6],)
            sample.append(ctx.case("literal-formatted", t, flip))
            sample.append(ctx.case("literal-formatted", t.replace("\r\n", "\n") if "\r\n" in t else t.replace("\n", "\r\n"), r.case.cfg))
    ctx.run_stream(sample, units=["recon", "settings", "mlstring", "mlvalue", "e2e"])
    settings_grid(ctx)
    ctx.hypotheses["H-W2 (the wrapper's plan does not depend on the newline string)"] = "lf/crlf configuration pairs on the real formatter"


def settings_grid(ctx):
    """the settings conversion (From<&FormattingConfig> for ReconstructionSettings: newline, indentation and continuation
    strings) on a grid of configurations, through the model (exhaustive in the thorough tier)"""
    import subprocess
    p = subprocess.run([build.VH, "unit", "settings", ctx.tier], stdout=subprocess.PIPE, env=build.ENV, timeout=600)
    grid = os.path.join(build.CACHE, "run", "grid_%d.txt" % os.getpid())
    os.makedirs(os.path.dirname(grid), exist_ok=True)
    with open(grid, "wb") as f:
        f.write(p.stdout)
    q = subprocess.run([build.DRIVER, "settings-grid", grid], stdout=subprocess.PIPE, timeout=1200)
    os.remove(grid)
    n_ok = n_bad = 0
    for line in q.stdout.decode().splitlines():
        if line.startswith("GRID OK"):
            n_ok = int(line.split()[2])
        elif line.startswith("GRID DIFF"):
            n_bad += 1
            ctx.corr_diffs.append(("grid", "settings", line))
    ctx.corr_counts["settings_grid"] = [n_ok, n_bad]
    ctx.traces_validated += n_ok
    ctx.evaluations += n_ok + n_bad


# ------------------------------------------------------------------ C10

def run_c10(ctx):
    rng = ctx.rng
    pairs = []
    pool = wellformed_texts(ctx, ctx.n(150, 3000))
    for text, kind, wrap in pool:
        if gen.has_multiline_token(text) and "\t" in text:
            continue
        if gen.has_asm_or_toggle(text) and "\t" in text:
            continue
        tw = rng.choice([0, 1, 2, 3, 4, 5, 8, 16, 63, 127, 255])
        ci = rng.choice([0, 1, 2, 3, 4])
        if tw * ci > 255:
            ci = 255 // tw if tw else ci
        base = (1000000000, rng.randrange(2), 1, 0, tw, ci, rng.randrange(2))
        a = ctx.case(kind + "-tabs", text, base[:3] + (1,) + base[4:])
        b = ctx.case(kind + "-spaces", text, base)
        pairs.append((a, b, {"tw": tw}))

    def expand(out, tw):
        res = []
        for ln in out.split(b"\n"):
            k = len(ln) - len(ln.lstrip(b"\t"))
            res.append(b" " * (k * tw) + ln[k:])
        return b"\n".join(res)

    def compare(ra, rb, meta):
        ctx.count("tabs_vs_spaces_pairs")
        if expand(ra.out, meta["tw"]) != rb.out:
            ctx.fail("tabs_vs_spaces", rb.case, "use_tabs result with leading tabs expanded to tab_width spaces differs from the use_tabs=false result",
                     observed=rb.out.hex()[:1500], expected=expand(ra.out, meta["tw"]).hex()[:1500])

    run_pairs(ctx, pairs, compare)
    settings_grid(ctx)
    sample = [ctx.case("trace", t, gen.random_cfg(rng)) for t, _, _ in pool[:: max(1, len(pool) // ctx.n(300, 3000))]]
    # the wrapper measures a line with the strings the reconstructor emits: its logged line length of every decided
    # token against the model of get_token_line_length and against the rendered column, under narrow widths too
    sample += [ctx.case("trace-narrow", t, gen.random_cfg(rng, wrap=rng.choice([30, 50, 80]))) for t, _, _ in pool[:: max(1, len(pool) // ctx.n(300, 3000))]]
    ctx.run_stream(sample, units=["recon", "settings", "measure", "search", "e2e"])
    ctx.hypotheses["the search reads the reconstruction settings only through the two indentation string lengths (signature of wrap_phase)"] = "unit search on every traced case: the model, which has no other access, reproduces every decision"
    ctx.hypotheses["the search's measured line length (LineWhitespace::len, get_token_line_length) is the model's"] = "unit measure on every traced case: hook log of last_line_length per decision"
    ctx.hypotheses["H-W3 (with the width unconstrained the plan does not depend on indentation widths)"] = "tabs/spaces pairs on the real formatter with wrap_column = 10^9"


PROPS["C07"] = Spec(
    coq_targets=["theories/Properties/C07.v"], module="Properties.C07",
    theorems=["C07_ignored_run_verbatim", "C07_region", "C07_split", "C07_ignored_untouched_by_stages"],
    run=run_c07,
    rule="well-formed seeds and grammar programs with a 1-4 pasfmt toggle comments inserted at random token gaps in any order (10 off and 8 on spellings incl. CR/CRLF terminated; a second off inside a region, on without off, unterminated regions), asm blocks with irregular spacing, 9 near-miss spellings that must not toggle; x random configurations; distinct = distinct (input, cfg)",
    explanation="Theorems: a run of ignored tokens is emitted verbatim for all counters/settings unless the safety net fires inside it; no formatting stage touches an ignored token. The toggle/asm marking model is diffed against the implementation's ignore marks on every case; the oracle checks the region's bytes in the real output.",
    assumptions=["which logical lines are AsmInstruction lines is decided by the parser grammar (oracle)"],
)
PROPS["C08"] = Spec(
    coq_targets=["theories/Properties/C08.v"], module="Properties.C08",
    theorems=["C08_line_start", "C08_continue", "C08_indentation_units", "C08_stage_order", "C08_units_refuted_when_saturated"],
    run=run_c08,
    rule="well-formed seeds and grammar programs (also relayouted) with ci*tw <= 255, plus mutated seeds and token soup, x random configurations; final per-token data checked by extracted predicates, output scanned line by line",
    explanation="Theorems give the exact whitespace emitted for a decided token (line start: breaks + whole units; continuation: spaces only) for all settings; the acceptance predicate canon_fmt and the line-end check are evaluated by extracted Coq code on every real final state; a text-level scan of the real output checks blank lines, indentation units and the end-of-file clause.",
    assumptions=["H-W1: the wrapper's plan satisfies canon_fmt (monitored on every trace)", "tokens of lines without a wrapping solution keep their original newline count (excluded class)"],
)
PROPS["C09"] = Spec(
    coq_targets=["theories/Properties/C09.v"], module="Properties.C09",
    theorems=["C09_output_is_rendering", "C09_pieces_independent_of_newline", "C09_crlf_is_subst"],
    run=run_c09,
    rule="well-formed seeds, grammar programs and mutated seeds: (lf, crlf) configuration pairs and (LF, CRLF) input pairs, other settings random",
    explanation="Theorems: reconstruct's output is a rendering of newline-independent pieces, so for the same formatted tokens the crlf output is the lf output with each emitted terminator substituted. The oracle compares real outputs under both settings and for LF/CRLF inputs.",
    assumptions=["H-W2: the wrapper's plan is independent of the newline string (differential on the real formatter)", "multi-line string interiors: Proofs/MLStringProofs (rewritten terminators are rs_newline)"],
)
PROPS["C10"] = Spec(
    coq_targets=["theories/Properties/C10.v"], module="Properties.C10",
    theorems=["C10_tabs_vs_spaces", "C10_indentation_units", "C10_expand_tabs_identity_without_tabs", "C10_refuted_when_saturated"],
    run=run_c10,
    rule="well-formed seeds and grammar programs x (use_tabs, tab_width in {0..255 sample}, continuation_indents) pairs with wrap_column=10^9; settings conversion on a 2x19x19 grid (quick) / 2x256x256 (thorough)",
    explanation="Theorems: expanding tabs of the hard-tab indentation gives the soft-tab indentation when ci*tw <= 255; indentation = (levels + ci*continuations) units; refuted beyond saturation (F13). The conversion From<&FormattingConfig> is diffed against the model on a grid; the oracle compares real outputs pairwise.",
    assumptions=["H-W3: with unconstrained width the plan does not depend on indentation widths (differential)"],
)


# ------------------------------------------------------------------ C15

def char_boundaries(text: str):
    """byte offsets of all character boundaries of text (0 .. len)"""
    offs = [0]
    n = 0
    for ch in text:
        n += len(ch.encode("utf-8"))
        offs.append(n)
    return offs


def run_c15(ctx):
    rng = ctx.rng
    cases = []
    pool = wellformed_texts(ctx, ctx.n(60, 1500))
    texts = [t for t, _, _ in pool]
    variants = []
    for text, kind, wrap in pool:
        variants.append((text, kind))
    # shifted layout, CRLF input, non-ASCII substitution, toggled regions, mutated
    for text, kind, wrap in pool[:: ctx.n(4, 1)]:
        r = gen.relayout(text, rng)
        if r:
            variants.append((r, "relayout"))
        variants.append((gen.to_crlf(text), "crlf-input"))
        variants.append((text.replace("Foo", "Fé").replace("A", "Ä", 1), "nonascii"))
        rr = insert_region(text, rng)
        if rr:
            variants.append((rr[0], "region"))
            # multi-byte blanks (U+3000) in verbatim and formatted whitespace (F29)
            variants.append(("".join("\u3000" if ch == " " and rng.random() < 0.2 else ch for ch in rr[0]), "region-exotic-blank"))
        variants.append(("".join("\u3000" if ch == " " and rng.random() < 0.1 else ch for ch in text), "exotic-blank"))
        variants.append((gen.mutate(text, rng, texts), "mut"))
        variants.append(("  " * rng.randrange(0, 4) + text.replace("\n", "\n" + " " * rng.randrange(0, 7)) + "\n\n\n", "indent-shift"))
    for text, kind in variants:
        b = char_boundaries(text)
        n = b[-1]
        if len(b) > ctx.n(120, 100000):
            cur = sorted(set(rng.sample(b, ctx.n(120, 100000)) + [0, n]))
        else:
            cur = b
        cur = cur + [n + 1, n + 100, 4294967295]
        if rng.random() < 0.3:
            rng.shuffle(cur)
        cases.append(ctx.case(kind, text, gen.random_cfg(rng), cursors=cur))
    cases += witness_cases(ctx, "C15")
    big = "{" + "x" * 70000 + "\n" + "y" * 10 + "}"
    cases.append(ctx.case("witness-F19", "a := 1; " + big + " b;", gen.DEFAULT_CFG, cursors=[8, 9, 14, 70000]))
    ctx.run_stream(cases, units=["cursor", "cursororacle", "recon"])
    ctx.hypotheses["pos_ok for cursors on blank lines in front of ignored tokens"] = "cursororacle: bounds checked on every cursor of every case"
    ctx.count("cursors_checked", sum(len(c.cursors) for c in cases))


PROPS["C15"] = Spec(
    coq_targets=["theories/Properties/C15.v"], module="Properties.C15",
    theorems=['C15_offset_for_token_correct', 'C15_in_bounds', 'C15_in_bounds_formatted', 'C15_in_bounds_lf', 'C15_same_offset', 'C15_same_offset_multiline', 'C15_past_end', 'C15_no_underflow', 'C15_boundary_cursor_no_panic', 'C15_regression_ignored_whitespace_crlf', 'C15_in_bounds_all', 'C15_refuted_u16_truncation'],
    run=run_c15,
    rule="well-formed seeds and grammar programs plus relayouted, CRLF, non-ASCII, toggled-region, mutated and indentation-shifted variants; cursor list = every character boundary of the input (sampled above 120 in the quick tier) plus three offsets beyond the end, sometimes shuffled; x random configurations",
    explanation="Theorems over the cursor model: bounds (pos_ok exactly characterised), same offset for unchanged single- and multi-line tokens, past-the-end, no usize underflow, no slicing panic for boundary cursors; bounds now unconditional (F22 repaired); every reported cursor is on a character boundary of the output (F9, F29 repaired); one refutation (F19). The model is diffed against the real cursors on every cursor of every case; the oracle states the property directly on the real output (bounds, char boundary, same offset by independent token alignment, past end, text independent of cursors).",
    assumptions=["safety net does not fire (class F10)", "text independence of cursors: checked per case by the harness (CURSORDEP)"],
)


# ------------------------------------------------------------------ C12

def gen_literal(rng):
    q = rng.choice([3, 3, 3, 5, 7])
    quotes = "'" * q
    nl = rng.choice(["\n", "\n", "\r\n", "\r", None])
    ind = rng.choice(["    ", "  ", "\t", "  \t", "", "　 ", "\x0c ", " \x01", "        "])

    def term():
        return nl if nl is not None else rng.choice(["\n", "\r\n", "\r"])
    lines = []
    eligible = True
    for _ in range(rng.randrange(0, 5)):
        c = rng.random()
        body = rng.choice(["abc", "x := 'y';", "日本語 text", "  indented more", "a" * rng.randrange(1, 40), "''", "tab\there"])
        if c < 0.5:
            lines.append(ind + body)
        elif c < 0.6:
            lines.append("")
        elif c < 0.7:
            lines.append(ind[:rng.randrange(0, len(ind) + 1)])
        elif c < 0.8:
            lines.append(ind + body + rng.choice(["  ", "\t", " 　"]))
        elif c < 0.86:
            lines.append(ind + "   " + body)
        elif c < 0.90:
            lines.append(ind + rng.choice(["   ", "\t", " \t "]))            # whitespace only, beyond the indentation: part of the value
        elif c < 0.94:
            lines.append(ind + rng.choice(["\u00a0", "\u2003\u2003", "\u0085", "\u2028", "\u3000", " \u00a0 "]) + rng.choice(["", "x"]))  # exotic spaces are not blanks
        else:
            lines.append(body)  # under-indented: ineligible unless ind is empty
    text = quotes + term() + "".join(l + term() for l in lines) + ind + quotes
    return text


CONTEXTS = ["A := %s;", "Foo(%s, 1);", "const S = %s;", "X := %s + 'a';", "begin\n  if A then\n    B := %s;\nend;", "A := B(C, %s, D);",
            "procedure P;\nbegin\n  Writeln(%s);\nend;", "%s", "X := Y +\n  %s;", "  {$IFDEF A}\n  S := %s;\n  {$ENDIF}"]


CONTEXTS_MULTI = ["Q := %s + %s;", "Run(%s, %s);", "A := [%s, %s, %s];", "procedure P;\nbegin\n  Log(%s, X, %s);\nend;",
                  "begin\n  S := %s;\n  T := %s + U;\nend;", "const A = %s; B = %s;", "X := F(%s).G(%s);"]


def literal_text(rng, lit=None):
    """a literal in a statement context; one time in five several literals share one logical line"""
    if rng.random() < 0.2:
        ctxt = rng.choice(CONTEXTS_MULTI)
        n = ctxt.count("%s")
        return ctxt % tuple([lit if lit is not None else gen_literal(rng)] + [gen_literal(rng) for _ in range(n - 1)])
    return rng.choice(CONTEXTS) % (lit if lit is not None else gen_literal(rng))


def run_c12(ctx):
    rng = ctx.rng
    cases = []
    for _ in range(ctx.n(3000, 60000)):
        lit = gen_literal(rng)
        cfg = gen.random_cfg(rng)
        cases.append(ctx.case("literal", literal_text(rng, lit), cfg))
    for s in gen.seeds():
        if "'''" in s["text"]:
            cases.append(ctx.case("seed", s["text"], gen.random_cfg(rng, wrap=s["wrap"])))
            cases.append(ctx.case("seed", s["text"], gen.random_cfg(rng)))
    cases += witness_cases(ctx, "C12")

    def oracle(r):
        # the last clause read off the text the REAL formatter returned (tokenised by the approximate tokenizer, so only on inputs without
        # lone CRs and unterminated quotes): a literal that obeys the indentation rule in the output has its closing quotes (and so its
        # interior lines) indented exactly like the line its opening quotes are on
        c = r.case
        if c.cfg[2] != 1 or not isinstance(c.text, str) or gen.has_asm_or_toggle(c.text) or re.search(r"\r(?!\n)", c.text) or c.meta.get("stream") != "literal":
            return
        try:
            out = r.out.decode("utf-8")
        except UnicodeDecodeError:
            return
        if re.search(r"\r(?!\n)", out):
            return
        pos = 0
        for k, t in gen.tokenize(out):
            start, pos = pos, pos + len(t)
            if k != "mls":
                continue
            ls = out.rfind("\n", 0, start) + 1
            before = out[ls:start]
            lead = before[:len(before) - len(before.lstrip(" \t"))]
            if "'" in before:
                continue          # another literal in front of this one on the same line
            body = t.split("\n")
            close_line = body[-1]
            close_ind = close_line[:len(close_line) - len(close_line.lstrip(" \t"))]
            if not close_line.lstrip(" \t").startswith("'''"):
                continue
            inner = [l.rstrip("\r") for l in body[1:-1]]
            if any(l.strip(" \t") and not l.startswith(close_ind) for l in inner):
                continue          # violates the indentation rule: reproduced byte for byte
            ctx.count("literals_checked_on_text")
            if close_ind != lead:
                ctx.fail("mlstring_not_aligned_with_opening_line", c, "closing quotes indented by %r, the line of the opening quotes by %r" % (close_ind, lead), observed=r.out.hex()[:3000])
                return
    ctx.run_stream(cases, units=["mlstring", "mlvalue", "recon", "wrapapply", "e2e"], oracle=oracle)
    ctx.hypotheses["H-W5 (re-indentation uses the literal token's final indentation; reflow does not change it)"] = "unit mlstring uses the FINAL counters of the literal token on every case"
    ctx.hypotheses["plan_ok: a multi-line literal starts its line"] = "unit mlvalue compares interior lines with the literal's own indentation"


PROPS["C12"] = Spec(
    coq_targets=["theories/Properties/C12.v"], module="Properties.C12",
    theorems=["C12_value_preserved", "C12_reindented", "C12_rewritten_iff_eligible", "C12_idempotent", "C12_nonblank_preserved",
              "C12_eligible_implies_rewritten"],
    run=run_c12,
    rule="generated multi-line literals (3/5/7 quotes; LF, CRLF, CR and mixed terminators; space, tab, U+3000, FF, SOH indentation; blank, prefix-only, trailing-blank, over- and under-indented lines; non-ASCII text) in 10 expression contexts, plus every seed containing a multi-line literal; x random configurations (format_multiline_strings off in 20%)",
    explanation="Theorems over the byte-level model of multiline_strings.rs: value preserved, re-indented exactly, rewritten iff eligible, idempotent, non-blank bytes kept; the lone-CR class (F5) is repaired and covered by the same theorems. The model is diffed against the real re-indentation on every literal; the oracle compares the value of every real literal before and after formatting with the Coq-defined ml_value, and checks byte-identity for ineligible, ignored or disabled literals.",
    assumptions=["rs_ok (newline LF/CRLF, indentation strings of spaces/tabs): true for every configuration (rs_of_config)", "ends_quote for lexed multi-line literals"],
)


# ------------------------------------------------------------------ C14 and C04

def directive_heavy(rng, n):
    """sequences and nestings of conditional-compilation blocks around statements"""
    out = []
    depth = 0
    for _ in range(n):
        c = rng.random()
        if c < 0.3:
            out.append("{$IFDEF %s}" % rng.choice("ABC"))
            depth += 1
        elif c < 0.45 and depth:
            out.append(rng.choice(["{$ELSE}", "{$ELSEIF X}"]))
        elif c < 0.7 and depth:
            out.append(rng.choice(["{$ENDIF}", "{$IFEND}"]))
            depth -= 1
        elif c < 0.75:
            out.append(rng.choice(["{$ENDIF}", "{$ELSE}"]))  # unbalanced on purpose
        else:
            out.append(rng.choice(["Foo;", "begin", "end;", "X := 1;", "if A then", "procedure P;", "var", "A: B;", "case X of", "1: Y;"]))
    return "\n".join(out) + "\n"


def directive_ladders(rng, depths):
    """deep nestings of conditional blocks in every branch position (first, middle, last), elseif chains and random
    narrow trees: the number of passes is linear in the number of branches, so each of these must format quickly"""
    out = []
    for d in depths:
        # nested in the last ({$ELSE}) branch: the hand-written else-if ladder of compiler-version include files
        t = "".join("{$IFDEF A%d}\nF%d;\n{$ELSE}\n" % (i, i) for i in range(d)) + "G;\n" + "{$ENDIF}\n" * d
        out.append(("ladder-else", d, t))
        # nested in the first branch
        t = "".join("{$IFDEF A%d}\nF%d;\n" % (i, i) for i in range(d)) + "".join("{$ELSE}\nG%d;\n{$ENDIF}\n" % i for i in range(d))
        out.append(("ladder-if", d, t))
        # nested in a middle ({$ELSEIF}) branch
        t = "".join("{$IF A%d}\nF%d;\n{$ELSEIF B%d}\n" % (i, i, i) for i in range(d)) + "H;\n" + "".join("{$ELSE}\nG%d;\n{$IFEND}\n" % i for i in range(d))
        out.append(("ladder-elseif", d, t))
        # one long elseif chain
        t = "{$IF A}\nF;\n" + "".join("{$ELSEIF B%d}\nF%d;\n" % (i, i) for i in range(d)) + "{$ELSE}\nG;\n{$ENDIF}\n"
        out.append(("chain-elseif", d, t))
        # random narrow tree: at every level one branch (chosen at random) holds the next level
        def tree(k):
            if k == 0:
                return "X := %d;\n" % rng.randrange(100)
            nb = rng.randrange(1, 4)
            pos = rng.randrange(nb)
            s_ = ""
            for b in range(nb):
                s_ += ("{$IFDEF T%d}\n" % k) if b == 0 else (rng.choice(["{$ELSEIF U%d}\n" % k, "{$ELSE}\n"]) if b < nb - 1 else "{$ELSE}\n")
                s_ += tree(k - 1) if b == pos else "Y%d;\n" % b
            return s_ + "{$ENDIF}\n"
        out.append(("tree", d, tree(d)))
    return out


def run_c14(ctx):
    rng = ctx.rng
    wf = []
    for text, kind, wrap in wellformed_texts(ctx, ctx.n(300, 6000)):
        wf.append(ctx.case(kind, text, gen.DEFAULT_CFG))
        t2 = gen.relayout(text, rng)
        if t2 is not None and rng.random() < 0.5:
            wf.append(ctx.case("relayout", t2, gen.DEFAULT_CFG))
    # every token after a conditional block is at a pass position that differs from its global position: parents
    # (line index, GLOBAL token index) computed in a pass must not confuse the two
    DIR_PREFIXES = ["{$IFDEF A}{$DEFINE B}{$ELSE}{$DEFINE C}{$ENDIF}\n", "{$IFDEF A}\n{$DEFINE B}\n{$ENDIF}\n",
                    "{$IF X}{$R a.res}{$ELSEIF Y}{$R b.res}{$R c.res}{$ELSE}{$R d.res}{$IFEND}\n"]
    for text, kind, wrap in wellformed_texts(ctx, ctx.n(150, 3000))[:: ctx.n(2, 1)]:
        wf.append(ctx.case(kind + "-after-directives", rng.choice(DIR_PREFIXES) + text, gen.DEFAULT_CFG))
    wf += witness_cases(ctx, "C14")
    ctx.run_stream(wf, units=["passes", "kernel", "grammar", "linescover", "parents", "eofline", "consolidators", "prelines", "e2e"])
    # "so no code is skipped by line-based formatting": the lines the formatters are handed are the parser's minus those voided because they
    # lie wholly in ignored tokens - with regions that open and close inside one statement, every token that is not ignored must still be in a line
    reg = []
    for text, kind, wrap in wellformed_texts(ctx, ctx.n(100, 2000)):
        for r in (insert_region(text, rng), double_region_in_statement(text, rng)):
            if r is not None:
                reg.append(ctx.case("region", r[0], gen.DEFAULT_CFG))
    ctx.run_stream(reg, units=["ignore", "prelines", "linescover", "kernel", "grammar"])
    inv = []
    texts = [s["text"] for s in gen.seeds()]
    for _ in range(ctx.n(1500, 30000)):
        inv.append(ctx.case("mut", gen.mutate(rng.choice(texts), rng, texts), gen.DEFAULT_CFG))
    for _ in range(ctx.n(1500, 30000)):
        inv.append(ctx.case("soup", gen.soup(rng, 1, 12), gen.DEFAULT_CFG))
    for _ in range(ctx.n(300, 5000)):
        inv.append(ctx.case("directives", directive_heavy(rng, rng.randrange(2, 30)), gen.DEFAULT_CFG))
    for _ in range(ctx.n(100, 2000)):
        inv.append(ctx.case("bytes", gen.random_bytes_text(rng, rng.randrange(1, 60)), gen.DEFAULT_CFG))
    # long chains and deep nestings of conditional blocks (dozens to a hundred passes): every branch's code is in a line
    for kind, d, t in directive_ladders(rng, ctx.n([9, 33, 70, 100], [5, 17, 33, 63, 64, 65, 70, 100, 130])):
        inv.append(ctx.case(kind, t, gen.DEFAULT_CFG, meta={"depth": d}))
    ctx.run_stream(inv, units=["passes", "kernel", "grammar", "linescover", "consolidators", "prelines"])
    ctx.hypotheses["side conditions of C14_final_lines_cover: each pass consumed to its end; skip_token only skips compiler directives"] = "unit kernel on every case (valid and invalid): replays the hook's event log through the kernel model, compares with the real pass lines and the real final lines, evaluates both side conditions"
    ctx.hypotheses["parent and Eof-line clauses (well-formed input): grammar facts"] = "extracted predicates parents_ok / eof_line_ok on the real parse result"


def run_c04(ctx):
    rng = ctx.rng
    texts = [s["text"] for s in gen.seeds()]
    cases = []
    # exhaustive short token sequences
    for k in (1, 2):
        for t in gen.soup_exhaustive(k):
            cases.append(ctx.case("soup%d" % k, t, gen.DEFAULT_CFG))
    if not ctx.quick():
        sub = rng.sample(gen.ALPHABET, 45)
        for t in gen.soup_exhaustive(3, sub):
            cases.append(ctx.case("soup3", t, gen.DEFAULT_CFG))
    else:
        sub = rng.sample(gen.ALPHABET, 14)
        for t in gen.soup_exhaustive(3, sub):
            cases.append(ctx.case("soup3", t, gen.DEFAULT_CFG))
    for _ in range(ctx.n(3000, 60000)):
        cases.append(ctx.case("soup", gen.soup(rng, 2, 14), gen.random_cfg(rng)))
    for _ in range(ctx.n(2500, 50000)):
        t = gen.mutate(rng.choice(texts), rng, texts)
        if rng.random() < 0.3:
            t = gen.mutate(t, rng, texts)
        cur = []
        if rng.random() < 0.5:
            b = char_boundaries(t)
            cur = rng.sample(b, min(len(b), 6)) + [b[-1] + 5]
        cases.append(ctx.case("mut", t, gen.random_cfg(rng), cursors=cur))
    for _ in range(ctx.n(400, 6000)):
        cases.append(ctx.case("directives", directive_heavy(rng, rng.randrange(2, 40)), gen.random_cfg(rng)))
    for _ in range(ctx.n(300, 5000)):
        cases.append(ctx.case("bytes", gen.random_bytes_text(rng, rng.randrange(1, 80)), gen.random_cfg(rng)))
    cases += witness_cases(ctx, "C04")
    for s in gen.seeds()[:: ctx.n(3, 1)]:
        b = char_boundaries(s["text"])
        cases.append(ctx.case("seedcur", s["text"], gen.random_cfg(rng), cursors=b[:: max(1, len(b) // 40)] + [b[-1] + 1]))
    # moderate nesting depth (the extreme depth class is finding F11)
    for d in (50, 200, 1000):
        for opener, closer in (("(", ")"), ("begin ", "end; "), ("[", "]"), ("if a then ", "")):
            cases.append(ctx.case("nest", "x := " * (opener == "(") + opener * d + "1" + closer * d + ";", gen.DEFAULT_CFG, meta={"depth": d}))
    # nested control flow whose controlling lines do not fit: the wrapper's child-line search must stay polynomial
    for depth in ctx.n([8, 14, 20, 26], [8, 12, 16, 20, 24, 28, 32]):
        for longcond in (True, False):
            cond = ("A" * 125) if longcond else "C"
            t = ""
            for d in range(depth):
                t += "  " * d + "if %s%d then begin\n" % (cond, d)
            t += "  " * depth + "X := 1;\n"
            for d in reversed(range(depth)):
                t += "  " * d + "end else begin\n" + "  " * (d + 1) + "Y := %d;\n" % d + "  " * d + "end;\n"
            for wrap in ((120,) if longcond else (20, 12)):
                cases.append(ctx.case("nest-ifelse", t, (wrap, 0, 1, 0, 2, 2, 0), meta={"depth": depth}))
        t = "".join("  " * d + ("while %s%d do begin\n" % ("B" * 60, d)) for d in range(depth)) + "Z;\n" + "".join("  " * d + "end;\n" for d in reversed(range(depth)))
        cases.append(ctx.case("nest-while", t, (40, 1, 1, 0, 4, 2, 0), meta={"depth": depth}))
        t = "".join("  " * d + ("case %s%d of\n" % ("K" * 40, d)) + "  " * d + " 1: begin\n" for d in range(depth)) + "Z;\n" + "".join("  " * d + "end;\n" + "  " * d + "end;\n" for d in reversed(range(depth)))
        cases.append(ctx.case("nest-case", t, (30, 0, 1, 0, 2, 2, 0), meta={"depth": depth}))
    for kind, d, t in directive_ladders(rng, ctx.n([6, 12, 24, 40, 56], [4, 8, 12, 16, 24, 32, 40, 48, 56, 64])):
        cases.append(ctx.case(kind, t, gen.DEFAULT_CFG, meta={"depth": d}))
    deep = ctx.case("witness-F11", "x := " + "(" * 200000, gen.DEFAULT_CFG, meta={"depth": 200000})
    rdeep = ctx.run_stream([deep], mode="fmt", per_case_timeout=30.0, case_limit_ms=60000)
    r = rdeep.get(deep.id)
    if r is not None and r.failure is not None:
        ctx.fail("abort", deep, r.failure[0] + " " + r.failure[1], site="stack-overflow", depth=200000)
    ctx.run_stream(cases, units=["passes", "cursor", "grammar"], panics_are_failures=True, per_case_timeout=1.0, case_limit_ms=15000, slow_ms=3000)
    # the termination theorems of the search are about the search model: tied on a sample of the same cases
    ctx.run_stream([ctx.case(c.meta["stream"] + "-s", c.text, c.cfg) for c in cases[:: ctx.n(8, 3)] if len(c.input_bytes()) < 4000], units=["search", "e2e"], per_case_timeout=1.0, case_limit_ms=15000)
    ctx.oracle_counts["max_case_ms"] = getattr(ctx, "max_ms", 0)
    if not ctx.quick():
        # the plain release profile (no overflow checks): wrap-around instead of panic must not hang or crash either
        ctx.run_stream([ctx.case(c.meta["stream"] + "-plain", c.text, c.cfg, cursors=c.cursors) for c in cases[:: 2]],
                       mode="fmt", plain=True, panics_are_failures=True, per_case_timeout=1.0)
    # the real binary with its most verbose logging: the trace printers (the parser's, the line formatter's per-line dump of every
    # solution) run over the same data and must neither abort nor blow up - inputs whose first token is a multi-line comment or
    # literal included (finding F44: the dump derived a column by plain subtraction)
    import subprocess as _sp4
    logdir = cli.workdir("C04log")
    ctx.workdirs.append(logdir)
    firsts = ["{\n}\nfoo;\n", "(* a\n b *) x := 1;\n", "'''\n  a\n  '''.Foo(1);\n", "{ one\n two }\n{ three\n four }\nbegin end.\n", "// c\n{\n}\n", "{$IFDEF A}\n{ x\n y }\n{$ENDIF}\nA;\n",
              "{\r\n}\r\nfoo;\r\n", "begin\n  { a\n b } Foo;\nend.\n", "X := '''\n a\n ''';\n"]
    log_inputs = firsts + [s_["text"] for s_ in gen.seeds()[:: ctx.n(12, 2)] if len(s_["text"]) < 1500] + [gen.soup(rng, 2, 10) for _ in range(ctx.n(60, 600))] \
        + [t for t, _ in placement_sample(ctx)[:: 8]]

    def one_log(text):
        try:
            p_ = _sp4.run([build.PASFMT, "--config-file", cli.empty_cfg(logdir), "--log-level", "TRACE"], input=text.encode("utf-8"), stdout=_sp4.PIPE, stderr=_sp4.DEVNULL,
                          cwd=logdir, env=cli.BASE_ENV, timeout=20)
            return p_.returncode, p_.stdout
        except _sp4.TimeoutExpired:
            return "timeout", b""
    for text, (rc, out) in zip(log_inputs, cli.pmap(one_log, log_inputs)):
        ctx.count("trace_logging_runs")
        c = ctx.case("tracelog", text, gen.DEFAULT_CFG)
        ctx.note_case(c)
        if rc == "timeout":
            ctx.fail("hang", c, "pasfmt --log-level TRACE: no result within 20 s", site="trace-logging")
        elif rc not in (0,) and (rc < 0 or rc == 101 or rc >= 128):
            ctx.fail("abort", c, "pasfmt --log-level TRACE: exit status %r" % rc, site="trace-logging")
    # scaling: sequences and nestings of conditional blocks must not multiply the work
    import time as _t
    times = []
    for n in (4, 8, 16, 32):
        seq = "".join("{$IFDEF A%d}\nFoo(%d);\n{$ELSE}\nBar(%d);\n{$ENDIF}\n" % (i, i, i) for i in range(n))
        nest = "".join("{$IFDEF A%d}\nFoo(%d);\n" % (i, i) for i in range(n)) + "".join("{$ELSE}\nBar;\n{$ENDIF}\n" for _ in range(n))
        t0 = _t.time()
        res = ctx.run_stream([ctx.case("scale", seq, gen.DEFAULT_CFG, meta={"n": n}), ctx.case("scale", nest, gen.DEFAULT_CFG, meta={"n": n})],
                             units=["passes"], panics_are_failures=True, per_case_timeout=20.0)
        times.append((n, round(_t.time() - t0, 2)))
    ctx.oracle_counts["directive_scaling_wall_s"] = times
    if times[-1][1] > 30 and times[-1][1] > 20 * max(0.05, times[0][1]):
        ctx.fail("superpolynomial_directives", None, "time for n conditional blocks: %r" % times)
    ctx.hypotheses["termination and stack depth of the grammar recursion and of the wrapper search (runtime)"] = "watchdog: every case runs under a time bound scaled to its size; a hang or abort is attributed to its case"


PROPS["C14"] = Spec(
    coq_targets=["theories/Properties/C14.v"], module="Properties.C14",
    theorems=["C14_pass_sorted", "C14_passes_cover", "C14_single_identity_pass", "C14_kernel_lines_wf", "C14_kernel_cover",
              "C14_final_lines_wf", "C14_final_lines_cover", "C14_kernel_sites"],
    run=run_c14,
    rule="well-formed seeds and grammar programs (also relayouted): all four clauses; mutated seeds, token soup, directive-heavy and arbitrary-byte inputs: ordering/coverage clauses; distinct = distinct input",
    explanation="Theorems for ANY grammar: the conditional-directive passes are fully modelled (sorted, covering, identity without directives); the parser's line-state kernel (next_token, skip_token, finish_logical_line, do_with_context, take_separators_on_last_line: proved by a generated inventory to be the only mutation sites) keeps every line strictly increasing and places no token twice for EVERY sequence of primitive events; composed with consolidation and the directive lines: every final line is non-empty, strictly increasing and in range, and every token of the file is in at least one line, under two side conditions (pass consumed; only compiler directives skipped) that are evaluated on every real parse. The kernel model is tied by replaying the hook's event log of every pass of every case and comparing with the real pass lines and final lines. The parent and Eof-line clauses are grammar facts, decided by extracted predicates on the real parse result of well-formed inputs.",
    assumptions=["the two side conditions of C14_final_lines_cover (monitored)", "parent / Eof-line clauses: grammar oracle"],
)
PROPS["C04"] = Spec(
    coq_targets=["theories/Properties/C04.v"], module="Properties.C04",
    theorems=["C04_directive_parse_total", "C04_passes_linear", "C04_pass_progress", "C04_cursor_no_underflow", "C04_cursor_boundary_no_panic"],
    run=run_c04, needs_plain=True,
    rule="exhaustive token sequences of length 1 and 2 over a 150-token alphabet, length 3 over a sampled sub-alphabet (14 quick / 45 thorough), random soup of length 2-14, mutated and doubly mutated seeds with cursor lists on character boundaries, directive-heavy inputs, arbitrary bytes, nesting depth 50/200/1000, directive scaling series; checked build (overflow checks, debug assertions) and, in the thorough tier, the plain release build",
    explanation="Theorems: the directive-pass generator is total and the number of passes is linear in the number of directives (no exponential blow-up); cursor relocation cannot underflow; boundary cursors cannot make process_cursors slice inside a character. Everything else about termination is runtime behaviour: each case runs in a worker under a time bound; aborts (panic location normalised to the file) and hangs are violations unless they match a listed finding class.",
    assumptions=["termination and stack depth of the real grammar recursion and wrapper search are sampled, not proved"],
)


# ------------------------------------------------------------------ C13

DELIMS = [" ", "\t", "\n", "\r\n", ";", ".", "(", ")", "[", "+", "-", "'", "{", "/", "//", "　", "é", "日", "\x0b", "\x01", "#", "$", "&", "^", "@", ":=", "<", ">", "", "\x7f", "ÿ"]
WORDS = ["begin", "END", "Procedure", "x", "_a1", "Résumé", "abstract", "WriteOnly", "implementation", "ifx", "beginx", "a_b_c", "ÄÖÜ"]


def lexer_sweep_lines(ctx):
    """identifiers / keywords / numbers of length 1..200 at alignments 0..64, followed by every delimiter class"""
    rng = ctx.rng
    lines = []
    lengths = list(range(1, 201)) if not ctx.quick() else list(range(1, 70)) + [95, 96, 97, 127, 128, 129, 159, 160, 161, 191, 192, 193, 200]
    aligns = list(range(0, 65)) if not ctx.quick() else [0, 1, 2, 3, 7, 8, 15, 16, 17, 31, 32, 33, 63, 64]
    alphabet = "abcdefghijklmnopqrstuvwxyzABCDEFGHIJKLMNOPQRSTUVWXYZ0123456789_"
    for n in lengths:
        for al in (aligns if n % 7 == 0 or n < 40 else rng.sample(aligns, 3)):
            for d in (DELIMS if (n + al) % 5 == 0 else rng.sample(DELIMS, 4)):
                kind = rng.randrange(4)
                if kind == 0:
                    w = "".join(rng.choice(alphabet) for _ in range(n))
                    if w[0].isdigit():
                        w = "a" + w[1:]
                elif kind == 1:
                    base = rng.choice(WORDS)
                    w = (base * (n // len(base) + 1))[:n]
                elif kind == 2:
                    w = "".join(rng.choice("0123456789_") for _ in range(n))
                else:
                    w = "".join(rng.choice(alphabet + "éñ日") for _ in range(n))
                text = " " * al + w + d + "tail"
                lines.append((al, text))
    return lines


def run_c13(ctx):
    rng = ctx.rng
    import subprocess
    # (1) the lexer on every kind of input
    cases = standard_streams(ctx, n_seed_cfgs=1, n_mut=ctx.n(1500, 30000), n_soup=ctx.n(2000, 40000), n_bytes=ctx.n(1500, 30000), n_gram=ctx.n(150, 3000))
    sweep = lexer_sweep_lines(ctx)
    for al, text in sweep[:: ctx.n(4, 1)]:
        cases.append(ctx.case("sweep", text, gen.DEFAULT_CFG))
    for w in WORDS + [k for k in gen.ALPHABET if k.isalpha()]:
        for v in (w, w.upper(), w.capitalize(), w + "x", "&" + w, "." + w, w[:-1]):
            cases.append(ctx.case("word", "x " + v + " ;", gen.DEFAULT_CFG))
    ctx.run_stream(cases, units=["lex", "tokok"])
    # the model lexer is the reference scanner of the property: a disagreement is a failing input
    byid = {c.id: c for c in cases}
    for cid, unit, detail in list(ctx.corr_diffs):
        if unit == "lex" and cid in byid:
            ctx.fail("scan_differs_from_reference", byid[cid], "real lexer and verified reference lexer disagree: " + detail[:300])
    # (2) both identifier scans, through the hooks
    f = os.path.join(build.CACHE, "run", "ident_%d.txt" % os.getpid())
    os.makedirs(os.path.dirname(f), exist_ok=True)
    with open(f, "w") as o:
        for al, text in sweep:
            o.write("%d %s\n" % (al, text.encode("utf-8").hex()))
    p = subprocess.run([build.VH, "unit", "identend", f], stdout=subprocess.PIPE, env=build.ENV, timeout=1200)
    g = f + ".out"
    with open(g, "wb") as o:
        o.write(p.stdout)
    q = subprocess.run([build.DRIVER, "identend", g], stdout=subprocess.PIPE, timeout=1200)
    n_ok = n_bad = 0
    avx2_present = b" -\n" not in p.stdout[:2000]
    for line in q.stdout.decode().splitlines():
        if line.startswith("IDENT OK"):
            n_ok = int(line.split()[2])
        elif line.startswith("IDENT DIFF"):
            n_bad += 1
            ctx.corr_diffs.append(("identend", "identend", line))
    for x in (f, g):
        os.remove(x)
    ctx.corr_counts["identend"] = [n_ok, n_bad]
    ctx.traces_validated += n_ok
    ctx.evaluations += n_ok + n_bad
    ctx.oracle_counts["avx2_routine_exercised"] = bool(avx2_present)
    ctx.hypotheses["hand-modelled byte classes and sub-lexers of lexer.rs"] = "unit lex: token boundaries and kinds of the model lexer = real lexer on every case"


PROPS["C13"] = Spec(
    coq_targets=["theories/Properties/C13.v"], module="Properties.C13",
    theorems=["C13_total", "C13_lossless", "C13_fits", "C13_eof_last_unique", "C13_content_nonempty_nonblank_start", "C13_ws_blank",
              "C13_char_boundaries", "C13_pieces_valid_utf8", "C13_avx2_eq_generic", "C13_keyword_hash_eq_search", "C13_keyword_case_insensitive"],
    run=run_c13,
    rule="seeds, mutated seeds, token soup, arbitrary bytes decoded as text, grammar programs; identifiers/keywords/digit runs/non-ASCII words of length 1..200 at alignments 0..64 followed by 31 delimiter classes (ASCII, controls, non-ASCII, U+3000); every keyword in several case variants and near misses; both identifier-end routines driven through hooks",
    explanation="Theorems over a byte-level model of the whole lexer: totality, losslessness with stepwise bounds, one Eof last, non-empty contents starting at a non-blank, blank leading whitespace, character boundaries and valid UTF-8 pieces, AVX2 scan = scalar scan for every input, keyword perfect hash (over tables regenerated from the source on every run) = case-insensitive linear search. The model lexer is the reference scanner: its token boundaries and kinds are diffed against the real lexer on every case, and both real identifier scans are diffed against both models on the sweep.",
    assumptions=["byte-level identifier/whitespace treatment coincides with the char-level Rust on valid UTF-8 (argued in Model/Lexer.v, exercised by the non-ASCII streams)"],
)


# ------------------------------------------------------------------ C02, C06, C03

def insert_comments(text, rng):
    """inline comments at random gaps (never own-line at a grammar decision point: finding F21)"""
    if gen.has_asm_or_toggle(text) or "'''" in text:
        return None
    toks = gen.tokenize(text)
    out = []
    for i, (k, t) in enumerate(toks):
        out.append(t)
        if k == "ws" and 0 < i < len(toks) - 1 and rng.random() < 0.12 and not gen.is_comment_kind(toks[i - 1][0]) and toks[i - 1][0] != "unk":
            c = rng.random()
            if c < 0.5:
                out.append(rng.choice(["{c}", "(* c *)", "{ two words }"]) + " ")
            elif "\n" in t:
                out.append((rng.choice(["// own line", "//x", "/// doc"]) if rng.random() < 0.4 else gen.line_comment(rng)) + "\n")
    return "".join(out)


def wrap_in_directives(text, rng):
    """wrap whole lines in conditional directives"""
    lines = text.split("\n")
    if len(lines) < 3 or gen.has_asm_or_toggle(text) or "'''" in text:
        return None
    i = rng.randrange(0, len(lines))
    j = rng.randrange(i, min(len(lines), i + 4))
    return "\n".join(lines[:i] + ["{$IFDEF FOO}"] + lines[i:j + 1] + ["{$ENDIF}"] + lines[j + 1:])


def wellformed_variants(ctx, n_gram, per=2):
    rng = ctx.rng
    out = []
    for text, kind, wrap in wellformed_texts(ctx, n_gram):
        out.append((text, kind, wrap))
        for _ in range(per):
            c = rng.random()
            t2 = None
            if c < 0.4:
                t2 = gen.relayout(text, rng)
                k2 = "relayout"
            elif c < 0.6:
                t2 = insert_comments(text, rng)
                k2 = "comments"
            elif c < 0.7 and kind == "grammar":
                t2 = wrap_in_directives(text, rng)
                k2 = "directives"
            elif c < 0.8:
                t2 = gen.to_crlf(text)
                k2 = "crlf"
            elif c < 0.9:
                t2 = "".join(ch.upper() if rng.random() < 0.3 else ch for ch in text) if "'" not in text and "{" not in text and "//" not in text else None
                k2 = "case"
            if t2:
                out.append((t2, k2, wrap))
    return out


def lone_cr_comment_variant(text, rng):
    """a `//` comment (sometimes a pasfmt toggle) appended to a statement line and terminated by a LONE CR,
    directly followed by a block comment, another line comment or the code of the next line: only the
    reconstructor's safety net keeps what follows out of the comment"""
    if "'''" in text or gen.has_asm_or_toggle(text):
        return None
    lines = text.split("\n")
    idx = [i for i, ln in enumerate(lines[:-1]) if ln.rstrip().endswith(";") and "//" not in ln and "{" not in ln and lines[i + 1].strip()]
    idx = [i for i in idx if i + 1 not in idx or True]
    if not idx:
        return None
    out = list(lines)
    chosen = []
    for i in sorted(rng.sample(idx, min(len(idx), rng.choice([1, 1, 2])))):
        if chosen and i - chosen[-1] < 2:
            continue
        chosen.append(i)
        c = rng.choice(["// c", "//c", "// pasfmt on", "// pasfmt off", "// pasfmt on", "/// d"])
        follow = rng.choice(["", "{x} ", "{x}", "(* y *) ", "// z\n"])
        out[i] = out[i] + " " + c + "\r" + follow + (out[i + 1].lstrip() if rng.random() < 0.7 else out[i + 1])
        out[i + 1] = None
    return "\n".join(l for l in out if l is not None)


def run_spacing_grid(ctx):
    """TokenSpacing on every vector of token TYPES [prev, left, right] (left, right over ALL generated token
    types; prev over a representative set and "none"; 0..2 original spaces), the real rule against the model:
    the rule only reads types and space counters, so this finite sweep ties the model to it exhaustively"""
    import subprocess
    tier = "quick" if ctx.quick() else "thorough"
    if getattr(ctx, "_spacing_grid_done", False):
        return
    ctx._spacing_grid_done = True
    f = os.path.join(build.CACHE, "run", "sg_%d.txt" % os.getpid())
    os.makedirs(os.path.dirname(f), exist_ok=True)
    with open(f, "wb") as o:
        p = subprocess.run([build.VH, "unit", "spacinggrid", tier], stdout=o, env=build.ENV, timeout=1800)
    if p.returncode != 0:
        ctx.corr_diffs.append(("spacinggrid", "spacinggrid", "harness unit failed with exit code %d" % p.returncode))
    q = subprocess.run([build.DRIVER, "spacinggrid-" + tier, f], stdout=subprocess.PIPE, timeout=1800)
    n_ok = n_bad = 0
    for line in q.stdout.decode().splitlines():
        if line.startswith("SPACING OK"):
            n_ok, n_bad = int(line.split()[2]), int(line.split()[4])
        elif line.startswith("SPACING DIFF"):
            ctx.corr_diffs.append(("spacinggrid", "spacinggrid", line))
    if n_ok + n_bad == 0:
        ctx.corr_diffs.append(("spacinggrid", "spacinggrid", "no grid row was evaluated"))
    os.remove(f)
    ctx.corr_counts["spacinggrid"] = [n_ok, n_bad]
    ctx.traces_validated += n_ok
    ctx.evaluations += n_ok + n_bad


def run_c02(ctx):
    rng = ctx.rng
    run_spacing_grid(ctx)
    cases = []
    crcases = []
    for text, kind, wrap in wellformed_texts(ctx, ctx.n(60, 1500))[:: ctx.n(3, 1)]:
        t2 = lone_cr_comment_variant(text, rng)
        if t2:
            crcases.append(ctx.case("lone-cr-comment", t2, gen.random_cfg(rng, wrap=rng.choice([wrap, 40, 120, 1000000]))))
    # (without the `invariants` unit: after a lone CR the next comment is typed inline, so must-break and
    # must-not-break conflict by construction — finding F28 under C08; for C02 the re-scan decides)
    ctx.run_stream(crcases, units=["spacing", "generics", "relex", "lex", "comment", "lower", "recon"])
    for _ in range(ctx.n(600, 12000)):
        lit = gen_literal(rng)
        cases.append(ctx.case("literal", literal_text(rng, lit), gen.random_cfg(rng)))
    for text, kind, wrap in wellformed_variants(ctx, ctx.n(250, 5000), per=ctx.n(2, 4)):
        cases.append(ctx.case(kind, text, gen.random_cfg(rng, wrap=rng.choice([wrap, 20, 40, 80, 120, 1000000]))))
    for kind, text in gen.codepoint_sweep(rng, frac=ctx.n(0.5, 1.0), wellformed_only=True):
        cases.append(ctx.case(kind, text, gen.DEFAULT_CFG))
    # tokens decided twice (reflow after a multi-line literal, statements in two conditional-compilation lines) at
    # boundary widths: a token that moves back onto the previous line must get its separating space back
    cases += boundary_width_cases(ctx, twice_decided_texts(ctx, ctx.n(120, 2000), ctx.n(250, 4000)), "twice-decided", input_lines=True)
    cases += witness_cases(ctx, "C02")
    # portability directives in every declaration shape, separated from a literal by a line break, with and without
    # trailing comments (F31): the directive must be typed as a keyword or it is glued to the literal
    for _ in range(ctx.n(150, 2000)):
        d = rng.choice(["deprecated", "experimental", "platform", "library", "deprecated 'use X'", "platform deprecated"])
        val = rng.choice(["1", "$FF", "'s'", "1.5", "#13", "Foo", "[1, 2]", "(A: 1; B: 2)", "nil"])
        sep = rng.choice([" ", "\n", "\n  ", "  "])
        trail = rng.choice(["", " // c", " {x}", " {x} // c", " (* y *)", "\n// own line"])
        shape = rng.choice(["const\n  C = %s%s%s;%s\n", "const\n  C: Integer = %s%s%s;%s\n  D = 2;\n", "var\n  V: Integer = %s%s%s;%s\n",
                            "type\n  TRec = record\n    F: Integer;\n  end;\nconst\n  K = %s%s%s;%s\n"])
        cases.append(ctx.case("portability", shape % (val, sep, d, trail), gen.random_cfg(rng)))
    ctx.run_stream(cases, units=["spacing", "generics", "invariants", "relex", "lex", "comment", "lower", "recon", "grammar", "search", "e2e"])
    ctx.hypotheses["the parser is the modelled grammar (C02_parser_only_retypes is a theorem about the model)"] = "unit grammar on every case of the main stream"
    ctx.hypotheses["plan_ok: break after line comments / unterminated literals, inline comments never broken off"] = "re-scan oracle on every case (comment kinds are part of the compared token kinds)"
    ctx.hypotheses["lex_one_local (each sub-lexer depends on its own bytes plus a follow set)"] = "re-scan with the verified model lexer and with the real lexer on every case"


def run_c06(ctx):
    rng = ctx.rng
    run_spacing_grid(ctx)
    pairs = []
    for text, kind, wrap in wellformed_texts(ctx, ctx.n(250, 5000)):
        for _ in range(ctx.n(1, 3)):
            t2 = gen.relayout(text, rng)
            if t2 is None or t2 == text:
                continue
            cfg = gen.random_cfg(rng, wrap=rng.choice([wrap, 30, 60, 120]))
            pairs.append((ctx.case(kind, text, cfg), ctx.case(kind + "-relayout", t2, cfg), {}))
        if "{$" in text:
            # compiler / conditional directives are tokens, not comments: the gaps around them are re-layouted too
            for _ in range(ctx.n(2, 4)):
                t2 = gen.relayout(text, rng, directives_as_tokens=True)
                if t2 is None or t2 == text:
                    continue
                cfg = gen.random_cfg(rng, wrap=rng.choice([wrap, 30, 60, 120]))
                pairs.append((ctx.case(kind + "-dir", text, cfg), ctx.case(kind + "-dir-relayout", t2, cfg), {}))

    # very long logical lines (lookup tables, long argument lists) in two layouts: a line the wrapper gives
    # up on (iteration limit) keeps the user's line breaks
    def long_list(n, per_row, kind):
        items = ["$%04X" % (i * 37 % 65536) for i in range(n)]
        rows = [", ".join(items[i:i + per_row]) for i in range(0, n, per_row)]
        if kind == "array":
            return "const\n  Table: array[0..%d] of Word = (\n    " % (n - 1) + ",\n    ".join(rows) + "\n  );\n"
        return "begin\n  Register(\n    " + ",\n    ".join(rows) + "\n  );\nend.\n"
    for n in ctx.n([6200], [1500, 6200, 9000, 14000]):
        for kind in ("array", "call"):
            cfg = gen.random_cfg(rng, wrap=rng.choice([80, 120]))
            a, b = rng.sample([4, 8, 16, 24], 2)
            pairs.append((ctx.case("long-list", long_list(n, a, kind), cfg), ctx.case("long-list-relayout", long_list(n, b, kind), cfg), {}))

    # asm blocks: only their instruction lines are excluded; the layout of `asm`, of the closing `end`, of its `;`
    # and of the surrounding code must not matter (bodies: empty, one line, `;`-separated, last instruction ended by `;`)
    for _ in range(ctx.n(300, 6000)):
        a, b, body = gen.asm_pair(rng)
        if a != b:
            cfg = gen.random_cfg(rng, wrap=rng.choice([40, 80, 120]))
            pairs.append((ctx.case("asm", a, cfg, meta={"asm_body": body}), ctx.case("asm-relayout", b, cfg, meta={"asm_body": body}), {"asm_body": body}))

    # verbatim regions are excluded - but only they: one statement whose head and whose tail each lie in a `pasfmt off`..`pasfmt on`
    # region while its middle is ordinary code, the middle in two layouts (no blank lines, no comments): the regions must come out
    # byte for byte and the middle must not depend on its layout
    def two_region_pair():
        words = [rng.choice(["Alpha", "Beta", "Gamma", "Delta", "Foo", "Bar"]) + "x" * rng.randrange(0, 8) for _ in range(rng.randrange(3, 9))]
        mid = []
        for i, w in enumerate(words):
            mid.append(w)
            if i + 1 < len(words):
                mid.append(rng.choice([",", " +", ",", " *"]))
        head = "{pasfmt off}" + rng.choice(["Foo  (", "X   :=  Call (", "Result:=F("]) + "{pasfmt on}"
        tail = "{pasfmt off}" + rng.choice([")  ;", " )   ;", ");"]) + "{pasfmt on}"

        # (the two gaps that touch the toggle comments are part of the comment placement: the same in both layouts)
        first_gap, last_gap = rng.choice([" ", "\n", "  ", "\n    "]), rng.choice([" ", "\n", "  "])

        def lay():
            out = [head]
            for k_, t_ in enumerate(mid):
                if t_.startswith((",", " ")):
                    out.append(t_)
                else:
                    out.append((first_gap if k_ == 0 else rng.choice([" ", " ", "  ", "\n", "\n      ", "\t"])) + t_)
            out.append(last_gap + tail)
            return "".join(out)
        pre, post = "procedure P;\nbegin\n  ", "\n  Y := 1;\nend;\n"
        return pre + lay() + post, pre + lay() + post, [head.encode(), tail.encode()]
    for _ in range(ctx.n(150, 3000)):
        a, b, regs = two_region_pair()
        if a != b:
            cfg = gen.random_cfg(rng, wrap=rng.choice([30, 60, 120]))
            pairs.append((ctx.case("two-regions", a, cfg), ctx.case("two-regions-relayout", b, cfg), {"regions": regs}))

    def compare(ra, rb, meta):
        ctx.count("relayout_pairs")
        for reg in meta.get("regions", []):
            for r in (ra, rb):
                if reg not in r.out:
                    ctx.fail("region_not_verbatim", r.case, "verbatim region %r not found byte for byte in the output" % reg, observed=r.out.hex()[:2000])
                    return
        if meta.get("asm_body") is not None:
            for r in (ra, rb):
                if meta["asm_body"].encode("utf-8") not in r.out:
                    ctx.fail("asm_lines_not_verbatim", r.case, "the instruction lines %r of the asm block are not in the output byte for byte" % meta["asm_body"][:200], observed=r.out.hex()[:2000])
                    return
        if ra.out != rb.out:
            ctx.fail("relayout_differs", rb.case, "formatting a re-layouted input gives a different result; original input: %r" % ra.case.text[:300],
                     observed=rb.out.hex()[:2000], expected=ra.out.hex()[:2000], gap_class=meta.get("gap_class"))

    from . import findings as _f
    for fid, text, cfg, cursors, w in _f.witness_inputs("C06"):
        if "relayout" in w:
            pairs.append((ctx.case("witness-" + fid, text, gen.DEFAULT_CFG), ctx.case("witness-" + fid + "-relayout", w["relayout"], gen.DEFAULT_CFG), {"gap_class": "literal"}))
    run_pairs(ctx, pairs, compare)
    sample = [ctx.case("trace", t, gen.random_cfg(rng)) for t, _, _ in wellformed_texts(ctx, 20)[:: ctx.n(4, 1)]]
    # (the parser's and the search's layout independence are facts about the grammar model and the search model: both are tied here too)
    ctx.run_stream(sample, units=["spacing", "fmtdata", "grammar", "search", "e2e"])
    ctx.hypotheses["the wrapper's search reads token types, spaces_before, content lengths, last-line lengths of multi-line tokens and the logical lines only (signature of wrap_phase; no original line breaks)"] = "unit search on the traced sample: the model reproduces every decision from these inputs alone"
    ctx.hypotheses["H-P2 / H-W2: parser and wrapper do not consult the original layout (except the documented reads)"] = "relayout metamorphic pairs on the real formatter; inventory of leading-whitespace reads proved equal to the modelled set"


def add_raw_comments(text, rng):
    """append un-normalised line comments (`//x`, trailing blanks) to some statement lines"""
    if "'''" in text:
        return text
    out = []
    for ln in text.split("\n"):
        if ln.rstrip().endswith(";") and rng.random() < 0.3 and "//" not in ln and "{" not in ln:
            ln = ln + (rng.choice([" //x", " //note  ", "//y", " ///doc", " // ok"]) if rng.random() < 0.5 else rng.choice(["", " "]) + gen.line_comment(rng))
        out.append(ln)
    return "\n".join(out)


def boundary_width_cases(ctx, texts, stream, input_lines=False):
    """for each text: format once with an unconstrained width, then pick wrap_column values at and
    next to the lengths of its lines — the widths at which an off-by-one or a late content change shows"""
    rng = ctx.rng
    probes = []
    for t, base in texts:
        probes.append(ctx.case(stream + "-probe", t, (1000000000,) + tuple(base[1:])))
    res = ctx.run_stream(probes, mode="fmt")
    cases = []
    for c in probes:
        r = res.get(c.id)
        if r is None or r.out is None:
            continue
        lens = sorted({len(l.rstrip(b"\r")) for l in r.out.split(b"\n") if 12 <= len(l.rstrip(b"\r")) <= 250})
        if not lens:
            continue
        for L in rng.sample(lens, min(len(lens), 2)):
            for w in rng.sample([L - 2, L - 1, L, L + 1], 2):
                cases.append(ctx.case(stream, c.text, (max(1, w),) + tuple(c.cfg[1:])))
        if input_lines and isinstance(c.text, str):
            # widths next to the lengths of the INPUT's lines: what the first wrapping pass measures for a
            # multi-line literal is its old last line
            ilens = sorted({len(l) for l in c.text.split("\n") if 12 <= len(l) <= 250})
            for L in rng.sample(ilens, min(len(ilens), 2)):
                for w in rng.sample([L - 1, L, L + 1, L + 2], 2):
                    cases.append(ctx.case(stream, c.text, (max(1, w),) + tuple(c.cfg[1:])))
    return cases


def run_c03(ctx):
    rng = ctx.rng
    first = []
    for text, kind, wrap in wellformed_variants(ctx, ctx.n(200, 4000), per=ctx.n(1, 3)):
        first.append(ctx.case(kind, text, gen.random_cfg(rng, wrap=rng.choice([wrap, 30, 60, 120, 1000000]))))
    pool = wellformed_texts(ctx, ctx.n(150, 3000))
    bt = [(add_raw_comments(t, rng), gen.random_cfg(rng)) for t, _, _ in pool[:: ctx.n(3, 1)]]
    first += boundary_width_cases(ctx, bt, "boundary")
    for kind, text in gen.codepoint_sweep(rng, frac=ctx.n(0.5, 1.0), wellformed_only=True):
        first.append(ctx.case(kind, text, gen.DEFAULT_CFG))
    for _ in range(ctx.n(400, 8000)):
        first.append(ctx.case("literal", literal_text(rng), gen.random_cfg(rng)))
    # lines re-wrapped after a multi-line literal was re-indented (tokens decided twice), at boundary widths
    first += boundary_width_cases(ctx, twice_decided_texts(ctx, ctx.n(60, 1000), ctx.n(200, 3000)), "twice-decided", input_lines=True)
    res1 = ctx.run_stream(first, mode="fmt")
    second = []
    for c in first:
        r = res1.get(c.id)
        if r is None or r.out is None:
            continue
        try:
            t = r.out.decode("utf-8")
        except UnicodeDecodeError:
            continue
        second.append(ctx.case(c.meta["stream"] + "-2", t, c.cfg, meta={"orig": c.text}))

    def oracle(r):
        ctx.count("second_pass_checked")
        if r.out != r.case.input_bytes():
            f = ctx.fail("not_idempotent", r.case, "formatting the formatter's own output changes it; original input: %r" % str(r.case.meta.get("orig"))[:300],
                         observed=r.out.hex()[:2000])
            if "'''" in (r.case.text if isinstance(r.case.text, str) else ""):
                f["ml_families"] = ml_string_families(ctx, r.case.text, r.case.cfg)

    res2 = ctx.run_stream(second, mode="fmt", oracle=oracle)
    if not ctx.quick():
        third = []
        for c in second[::3]:
            r = res2.get(c.id)
            if r and r.out is not None:
                third.append(ctx.case("third", r.out.decode("utf-8", "replace"), c.cfg, meta={"orig": c.meta.get("orig")}))
        ctx.run_stream(third, mode="fmt", oracle=oracle)
    sample = [ctx.case("trace", c.text, c.cfg) for c in second[:: max(1, len(second) // 300)]]
    # first-pass inputs too (un-normalised comments, keyword case): the rewriters against their models
    sample += [ctx.case("trace1", c.text, c.cfg) for c in first[:: max(1, len(first) // ctx.n(600, 4000))]]
    ctx.run_stream(sample, units=["spacing", "lower", "comment", "eofnl", "mlstring", "fmtdata", "search", "e2e"])
    ctx.hypotheses["the plan is a function of the layout-free view except spaces_before of continuing tokens (search_first_token_spaces_irrelevant) and the child_line_cache kept across the reflow (F6, modelled)"] = "unit search on first- and second-pass inputs"
    ctx.hypotheses["H-W2/H-W4/H-W5: the wrapper's plan is a function of the layout-free view; reflow = fresh call"] = "fmt(fmt(x)) = fmt(x) on the real formatter"


PROPS["C02"] = Spec(
    coq_targets=["theories/Properties/C02.v"], module="Properties.C02",
    theorems=["C02_spacing_only_counters", "C02_gap_local", "C02_spacing_separates", "C02_generics_only_chevrons", "C02_generics_total",
              "C02_invariant_characterised", "C02_break_after_line_ender", "C02_accepted_layout_breaks_after_line_comment"],
    run=run_c02,
    rule="well-formed seeds and grammar programs and their variants (relayout, inline/own-line comment insertion, conditional-directive wrapping, CRLF, keyword case) x random configurations incl. narrow widths",
    explanation="Theorem (reflection over all 183 generated token types): whenever TokenSpacing leaves no space between two tokens the pair is glue-safe for the lexer, or the input had no blank there, or it is one of 23 listed pairs impossible in well-formed code. The spacing model is diffed against the real rule on every case. The oracle re-scans the real output with the verified model lexer and with the real lexer and compares kinds and text of every token with the final token vector (so only the documented normalisations can differ).",
    assumptions=["H-W1 (comment break invariants of the wrapper) and locality of the sub-lexers are decided by the re-scan oracle, not proved"],
)
PROPS["C06"] = Spec(
    coq_targets=["theories/Properties/C06.v"], module="Properties.C06",
    theorems=["C06_reads_orig_characterised", "C06_keeps_orig_characterised", "C06_gap_equiv", "C06_spacing_layout_free", "C06_literal_gap_is_read"],
    run=run_c06,
    rule="well-formed seeds and grammar programs x token-aware random re-layouts (space/tab/newline/indentation at gaps between non-comment, non-literal tokens; blank-line groups kept) x random configurations",
    explanation="Theorems: the spacing rule reads the original space count exactly on a characterised class of type pairs (the literal-gap leak, finding F4) and only up to min 1; outside it the result is independent of the original counts. That parser and wrapper do not consult the layout is decided by the metamorphic oracle on the real formatter; the set of leading-whitespace reads is proved equal to the modelled set (inventory).",
    assumptions=["H-P2, H-W2 validated by differential execution"],
)
PROPS["C03"] = Spec(
    coq_targets=["theories/Properties/C03.v"], module="Properties.C03",
    theorems=["C03_spacing_idempotent", "C03_lowercase_idempotent", "C03_eof_newline_idempotent", "C03_mlstring_idempotent", "C03_rewriters_before_wrapper"],
    run=run_c03,
    rule="well-formed seeds and grammar programs and their variants x random configurations: format, then format the result again with the same configuration (and a third time in the thorough tier)",
    explanation="Theorems: the spacing rule, keyword lower-casing, EofNewline and multi-line string re-indentation are fixpoints of themselves. Idempotence of the whole formatter additionally needs the wrapper's plan to be a function of the layout-free view, which is decided by the oracle fmt(fmt(x)) = fmt(x) on the real formatter.",
    assumptions=["H-W2, H-W4 (false in the F6 class), H-W5"],
)


# ------------------------------------------------------------------ C05 and C11

def nonblank_index(text: str, char_offset: int) -> int:
    """number of non-blank characters before char_offset"""
    return sum(1 for ch in text[:char_offset] if not (ord(ch) <= 0x20 or ch == "　"))


def find_by_nonblank_index(out: str, idx: int) -> int:
    """char offset in out of the non-blank character number idx (0-based)"""
    k = 0
    for i, ch in enumerate(out):
        if ord(ch) <= 0x20 or ch == "　":
            continue
        if k == idx:
            return i
        k += 1
    return -1


def run_c05(ctx):
    rng = ctx.rng
    cases = []
    for _ in range(ctx.n(600, 12000)):
        p = gen.grammar_program(rng)
        text = p.text()
        marks = p.marks
        cfg = gen.random_cfg(rng)
        # relayout: marks are positions in the ORIGINAL text; translate through non-blank indices
        idx = [(nonblank_index(text, off), depth, kind) for off, depth, kind in marks]
        t2 = text
        if rng.random() < 0.6:
            r = gen.relayout(text, rng)
            if r is not None:
                t2 = r
        cases.append(ctx.case("grammar", t2, cfg, meta={"marks": idx}))
        if rng.random() < 0.3:
            # the same program behind a directive-only conditional block: the parser then makes several passes over it (token
            # types consolidated by one pass are seen by the next); the marks move by the block's non-blank characters
            pre = rng.choice(["{$IFDEF A}{$DEFINE B}{$ELSE}{$DEFINE C}{$ENDIF}\n", "{$IF X}{$R a.res}{$ELSEIF Y}{$R b.res}{$ELSE}{$R d.res}{$IFEND}\n"])
            k = len(re.sub(r"\s", "", pre))
            cases.append(ctx.case("grammar-after-directives", pre + t2, cfg, meta={"marks": [(i + k, d, kd) for i, d, kd in idx]}))

    # single-statement bodies (child lines of the wrapper), trivia between the controlling token and the body: the statements of the
    # routine's own statement list and its closer are the marked ones
    for _ in range(ctx.n(300, 6000)):
        text, marks = gen.child_line_program(rng, with_marks=True)
        cases.append(ctx.case("childline", text, gen.random_cfg(rng), meta={"marks": [(nonblank_index(text, off), d, k) for off, d, k in marks]}))
    for text, tag in placement_sample(ctx):
        cases.append(ctx.case("placement", text, gen.random_cfg(rng), meta={"tag": tag, "marks": [(nonblank_index(text, off), d, k) for off, d, k in gen.placement_marks(text)]}))

    # a statement whose head and tail are hand-aligned (verbatim regions) while the block in between is ordinary code: the statements of
    # that block are still one per line at their depth (the block's lines are child lines of a line that starts and ends ignored)
    g5 = gen.GrammarGen(rng)
    for _ in range(ctx.n(150, 3000)):
        stmts = [g5.ident() + rng.choice(["", "(1)", "(A, B)", " := " + g5.ident()]) for _ in range(rng.randrange(1, 5))]
        gaps = [rng.choice(["\n    ", "   ", "\n      ", " "]) for _ in stmts]
        head = "  // pasfmt off\n  if  (Mode = mA)  or\n      (Mode = mB) {pasfmt on} then begin"
        body = "".join(g_ + st + ";" for g_, st in zip(["\n    "] + gaps[1:], stmts))
        tail = "\n  end\n  else // pasfmt off\n    Count  :=  Count  +  1;\n  // pasfmt on\n  Done;\nend;\n"
        text = "procedure Apply(Mode: TMode);\nbegin\n" + head + body + tail
        marks, off = [], len("procedure Apply(Mode: TMode);\nbegin\n" + head)
        for g_, st in zip(["\n    "] + gaps[1:], stmts):
            marks.append((off + len(g_), 2, "stmt"))
            off += len(g_) + len(st) + 1
        marks.append((text.index("\n  end\n") + 3, 1, "closer"))
        marks.append((text.index("  Done;") + 2, 1, "stmt"))
        cfg = gen.random_cfg(rng, wrap=120)
        cases.append(ctx.case("region-branch", text, cfg[:1] + (0,) + cfg[2:], meta={"marks": [(nonblank_index(text, o), d, k) for o, d, k in marks]}))

    # the witnesses of the listed C05 findings carry their own marks: [substring whose first character is marked, depth, kind]
    from . import findings as _f5
    for fid, text, cfg, cursors, w in _f5.witness_inputs("C05"):
        wm = []
        for sub, depth, kind in w.get("marks", []):
            off = text.find(sub)
            if off >= 0:
                wm.append((nonblank_index(text, off), depth, kind))
        if wm:
            cases.append(ctx.case("witness-" + fid, text, tuple(cfg) if cfg else gen.DEFAULT_CFG, meta={"marks": wm, "witness": fid}))

    def oracle(r):
        c = r.case
        try:
            out = r.out.decode("utf-8")
        except UnicodeDecodeError:
            return
        tabs, tw = c.cfg[3], c.cfg[4]
        unit = "\t" if tabs else " " * tw
        ctx.count("programs_checked")
        for idx, depth, kind in c.meta["marks"]:
            if kind == "ctlbegin" and not c.cfg[1]:
                continue   # begin_style=auto: the begin stays on the controlling line
            pos = find_by_nonblank_index(out, idx)
            if pos < 0:
                ctx.fail("statement_lost", c, "marked token (non-blank index %d) not found in the output" % idx)
                return
            ls = out.rfind("\n", 0, pos) + 1
            lead = out[ls:pos]
            ctx.count("marks_checked")
            if lead.strip(" \t") != "":
                ctx.fail("statement_not_on_own_line", c, "%s at depth %d does not start its line: %r" % (kind, depth, out[ls:pos + 15]), observed=r.out.hex()[:3000])
                return
            if kind != "ownline" and lead != unit * depth:
                ctx.fail("statement_wrong_indentation", c, "%s at depth %d is indented by %r, expected %d units of %r: %r" % (kind, depth, lead, depth, unit, out[ls:pos + 15]), observed=r.out.hex()[:3000])
                return

    ctx.run_stream(cases, units=["levels", "grammar", "linescover", "eofline", "canon", "e2e"], oracle=oracle)
    ctx.hypotheses["grammar assigns level d+1 inside a block opened at level d; one logical line per statement"] = "generator-marked statement heads checked against line starts and indentation of the real output"
    ctx.hypotheses["H-W1: first token of a top-level line breaks at `level` indentations"] = "unit levels on every trace"


_HDR_RE = re.compile(rb"\b(function|procedure|constructor|destructor|operator)\b", re.I)
_DIRECTIVE_RE = re.compile(rb"(overload|virtual|override|stdcall|cdecl|inline|static|abstract|dynamic|reintroduce|deprecated|platform|external|forward|assembler|register|safecall|message|dispid|final|experimental|library|export|far|near|pascal|varargs|unsafe|winapi|delayed|name|index|local)\b", re.I)


def expensive_break_in(out):
    """does this output contain a line break of one of the kinds get_decision_penalty prices above the default:
    before the type after `:` in a routine / anonymous-routine header (2^8), before a routine directive (2^9), inside
    angle brackets (2^10)?  (class condition of finding F26)"""
    lines = [l.rstrip(b"\r") for l in out.split(b"\n")]
    for i in range(1, len(lines)):
        prev, cur = lines[i - 1].rstrip(), lines[i].lstrip()
        if not prev or not cur:
            continue
        near = b"\n".join(lines[max(0, i - 8):i + 1])
        if prev.endswith(b":") and _HDR_RE.search(near):
            return True
        if _DIRECTIVE_RE.match(cur) and _HDR_RE.search(near):
            return True
        if prev.endswith(b"<") or cur.startswith(b">") or prev.count(b"<") > prev.count(b">") and re.search(rb"<[\w., ]*$", prev):
            return True
    return False


def run_c11(ctx):
    rng = ctx.rng
    widths = [10, 16, 20, 25, 30, 40, 45, 60, 80, 100, 120, 160, 200]
    triples = []
    pool = wellformed_texts(ctx, ctx.n(200, 4000))
    cases = []
    groups = []
    for text, kind, wrap in pool:
        base = gen.random_cfg(rng)
        ws = sorted(rng.sample(widths, ctx.n(3, 5)))
        g = []
        for w in ws:
            c = ctx.case(kind, text, (w,) + tuple(base[1:]))
            cases.append(c)
            g.append((w, c))
        groups.append(g)
    # boundary widths: for a part of the pool, widths at and next to the lengths of the lines of an
    # unconstrained formatting (where a label list, a parameter list or an argument list starts to wrap)
    bpool = pool[:: ctx.n(4, 1)]
    # (half of them with un-normalised trailing comments: `//x`, trailing blanks - what the wrapper measures must be what is written)
    probes = [ctx.case("probe", add_raw_comments(t, rng) if rng.random() < 0.5 else t, (1000000000,) + tuple(gen.random_cfg(rng)[1:])) for t, _, _ in bpool]
    pres = ctx.run_stream(probes, mode="fmt")
    for pc in probes:
        r = pres.get(pc.id)
        if r is None or r.out is None:
            continue
        lens = sorted({len(l.rstrip(b"\r")) for l in r.out.split(b"\n") if 14 <= len(l.rstrip(b"\r")) <= 200})
        if not lens:
            continue
        L = rng.choice(lens)
        ws = sorted(set(max(10, L + d) for d in rng.sample([-12, -8, -6, -4, -3, -2, -1, 0, 1, 2, 4, 6], ctx.n(4, 6))))
        g = []
        for w in ws:
            c = ctx.case("boundary", pc.text, (w,) + tuple(pc.cfg[1:]))
            cases.append(c)
            g.append((w, c))
        groups.append(g)
    # one wrapped statement (chains of qualified calls joined by operators, generic receivers, parameter groups) at EVERY width of a
    # window of consecutive widths: layouts of equal or nearly equal cost must not alternate between neighbouring limits
    def chain_statement(rng):
        def name(n=None):
            return rng.choice(["Helper", "Ledger", "Orders", "Owner", "Currency", "Account", "Balance", "Total", "Page", "Sum", "Item", "Customer"]) + "x" * rng.randrange(0, 6)
        def term():
            t = name() + (rng.choice(["<TCustomerRecord>", "<T>", "<string, Integer>"]) if rng.random() < 0.3 else "")
            for _ in range(rng.randrange(1, 4)):
                t += "." + name() + ("(" + ", ".join(rng.choice([name(), str(rng.randrange(100000)), "'s'"]) for _ in range(rng.randrange(0, 3))) + ")" if rng.random() < 0.8 else "")
            return t
        c = rng.random()
        if c < 0.6:
            body = name() + " := " + (" " + rng.choice(["+", "-", "and", "or", "*"]) + " ").join(term() for _ in range(rng.randrange(2, 4))) + ";"
        elif c < 0.8:
            body = name() + "(" + ", ".join(term() for _ in range(rng.randrange(2, 4))) + ");"
        else:
            groups_ = "; ".join(rng.choice(["const ", "var ", "out ", ""]) + ", ".join(name() for _ in range(rng.randrange(1, 3))) + ": " + rng.choice(["T", "TLongTypeName", "string"]) + rng.choice(["", "", " = 'x'"]) for _ in range(rng.randrange(1, 4)))
            return "type TFoo = class\n  " + rng.choice(["procedure ", "function "]) + name() + "(" + groups_ + ")" + rng.choice(["", ": Integer"]) + ";" + rng.choice(["", " virtual;", " overload; static;"]) + "\nend;\n", None
        depth = rng.randrange(0, 3)
        return "procedure P;\nbegin\n" + "begin\n" * depth + body + "\n" + "end;\n" * depth + "end;\n", body
    for _ in range(ctx.n(20, 400)):
        # (child-line programs at a window of consecutive widths: the heap's rebuild threshold and the child-line options show there)
        text = gen.child_line_program(rng)
        if len(text) > 1500:
            continue
        L = max(len(l) for l in text.split("\n"))
        base = gen.random_cfg(rng)
        lo = rng.randrange(14, max(15, min(L, 90)))
        g = []
        for w in range(lo, lo + ctx.n(10, 24)):
            c = ctx.case("childwidths", text, (w,) + tuple(base[1:]))
            cases.append(c)
            g.append((w, c))
        groups.append(g)
    for _ in range(ctx.n(40, 600)):
        text, body = chain_statement(rng)
        L = max(len(l) for l in text.split("\n"))
        base = gen.random_cfg(rng)
        lo = rng.randrange(max(16, L // 3), max(17, L))
        g = []
        for w in range(lo, lo + ctx.n(14, 24)):
            c = ctx.case("consecutive", text, (w,) + tuple(base[1:]))
            cases.append(c)
            g.append((w, c))
        groups.append(g)
    # case arms with several labels followed by `begin`, at widths around the arm headers
    for _ in range(ctx.n(150, 1500)):
        text, lens = gen.case_labels_program(rng)
        L = rng.choice(lens)
        base = gen.random_cfg(rng)
        base = base[:1] + (0,) + base[2:4] + (2,) + base[5:]     # begin_style=auto, tab_width 2: the header lengths apply
        ws = sorted(set(max(12, L + d) for d in rng.sample(range(-14, 5), 6)))
        g = []
        for w in ws:
            c = ctx.case("case-labels", text, (w,) + tuple(base[1:]))
            cases.append(c)
            g.append((w, c))
        groups.append(g)
    # several multi-line literals on one logical line: formatted once without a limit, then ONE literal (not the last)
    # is shifted sideways as a whole (its value is unchanged), at widths around the line lengths: the line has to be
    # re-wrapped after the re-indentation whichever literal was the one that changed
    def ml_line(rng):
        def lit(word):
            return "'''\n  %s\n  '''" % word
        def call():
            n = rng.choice([1, 2, 3])
            args = ", ".join(rng.choice("abcdxyz") * rng.randrange(4, 12) for _ in range(n))
            return rng.choice([".Format(%s)", ".Replace(%s)", ".Pad(%s)"]) % args
        k = rng.choice([2, 2, 3])
        lits = [lit("text%d" % i) + (call() if rng.random() < 0.8 else "") for i in range(k)]
        shape = rng.choice(["Run(%s);", "Q := %s;", "Log(X, %s);"])
        sep = ", " if shape != "Q := %s;" else " + "
        body = shape % sep.join(lits)
        depth = rng.randrange(0, 3)
        pre = "procedure P;\nbegin\n" + "".join("  " * (d + 1) + "if C%d then begin\n" % d for d in range(depth))
        post = "".join("  " * (d + 1) + "end;\n" for d in reversed(range(depth))) + "end;\n"
        return pre + "  " * (depth + 1) + body + "\n" + post
    mprobes = [ctx.case("ml-probe", ml_line(rng), (1000000000,) + tuple(gen.random_cfg(rng)[1:])) for _ in range(ctx.n(200, 3000))]
    mres = ctx.run_stream(mprobes, mode="fmt")
    for pc in mprobes:
        r = mres.get(pc.id)
        if r is None or r.out is None:
            continue
        try:
            y = r.out.decode("utf-8")
        except UnicodeDecodeError:
            continue
        spans = [m.span() for m in re.finditer(r"'''\r?\n(?:.*\r?\n)*?[ \t]*'''", y)]
        if len(spans) < 2:
            continue
        a, b = spans[rng.randrange(0, len(spans) - 1)]
        lit_lines = y[a:b].split("\n")
        shift = rng.choice([-4, -2, -1, 1, 2, 3, 4, 6, 8])
        new_lines = [lit_lines[0]]
        for ln in lit_lines[1:]:
            if shift > 0:
                new_lines.append(" " * shift + ln)
            else:
                lead = len(ln) - len(ln.lstrip(" "))
                new_lines.append(ln[min(lead, -shift):])
        if shift < 0 and len({len(l) - len(l.lstrip(" ")) for l in lit_lines[1:] if l.strip()}) > 1:
            continue
        z = y[:a] + "\n".join(new_lines) + y[b:]
        lens = sorted({len(l.rstrip("\r")) for l in (y + "\n" + z).split("\n") if 12 <= len(l.rstrip("\r")) <= 200})
        if not lens:
            continue
        g = []
        for L in rng.sample(lens, min(len(lens), 2)):
            for w in sorted(set(max(10, L + d) for d in rng.sample(range(-9, 10), ctx.n(4, 7)))):
                c = ctx.case("ml-shifted", z, (w,) + tuple(pc.cfg[1:]))
                cases.append(c)
                g.append((w, c))
        g.sort(key=lambda t: t[0])
        groups.append(g)
    # the listed findings' witnesses, replayed through the same comparison
    from . import findings as _f
    for k in _f.load():
        w = k.get("witness") or {}
        if k.get("status") == "known" and "C11" in k.get("properties", [k.get("property")]) and "cfg_narrow" in w:
            text = w.get("input")
            if text is None and "seed" in w:
                text = next((s["text"] for s in gen.seeds() if s["name"].startswith(w["seed"])), None)
            if text is None:
                continue
            g = []
            for cfg in (w["cfg_narrow"], w["cfg_wide"]):
                c = ctx.case("witness-" + k["id"], text, tuple(cfg))
                cases.append(c)
                g.append((cfg[0], c))
            groups.append(g)
    res = ctx.run_stream(cases, mode="fmt")
    # the limit is applied to a MEASURED length: the search's logged line length of every decided token against the
    # model of get_token_line_length and against the rendered column (theorem C11_measured_fit_is_rendered_fit)
    msample = [ctx.case("trace-" + c.meta["stream"], c.text, c.cfg) for c in cases[:: max(1, len(cases) // ctx.n(500, 5000))]]
    ctx.run_stream(msample, units=["measure", "recon", "wrapapply", "search", "e2e"])
    ctx.hypotheses["the penalties, the over-length test and the iteration limit of the search are the model's (Model/WrapSearch.v)"] = "unit search on the traced sample: WS lines (penalty, iterations, length) compared per find_optimal_solution call"
    ctx.hypotheses["the search's measured line length (LineWhitespace::len, get_token_line_length) is the model's"] = "unit measure on a traced sample of the width-pair cases"

    def maxlen(out):
        return max((len(l.rstrip(b"\r")) for l in out.split(b"\n")), default=0)

    for g in groups:
        outs = [(w, res[c.id].out, c) for w, c in g if res.get(c.id) is not None and res[c.id].out is not None]
        for i in range(len(outs)):
            for j in range(i + 1, len(outs)):
                w1, o1, c1 = outs[i]
                w2, o2, c2 = outs[j]
                ctx.count("width_pairs")
                if maxlen(o2) <= w1 and o1 != o2:
                    f = ctx.fail("width_is_style_switch", c1, "result for wrap_column=%d fits within %d but formatting with %d gives a different result" % (w2, w1, w1),
                                 observed=o1.hex()[:2000], expected=o2.hex()[:2000])
                    if "'''" in (c1.text if isinstance(c1.text, str) else ""):
                        f["ml_families"] = ml_string_families(ctx, c1.text, c1.cfg)
                    elif isinstance(c1.text, str):
                        f["equal_penalty_tie"] = equal_penalty_tie(ctx, c1.text, c1.cfg, c2.cfg)
                if o2.count(b"\n") > o1.count(b"\n"):
                    f = ctx.fail("wider_more_lines", c2, "wrap_column=%d gives %d lines, wrap_column=%d gives %d" % (w2, o2.count(b"\n"), w1, o1.count(b"\n")),
                             observed=o2.hex()[:2000], expected=o1.hex()[:2000], narrow_overflows=bool(maxlen(o1) > w1), wide_overflows=bool(maxlen(o2) > w2), narrow_expensive_break=expensive_break_in(o1),
                             nonblank_lines_narrow=sum(1 for l in o1.split(b"\n") if l.strip()), nonblank_lines_wide=sum(1 for l in o2.split(b"\n") if l.strip()))
                    if "'''" in (c2.text if isinstance(c2.text, str) else ""):
                        f["ml_families"] = ml_string_families(ctx, c2.text, c2.cfg)
                if maxlen(o1) <= w1 and maxlen(o2) > w2:
                    ls = [l.rstrip(b"\r") for l in o2.split(b"\n")]
                    over = [[ls[k - 1].decode("utf-8", "replace") if k else "", ls[k].decode("utf-8", "replace")] for k in range(len(ls)) if len(ls[k]) > w2]
                    f = ctx.fail("fits_not_monotone", c2, "every line fits at wrap_column=%d but not at %d" % (w1, w2), observed=o2.hex()[:2000],
                                 wide=w2, over_lines=over[:8], over_count=len(over))
                    if "'''" in (c2.text if isinstance(c2.text, str) else ""):
                        f["ml_families"] = ml_string_families(ctx, c2.text, c2.cfg)
    ctx.hypotheses["the search returns (an equivalent of) a minimiser over a width-independent candidate set"] = "width pairs on the real formatter (the theorems are supporting lemmas only)"


PROPS["C05"] = Spec(
    coq_targets=["theories/Properties/C05.v"], module="Properties.C05",
    theorems=["C05_level_rendering", "C05_level_units"],
    run=run_c05,
    rule="grammar-generated programs (routines, declaration sections, compound/if/else/while/for/with/repeat/try/case statements, nested to depth 4, arbitrary expressions) for which the generator records the first token and nesting depth of every statement, member and block closer; 60% re-layouted; x random configurations incl. begin_style and narrow widths",
    explanation="Theorem: a line-start token with `level` indentations is rendered as exactly level units. The plan hypothesis (first token of each top-level line starts a line at `level`) is evaluated on every real trace; the oracle checks every generator-marked statement head / member / closer against line start and indentation of the real output.",
    assumptions=["the grammar's level assignment and line splitting are not modelled (oracle); H-W1 monitored"],
)
PROPS["C11"] = Spec(
    coq_targets=["theories/Properties/C11.v"], module="Properties.C11",
    theorems=["C11_penalty_antitone", "C11_penalty_eq_when_fits", "C11_fits_monotone", "C11_ideal_search_width_stable", "C11_width_sites"],
    run=run_c11,
    rule="well-formed seeds and grammar programs x 3 (quick) / 5 (thorough) widths from {10..200} with the other settings fixed per input; all pairs W1 < W2 compared",
    explanation="Supporting theorems only: the penalty is antitone in the limit, equal when everything fits, fitting is monotone, and an ideal minimiser over a width-independent candidate set would be width-stable; wrap_column is used only at the modelled sites (generated inventory). The real search is a heuristic and is not modelled: the three clauses of the property are decided by the width-pair oracle on the real formatter.",
    assumptions=["main clause decided by the oracle"],
)


# ------------------------------------------------------------------ C16 - C19 (the real binary)

from . import cli  # noqa: E402
import subprocess as _sp  # noqa: E402

MESSY = ["\ufeffbegin\n  X  :=   1 ;\nend.\n", "\ufeff\ufeff a ;\n", "x := '\ufeff' ;\n// \ufffe \ufeff\n",
         "begin\n  X  :=   1 ;\n\n\n\n  Foo (  a,b ) ;\nend.\n", "procedure   P ;\nbegin\nend;\n", "x:=1;", "begin end.\n", "",
         "unit A;\ninterface\nuses  B ,  C;\nimplementation\nend.\n", "// é comment   \nbegin  end.", "const S = 'äöü日本';\n"]


def cli_contents(ctx, n):
    rng = ctx.rng
    out = list(MESSY)
    S = gen.seeds()
    for _ in range(n):
        t = rng.choice(S)["text"]
        c = rng.random()
        if c < 0.3:
            r = gen.relayout(t, rng)
            t = r if r else t
        elif c < 0.45:
            t = t.replace("\n", "\n\n\n") + "   \n\n\n"   # result shorter than the input
        elif c < 0.6:
            t = " ".join(t.split())                          # result usually longer
        out.append(t)
    return out


ENCODINGS = [  # (name for -C encoding, python codec, bom bytes, model enc name or None)
    ("utf-8", "utf-8", b"", "utf8"), ("utf-8", "utf-8", b"\xef\xbb\xbf", "utf8"),
    ("utf-8", "utf-16-le", b"\xff\xfe", "utf8"), ("utf-8", "utf-16-be", b"\xfe\xff", "utf8"),
    ("windows-1252", "utf-16-le", b"\xff\xfe", None), ("utf-16le", "utf-16-le", b"", "utf16le"), ("utf-16be", "utf-16-be", b"", "utf16be"),
    ("windows-1252", "cp1252", b"", None), ("shift_jis", "shift_jis", b"", None), ("gbk", "gbk", b"", None),
    ("big5", "big5", b"", None), ("euc-kr", "euc_kr", b"", None), ("windows-1251", "cp1251", b"", None),
    # stateful and further legacy encodings (ISO-2022-JP text consists of 7-bit bytes only)
    ("iso-2022-jp", "iso2022_jp", b"", None), ("euc-jp", "euc_jp", b"", None), ("koi8-r", "koi8_r", b"", None),
    ("windows-1250", "cp1250", b"", None), ("iso-8859-2", "iso8859_2", b"", None), ("gb18030", "gb18030", b"", None), ("ibm866", "cp866", b"", None),
]
ENC_SAMPLES = {"cp1252": "é ü ß", "shift_jis": "カタカナ 漢字", "gbk": "汉字 测试", "big5": "漢字 測試", "euc_kr": "한글 시험", "cp1251": "Привет мир",
               "iso2022_jp": "漢字 テスト", "euc_jp": "漢字 テスト", "koi8_r": "Привет мир", "cp1250": "Zażółć gęślą jaźń", "iso8859_2": "Zażółć gęślą",
               "gb18030": "汉字 测试 €", "cp866": "Привет мир"}


def model_fileio(rows):
    """rows: (enc model name, content bytes, path bytes, fmt_in utf8 bytes, fmt_out utf8 bytes) -> list of dicts"""
    f = os.path.join(build.CACHE, "run", "fio_%d.txt" % os.getpid())
    os.makedirs(os.path.dirname(f), exist_ok=True)
    hx = lambda b: b.hex() if b else "-"
    with open(f, "w") as o:
        for e, c, p, fi, fo in rows:
            o.write("%s %s %s %s %s\n" % (e, hx(c), hx(p), hx(fi), hx(fo)))
    q = _sp.run([build.DRIVER, "fileio", f], stdout=_sp.PIPE, timeout=1200)
    os.remove(f)
    res = {}
    for line in q.stdout.decode().splitlines():
        p = line.split()
        if p and p[0] == "FIO":
            d = dict(kv.split("=", 1) for kv in p[2:])
            res[int(p[1])] = d
    return res


def unhex(h):
    return b"" if h == "-" else bytes.fromhex(h)


def run_file_layer(ctx, prop):
    """shared by C16 and C17: every content x encoding through files / stdin->stdout / check / stdout
    modes of the real binary, compared with each other, with the Python codec oracle, and with the
    file-layer model (UTF encodings)."""
    rng = ctx.rng
    wd = cli.workdir(prop)
    ctx.workdirs.append(wd)
    ecfg = cli.empty_cfg(wd)
    contents = cli_contents(ctx, ctx.n(40, 400))
    jobs = []
    k = 0
    for text in contents:
        encs = ENCODINGS if (prop == "C17" or k % 4 == 0) else ENCODINGS[:4]
        for (ename, codec, bom, mname) in (encs if prop == "C17" else rng.sample(encs, min(len(encs), 3))):
            t = text
            if codec in ("iso2022_jp", "euc_jp", "koi8_r", "cp1250", "iso8859_2", "gb18030", "cp866"):
                # Python's codecs accept more than the WHATWG encoders of encoding_rs (e.g. JIS X 0212 in EUC-JP): only
                # ASCII plus the sample, which both can represent
                t = text.encode("ascii", "ignore").decode()
            if codec in ENC_SAMPLES and rng.random() < 0.7:
                t = t + "\n// " + ENC_SAMPLES[codec] + "\nconst S = '" + ENC_SAMPLES[codec] + "';\n"
            try:
                body = t.encode(codec)
            except UnicodeEncodeError:
                t = text.encode("ascii", "ignore").decode()
                body = t.encode(codec)
            jbom = bom
            if not bom and codec in ("utf-8", "utf-16-le", "utf-16-be") and t.startswith("\ufeff"):
                # a leading U+FEFF in a BOM-less UTF file IS a byte-order mark for the sniffer
                jbom = "\ufeff".encode(codec)
                t = t[1:]
                body = t.encode(codec)
            jobs.append({"i": k, "text": t, "bytes": jbom + body, "ename": ename, "codec": codec, "bom": jbom, "mname": mname, "malformed": False})
            k += 1
    # malformed inputs
    BAD = {"utf-8": [b"begin \xff\xfe\xfd end.", b"\xc3(", b"\xed\xa0\x80", b"\xf4\x90\x80\x80", b"\xc0\xaf", b"abc\xe3\x80"],
           "utf-16-le": [b"a\x00b", b"\x00\xd8a\x00", b"a\x00\x00\xdc", b"\x00\xd8"],
           "utf-16-be": [b"\x00a\x00", b"\xd8\x00\x00a", b"\x00a\xdc\x00"],
           "shift_jis": [b"\x81", b"abc\x81", b"\x81\x20"],
           "iso2022_jp": [b"a; \x1b$B\x21", b"\x1b(Z abc;", b"x := 1; // \x1b$B4A\x1b(", b"\x0e abc"],
           "euc_jp": [b"\xb4", b"abc\x8f\xa1"]}
    for ename, codec, bom, mname in [("utf-8", "utf-8", b"", "utf8"), ("utf-8", "utf-8", b"\xef\xbb\xbf", "utf8"), ("utf-8", "utf-16-le", b"\xff\xfe", "utf8"),
                                     ("utf-16be", "utf-16-be", b"", "utf16be"), ("utf-8", "utf-16-be", b"\xfe\xff", "utf8"), ("shift_jis", "shift_jis", b"", None),
                                     ("iso-2022-jp", "iso2022_jp", b"", None), ("euc-jp", "euc_jp", b"", None)]:
        for bad in BAD[codec]:
            jobs.append({"i": k, "text": None, "bytes": bom + bad, "ename": ename, "codec": codec, "bom": bom, "mname": mname, "malformed": True})
            k += 1

    def one(j):
        d = os.path.join(wd, "j%d" % j["i"])
        os.makedirs(d)
        f = os.path.join(d, "t.pas")
        args = ["--config-file", ecfg, "-C", "encoding=" + j["ename"]]
        r = {}
        r["stdin"] = cli.run(args, d, stdin=j["bytes"])
        open(f, "wb").write(j["bytes"])
        r["check0"] = cli.run(args + ["--mode", "check", f], d)
        r["after_check"] = open(f, "rb").read()
        r["stdout"] = cli.run(args + ["--mode", "stdout", f], d)
        r["after_stdout"] = open(f, "rb").read()
        r["files"] = cli.run(args + [f], d)
        r["after_files"] = open(f, "rb").read()
        r["check1"] = cli.run(args + ["--mode", "check", f], d)
        r["check_stdin1"] = cli.run(args + ["--mode", "check"], d, stdin=r["after_files"])
        shutil.rmtree(d, ignore_errors=True)
        return r

    import shutil
    results = cli.pmap(one, jobs)
    # model predictions for the UTF encodings
    rows, idx = [], []
    for j, r in zip(jobs, results):
        if j["mname"] is None:
            continue
        fi = fo = b""
        if not j["malformed"]:
            fi = j["text"].encode("utf-8")
            # what the formatter makes of the decoded text: taken from the stdout-mode run (path:\n<utf8>\n)
            so = r["stdout"][1]
            hdr = so.find(b":\n")
            fo = so[hdr + 2:-1] if hdr >= 0 and so.endswith(b"\n") else fi
        rows.append((j["mname"], j["bytes"], os.path.join(wd, "j%d" % j["i"], "t.pas").encode(), fi, fo))
        idx.append(j["i"])
    pred = model_fileio(rows)
    pred_by_job = {ji: pred.get(n) for n, ji in enumerate(idx)}
    n_model_ok = n_model_bad = 0
    for j, r in zip(jobs, results):
        case = ctx.case("cli-" + j["codec"] + ("-bom" if j["bom"] else ""), j["bytes"], gen.DEFAULT_CFG, meta={"encoding": j["ename"]})
        ctx.note_case(case)
        if len(ctx.samples) < 6:
            ctx.samples.append({"encoding": j["ename"], "bom": j["bom"].hex(), "bytes": j["bytes"][:80].hex(), "files_rc": r["files"][0]})
        ctx.count("cli_cases")
        b = j["bytes"]
        rc_stdin, out_stdin, _ = r["stdin"]
        if r["after_check"] != b or r["after_stdout"] != b:
            ctx.fail("readonly_mode_wrote", case, "check or stdout mode modified the file")
        if j["malformed"]:
            ctx.count("malformed_cases")
            if r["after_files"] != b:
                ctx.fail("malformed_rewritten", case, "input malformed in %s was rewritten" % j["codec"], observed=r["after_files"].hex()[:400])
            if r["files"][0] == 0 or rc_stdin == 0 or r["check0"][0] == 0:
                ctx.fail("malformed_exit_zero", case, "malformed input but exit status files=%d stdin=%d check=%d" % (r["files"][0], rc_stdin, r["check0"][0]))
        else:
            if rc_stdin != 0 or r["files"][0] != 0:
                ctx.fail("cli_error", case, "unexpected failure: stdin rc=%d files rc=%d stderr=%r" % (rc_stdin, r["files"][0], r["files"][2][-300:]))
                continue
            noncanon = False
            if r["after_files"] != out_stdin:
                try:
                    noncanon = (b[len(j["bom"]):].decode(j["codec"]).encode(j["codec"]) != b[len(j["bom"]):])
                except Exception:
                    noncanon = False
                ctx.fail("file_vs_stdout", case, "files mode left %d bytes, stdin->stdout printed %d bytes (first difference at %d)" % (
                    len(r["after_files"]), len(out_stdin), next((i for i in range(min(len(out_stdin), len(r["after_files"]))) if out_stdin[i] != r["after_files"][i]), -1)),
                    observed=r["after_files"].hex()[:800], expected=out_stdin.hex()[:800], noncanonical=noncanon)
            # the oracle of C17: bytes written = BOM + encode(format(decode(body)))
            so = r["stdout"][1]
            hdr = so.find(b":\n")
            if hdr >= 0 and so.endswith(b"\n"):
                formatted = so[hdr + 2:-1].decode("utf-8", "replace")
                try:
                    expect = j["bom"] + formatted.encode(j["codec"])
                    ctx.count("bytes_written_formula_checked")
                    if r["after_files"] != expect:
                        ctx.fail("bytes_written_formula", case, "file bytes differ from BOM + encode(format(decode(input))) in %s" % j["codec"],
                                 observed=r["after_files"].hex()[:800], expected=expect.hex()[:800])
                    if not r["after_files"].startswith(j["bom"]) or (not j["bom"] and r["after_files"][:3] == b"\xef\xbb\xbf" and not b.startswith(b"\xef\xbb\xbf")):
                        ctx.fail("bom_not_preserved", case, "BOM changed")
                except UnicodeEncodeError:
                    pass
            # check mode: exit zero exactly when the content equals the result
            already = (b == out_stdin) or (j["text"] is not None and hdr >= 0 and so[hdr + 2:-1] == j["text"].encode("utf-8"))
            if (r["check0"][0] == 0) != already:
                ctx.fail("check_disagrees", case, "check mode exit %d but content %s its formatting" % (r["check0"][0], "equals" if already else "differs from"))
            if r["check1"][0] != 0 or r["check_stdin1"][0] != 0:
                ctx.fail("check_rejects_own_output", case, "check mode rejects the file pasfmt has just written (rc file=%d stdin=%d)" % (r["check1"][0], r["check_stdin1"][0]))
        # the file-layer model
        p = pred_by_job.get(j["i"])
        if p is not None:
            ok = True
            if unhex(p["files"]) != r["after_files"] or (p["files_err"] == "1") != (r["files"][0] != 0):
                ok = False
            if not j["malformed"] and (unhex(p["stdin"]) != out_stdin or (p["stdin_err"] == "1") != (rc_stdin != 0)):
                ok = False
            if (p["check_err"] == "1") != (r["check0"][0] != 0) or (p["stdout_err"] == "1") != (r["stdout"][0] != 0):
                ok = False
            if not j["malformed"] and unhex(p["stdout"]) != r["stdout"][1]:
                ok = False
            if ok:
                n_model_ok += 1
            else:
                n_model_bad += 1
                ctx.corr_diffs.append(("cli%d" % j["i"], "fileio", "model prediction differs from the binary: enc=%s bytes=%s model=%r" % (j["ename"], b.hex()[:200], {k: v[:60] for k, v in p.items()})))
    ctx.corr_counts["fileio"] = [n_model_ok, n_model_bad]
    ctx.traces_validated += n_model_ok
    return wd, ecfg


def many_failures(ctx, wd, ecfg):
    import shutil
    # the exit status is non-zero for EVERY number of failing files (a status is one byte: 256 and 512 failures included)
    for nfail in ctx.n([1, 255, 256, 257], [1, 2, 255, 256, 257, 511, 512, 513, 768]):
        fd = os.path.join(wd, "manyfail%d" % nfail)
        os.makedirs(fd)
        for i in range(nfail):
            open(os.path.join(fd, "u%04d.pas" % i), "wb").write(b"begin  end." if i % 2 else b"begin \xff end.")
        open(os.path.join(fd, "ok.pas"), "wb").write(b"begin\nend.\n")
        rc, so, se = cli.run(["--config-file", ecfg, "--mode", "check", fd], fd, env={"RAYON_NUM_THREADS": "4"})
        ctx.count("many_failure_runs")
        case = ctx.case("many-failures", "check mode over %d failing files" % nfail, gen.DEFAULT_CFG)
        ctx.note_case(case)
        if rc == 0:
            ctx.fail("batch_exit_zero_with_failures", case, "check mode over a directory with %d unformatted or undecodable files exited 0" % nfail)
        shutil.rmtree(fd, ignore_errors=True)


def run_c16(ctx):
    wd, ecfg = run_file_layer(ctx, "C16")
    many_failures(ctx, wd, ecfg)
    # finding F8: non-canonical legacy bytes in already formatted text (Shift_JIS 87 90 = U+2252, canonically 81 E0)
    body = "// ".encode("ascii") + bytes.fromhex("8790") + b"\nbegin\nend.\n"
    f8 = os.path.join(wd, "f8.pas")
    open(f8, "wb").write(body)
    args = ["--config-file", ecfg, "-C", "encoding=shift_jis"]
    rc_s, out_s, _ = cli.run(args, wd, stdin=body)
    rc_f, _, _ = cli.run(args + [f8], wd)
    after = open(f8, "rb").read()
    if rc_s == 0 and rc_f == 0 and after != out_s:
        c = ctx.case("witness-F8", body, gen.DEFAULT_CFG, meta={"encoding": "shift_jis"})
        ctx.note_case(c)
        ctx.fail("file_vs_stdout", c, "files mode left %s, stdin->stdout printed %s" % (after.hex()[:40], out_s.hex()[:40]), noncanonical=True)
    rng = ctx.rng
    # path forms: file, directory, glob, --files-from: every form formats the same set of files identically
    d = os.path.join(wd, "forms")
    texts = cli_contents(ctx, 30)[:34]

    def populate(root):
        os.makedirs(os.path.join(root, "sub"), exist_ok=True)
        paths = []
        for i, t in enumerate(texts):
            p = os.path.join(root, "sub" if i % 3 == 0 else "", "f%d.%s" % (i, ["pas", "dpr", "dpk"][i % 3]))
            open(p, "wb").write(t.encode("utf-8"))
            paths.append(p)
        open(os.path.join(root, "ignored.txt"), "wb").write(b"begin  end.")
        # files that cannot be decoded, among the others: they stay untouched, the others are still formatted
        for nm in ("a_bad.pas", os.path.join("sub", "m_bad.dpr")):
            open(os.path.join(root, nm), "wb").write(b"begin \xff\xfe end.")
        return paths

    outs = {}
    for form in ("file", "dir", "glob", "files-from"):
        root = os.path.join(d, form)
        paths = populate(root)
        if form == "file":
            args = paths
        elif form == "dir":
            args = [root]
        elif form == "glob":
            args = [os.path.join(root, "*.pas"), os.path.join(root, "*.dp?"), os.path.join(root, "sub", "*")]
        else:
            lst = os.path.join(root, "list.txt")
            allp = sorted(paths + [os.path.join(root, "a_bad.pas"), os.path.join(root, "sub", "m_bad.dpr")])
            open(lst, "w").write("\n".join(allp) + "\n")
            args = ["--files-from", lst]
        if form == "file":
            args = sorted(args + [os.path.join(root, "a_bad.pas"), os.path.join(root, "sub", "m_bad.dpr")])
        rc, so, se = cli.run(["--config-file", ecfg] + args, root, env={"RAYON_NUM_THREADS": rng.choice(["1", "2"])})
        bad_ok = all(open(os.path.join(root, nm), "rb").read() == b"begin \xff\xfe end." for nm in ("a_bad.pas", os.path.join("sub", "m_bad.dpr")))
        outs[form] = (rc, [open(p, "rb").read() for p in paths], open(os.path.join(root, "ignored.txt"), "rb").read(), bad_ok)
        ctx.count("path_forms")
    expect = [cli.run(["--config-file", ecfg], wd, stdin=t.encode("utf-8"))[1] for t in texts]
    for form, (rc, got, ign, bad_ok) in outs.items():
        if rc == 0 or got != expect or ign != b"begin  end." or not bad_ok:
            ctx.fail("path_form_differs", None, "path form %s with two undecodable files among %d: exit status %d (must be non-zero), %d files differ from stdin formatting, ignored file touched=%s, undecodable files untouched=%s" % (
                form, len(expect), rc, sum(1 for a, b in zip(got, expect) if a != b), ign != b"begin  end.", bad_ok))
    # files + stdin is rejected; stdin defaults to stdout mode
    rc, so, se = cli.run(["--config-file", ecfg, "--mode", "files"], wd, stdin=b"begin end.")
    if rc == 0:
        ctx.fail("files_mode_with_stdin_accepted", None, "--mode files reading stdin exited 0")
    # the operation sequence of each mode on the file (strace) against the modelled sequence
    st = os.path.join(wd, "strace")
    os.makedirs(st)
    f = os.path.join(st, "t.pas")
    seqs = {}
    for mode, args in (("files", []), ("check", ["--mode", "check"]), ("stdout", ["--mode", "stdout"])):
        open(f, "wb").write(b"begin\n\n\n  X  :=  1 ;\nend.\n")
        ops = cli.strace_ops(["--config-file", ecfg] + args + [f], st, f)
        seqs[mode] = ops
    if seqs.get("files") is not None:
        kinds = [o[0] for o in seqs["files"]]
        shape_ok = (kinds[:1] == ["open"] and "RDWR" in seqs["files"][0][1] and "TRUNC" not in seqs["files"][0][1]
                    and "lseek" in kinds and "write" in kinds and "ftruncate" in kinds
                    and kinds.index("lseek") < kinds.index("write") < kinds.index("ftruncate"))
        ctx.corr_counts["syscall_sequence_files"] = [1, 0] if shape_ok else [0, 1]
        if not shape_ok:
            ctx.corr_diffs.append(("strace", "fileio-ops", "files mode operation sequence %r is not open(RDWR) read* lseek(0) write* ftruncate" % (seqs["files"],)))
        for mode in ("check", "stdout"):
            ks = [o[0] for o in seqs[mode]]
            ro_ok = ks[:1] == ["open"] and "RDONLY" in seqs[mode][0][1] and not any(k in ("write", "ftruncate", "truncate", "rename", "unlink") for k in ks)
            ctx.corr_counts["syscall_sequence_" + mode] = [1, 0] if ro_ok else [0, 1]
            if not ro_ok:
                ctx.fail("readonly_mode_wrote", None, "%s mode touched the file: %r" % (mode, seqs[mode]))
        ctx.samples.append({"strace_files_mode": [list(o) for o in seqs["files"]][:12]})
    ctx.hypotheses["POSIX file semantics; encoding_rs codecs for legacy code pages"] = "binary on temporary files; syscall trace of each mode compared with the modelled operation sequence"


def run_c17(ctx):
    run_file_layer(ctx, "C17")
    ctx.hypotheses["legacy code pages: encoding_rs = Python codec on the sampled characters"] = "byte-level differential; UTF-8/16 additionally against the Coq codec"


def run_c18(ctx):
    rng = ctx.rng
    import shutil
    wd = cli.workdir("C18")
    ctx.workdirs.append(wd)
    ecfg = cli.empty_cfg(wd)
    n_dirs = ctx.n(6, 60)
    for di in range(n_dirs):
        texts = cli_contents(ctx, rng.randrange(8, 40))
        big = "\n".join(rng.choice(gen.seeds())["text"] for _ in range(rng.randrange(50, 400)))
        texts.append(big)
        specs = []
        for i, t in enumerate(texts):
            enc, codec, bom, _ = rng.choice(ENCODINGS[:4])
            try:
                data = bom + t.encode(codec)
            except UnicodeEncodeError:
                data = t.encode("utf-8")
            # names that differ only in letter case, in the extension's case, or that contain blanks and non-ASCII letters,
            # and sub-directories: every one of them is a file of its own
            name = "f%03d.pas" % i
            if i % 7 == 1 and i + 1 < len(texts):
                name = "Unit%d.pas" % i
            elif i % 7 == 2:
                name = "unit%d.pas" % (i - 1)
            elif i % 7 == 3:
                name = "UNIT%d.PAS" % (i - 2)
            elif i % 7 == 4:
                name = "sub dir/Ünit %d.pas" % i
            elif i % 7 == 5:
                name = "sub dir/ünit %d.pas" % (i - 1)
            specs.append((name, data))
        # failing files: undecodable content, a directory with a .pas name (open for write fails), a missing path
        specs.append(("bad_utf8.pas", b"begin \xff\xfe end."))
        solo = {}
        sd = os.path.join(wd, "solo%d" % di)
        os.makedirs(sd)
        for name, data in specs:
            p = os.path.join(sd, name)
            os.makedirs(os.path.dirname(p), exist_ok=True)
            open(p, "wb").write(data)
            rc, so, se = cli.run(["--config-file", ecfg, p], sd)
            solo[name] = (open(p, "rb").read(), rc)
        for threads in ctx.n([1, 3, 16], [1, 2, 3, 4, 8, 16]):
            for rep in range(ctx.n(1, 3)):
                bd = os.path.join(wd, "batch%d_%d_%d" % (di, threads, rep))
                os.makedirs(os.path.join(bd, "isdir.pas"))
                for name, data in specs:
                    os.makedirs(os.path.dirname(os.path.join(bd, name)), exist_ok=True)
                    open(os.path.join(bd, name), "wb").write(data)
                args = ["--config-file", ecfg, bd, os.path.join(bd, "missing.pas")]
                rc, so, se = cli.run(args, bd, env={"RAYON_NUM_THREADS": str(threads)})
                ctx.count("batch_runs")
                case = ctx.case("batch", ("dir %d threads %d" % (di, threads)), gen.DEFAULT_CFG)
                ctx.note_case(case)
                bad = [name for name, data in specs if open(os.path.join(bd, name), "rb").read() != solo[name][0]]
                if bad:
                    ctx.fail("batch_differs_from_solo", case, "threads=%d: %d files differ from their solo result: %s" % (threads, len(bad), bad[:5]))
                if rc == 0:
                    ctx.fail("batch_exit_zero_with_failures", case, "a batch with an undecodable and a missing file exited 0")
                shutil.rmtree(bd, ignore_errors=True)
        # a batch without failing files exits zero
        gd = os.path.join(wd, "good%d" % di)
        os.makedirs(gd)
        for name, data in specs[:-1]:
            os.makedirs(os.path.dirname(os.path.join(gd, name)), exist_ok=True)
            open(os.path.join(gd, name), "wb").write(data)
        rc, so, se = cli.run(["--config-file", ecfg, gd], gd, env={"RAYON_NUM_THREADS": "8"})
        if rc != 0:
            ctx.fail("batch_exit_nonzero_without_failures", None, "rc=%d stderr=%r" % (rc, se[-300:]))
        shutil.rmtree(gd, ignore_errors=True)
        shutil.rmtree(sd, ignore_errors=True)
        if len(ctx.samples) < 4:
            ctx.samples.append({"files": len(specs), "largest_bytes": max(len(d) for _, d in specs), "threads": "1,3,16"})
    many_failures(ctx, wd, ecfg)
    ctx.hypotheses["real rayon interleavings"] = "sampled (thread counts x repetitions), not enumerated; the model theorem covers every interleaving of the modelled steps"
    ctx.hypotheses["process-wide state = {AtomicPtr CPU dispatch, AtomicBool exit flag}"] = "generated inventory proved equal to the modelled set (inventory_shared_state)"


def run_c19(ctx):
    rng = ctx.rng
    import shutil
    wd = cli.workdir("C19")
    ctx.workdirs.append(wd)
    # (every option must be observable on the input: a line to wrap, nested blocks, a `begin` to place, a multi-line literal to re-indent)
    src = b"begin\n  if A then begin\n    Foo(aaaaaaaaaaaa, bbbbbbbbbbbbb, cccccccccccc, dddddddddddd);\n      Query := '''\n    select *\n      from t\n    ''';\n  end;\nend.\n"
    # "the defaults" are the documented ones: what `-C help` tells the user.  The reference run spells out EVERY option, the documented
    # default for each one the case leaves unset, so that a default that silently differs from its documentation is a difference
    rc0, helptext, _ = cli.run(["-C", "help"], wd)
    DOC_DEFAULTS = dict(re.findall(r"^(\w+) .*\(default: ([^)\s]+)\)\s*$", helptext.decode("utf-8", "replace"), re.M))
    ctx.count("documented_defaults", len(DOC_DEFAULTS))
    if rc0 != 0 or not set(["wrap_column", "begin_style", "format_multiline_strings", "use_tabs", "tab_width", "continuation_indents", "line_ending"]) <= set(DOC_DEFAULTS):
        ctx.fail("config_help_unreadable", ctx.case("cfg", "-C help", gen.DEFAULT_CFG), "`-C help` does not list a default for every option: %r" % DOC_DEFAULTS)
    KEYS = {"wrap_column": [20, 40, 80, 120], "begin_style": ['"auto"', '"always_wrap"'], "format_multiline_strings": ["true", "false"],
            "use_tabs": ["true", "false"], "tab_width": [1, 2, 4, 8], "continuation_indents": [0, 1, 2, 3], "line_ending": ['"lf"', '"crlf"']}

    def fmt_with(assign, cwd, extra=None):
        """reference: everything through -C with an explicit empty config file"""
        args = ["--config-file", cli.empty_cfg(wd)]
        full = dict(DOC_DEFAULTS)
        full.update(assign)
        for k, v in full.items():
            args += ["-C", "%s=%s" % (k, str(v).strip('"'))]
        return cli.run(args + (extra or []), cwd, stdin=src)

    n = ctx.n(40, 600)
    for it in range(n):
        depth = rng.randrange(1, 6)
        root = os.path.join(wd, "t%d" % it)
        comps = ["d%d" % i for i in range(depth)]
        cwd = os.path.join(root, *comps)
        os.makedirs(cwd)
        assign = {k: rng.choice(v) for k, v in KEYS.items() if rng.random() < 0.7}
        keys = list(assign)
        rng.shuffle(keys)
        cut = rng.randrange(0, len(keys) + 1)
        in_file, on_cli = keys[:cut], keys[cut:]
        # the nearest file carries `in_file`; a farther file carries decoys that must be ignored
        level = rng.randrange(0, depth + 1)
        near = os.path.join(root, *comps[:level])
        with open(os.path.join(near, "pasfmt.toml"), "w") as f:
            for k in in_file:
                f.write("%s = %s\n" % (k, assign[k]))
        if level > 0 and rng.random() < 0.6:
            far = os.path.join(root, *comps[:rng.randrange(0, level)])
            with open(os.path.join(far, "pasfmt.toml"), "w") as f:
                f.write("wrap_column = 33\ntab_width = 7\n")
        args = []
        for k in on_cli:
            args += ["-C", "%s=%s" % (k, str(assign[k]).strip('"'))]
        # keys in the file overridden on the command line
        for k in in_file:
            if rng.random() < 0.2:
                other = rng.choice(KEYS[k])
                args += ["-C", "%s=%s" % (k, str(other).strip('"'))]
                assign[k] = other
        use_option = rng.random() < 0.4
        decoy = None
        if use_option and rng.random() < 0.6:
            # --config-file REPLACES the ancestor search: the explicit file lives elsewhere, and the working directory
            # (or an ancestor) holds a pasfmt.toml with other values for every key - sometimes with an unknown key or an
            # ill-typed value, which must not matter because that file is not the selected one
            optdir = os.path.join(root, "opt")
            os.makedirs(optdir, exist_ok=True)
            explicit = os.path.join(optdir, rng.choice(["explicit.toml", "pasfmt.toml", "my.cfg"]))
            os.replace(os.path.join(near, "pasfmt.toml"), explicit)
            decoy = rng.choice(["values", "values", "unknown_key", "ill_typed"])
            with open(os.path.join(near, "pasfmt.toml"), "w") as f:
                for k, vs in KEYS.items():
                    f.write("%s = %s\n" % (k, rng.choice(vs)))
                if decoy == "unknown_key":
                    f.write("no_such_key = 1\n")
                elif decoy == "ill_typed":
                    f.write("encoding = 17\n")
            args = ["--config-file", explicit] + args
            run_cwd = cwd
        elif use_option:
            args = ["--config-file", os.path.join(near, "pasfmt.toml")] + args
            run_cwd = wd
        else:
            run_cwd = cwd
        rc, out, err = cli.run(args, run_cwd, stdin=src)
        rc2, ref, err2 = fmt_with(assign, wd)
        case = ctx.case("cfg", "depth %d level %d file=%s cli=%s option=%s decoy=%s" % (depth, level, in_file, on_cli, use_option, decoy), gen.DEFAULT_CFG)
        ctx.note_case(case)
        ctx.count("precedence_cases")
        if len(ctx.samples) < 5:
            ctx.samples.append({"depth": depth, "file_level": level, "in_file": in_file, "on_cli": on_cli, "config_file_option": use_option})
        if rc != 0 or rc2 != 0 or out != ref:
            ctx.fail("config_precedence", case, "effective configuration %r given as file(level %d)=%s + -C %s (%s) formats differently from the same values given by -C only (rc=%d/%d) stderr=%r" % (
                assign, level, in_file, on_cli, "--config-file" if use_option else "ancestor search", rc, rc2, err[-200:]),
                observed=out.hex()[:600], expected=ref.hex()[:600])
        shutil.rmtree(root, ignore_errors=True)
    # rejection: unknown keys, ill-typed values, missing --config-file, a directory as --config-file; no file is touched
    rd = os.path.join(wd, "reject")
    os.makedirs(rd)
    victim = os.path.join(rd, "v.pas")
    bad_cases = [(["-C", "no_such_key=1"], None), (["-C", "wrap_column=abc"], None), (["-C", "tab_width=300"], None), (["-C", "tab_width=-1"], None),
                 (["-C", "begin_style=sometimes"], None), (["-C", "use_tabs=maybe"], None), (["-C", "line_ending=cr"], None), (["-C", "encoding=no-such-enc"], None),
                 (["--config-file", os.path.join(rd, "missing.toml")], None), (["--config-file", rd], None),
                 # --config-file must be a REGULAR file: a character device and a symbolic link to one are not
                 (["--config-file", "/dev/null"], None), (["--config-file", os.path.join(rd, "null_link.toml")], None),
                 ([], "unknown_key = 1\n"), ([], "wrap_column = \"wide\"\n"), ([], "[section]\nwrap_column = 1\n"), ([], "wrap_column = 1\nwrap_column = 2\n")]
    try:
        os.symlink("/dev/null", os.path.join(rd, "null_link.toml"))
    except OSError:
        pass
    for args, filetext in bad_cases:
        open(victim, "wb").write(b"begin  end.")
        cfgp = os.path.join(rd, "pasfmt.toml")
        if filetext is not None:
            open(cfgp, "w").write(filetext)
        elif os.path.exists(cfgp):
            os.remove(cfgp)
        rc, so, se = cli.run(args + [victim], rd)
        ctx.count("rejection_cases")
        case = ctx.case("reject", "args=%r file=%r" % (args, filetext), gen.DEFAULT_CFG)
        ctx.note_case(case)
        if rc == 0:
            ctx.fail("invalid_config_accepted", case, "invalid configuration %r / %r exited 0" % (args, filetext))
        if open(victim, "rb").read() != b"begin  end.":
            ctx.fail("invalid_config_touched_file", case, "a file was modified although the configuration was rejected")
    # ill-typed values of the kinds the `config` crate coerces (finding F35): a bool or a float for an integer key, a
    # word or a number for a bool key, a one-key table for an enum key
    LENIENT = [([], "wrap_column = true\n"), ([], "wrap_column = 80.6\n"), (["-C", "wrap_column=yes"], None), (["-C", "tab_width=on"], None),
               ([], 'use_tabs = "on"\n'), ([], "use_tabs = 1\n"), (["-C", "use_tabs=1"], None), (["-C", "line_ending.crlf=zzz"], None), ([], "continuation_indents = 2.0\n")]
    for args, filetext in LENIENT:
        open(victim, "wb").write(b"begin  end.")
        cfgp = os.path.join(rd, "pasfmt.toml")
        if filetext is not None:
            open(cfgp, "w").write(filetext)
        elif os.path.exists(cfgp):
            os.remove(cfgp)
        rc, so, se = cli.run(args + [victim], rd)
        ctx.count("rejection_cases")
        case = ctx.case("reject-coercible", "args=%r file=%r" % (args, filetext), gen.DEFAULT_CFG)
        ctx.note_case(case)
        if rc == 0:
            ctx.fail("invalid_config_accepted", case, "ill-typed value %r / %r exited 0" % (args, filetext), value_class="coercible")
    ctx.hypotheses["clap / toml / serde / config crate behaviour"] = "the binary run from nested working directories; options split arbitrarily between file, --config-file and -C"


PROPS["C16"] = Spec(
    thorough_rounds=2,
    coq_targets=["theories/Properties/C16.v"], module="Properties.C16",
    theorems=["C16_write_then_truncate", "C16_files_mode_eq_stdout", "C16_files_mode_eq_stdout_utf", "C16_legacy_noncanonical_refuted", "C16_check_iff_fixed",
              "C16_ro_modes_no_write", "C16_decode_error_no_write", "C16_encode_error_file_state"],
    run=run_c16,
    rule="file contents (already formatted, results shorter / longer / equal, empty, non-ASCII) x encodings/BOMs x modes {files, stdin->stdout, check, stdout} on the real binary; path forms file / directory / glob / --files-from; malformed inputs; syscall trace of each mode",
    explanation="Theorems over the file-layer model (POSIX file operations, mode operation sequences): write-then-truncate leaves exactly the new bytes for every old length, files mode = stdin->stdout bytes (proviso proved for UTF-8/16, refuted for non-canonical legacy bytes, F8), check fails iff text differs from its formatting, read-only modes cannot write, decode/encode errors leave the file untouched. The model's predictions for files/stdin/check/stdout modes are compared with the real binary on every UTF case; the syscall sequence of each mode is compared with the modelled sequence.",
    assumptions=["file system and codec contracts (encoding_rs) for legacy code pages"],
)
PROPS["C17"] = Spec(
    thorough_rounds=2,
    coq_targets=["theories/Properties/C17.v"], module="Properties.C17",
    theorems=["C17_utf8_decode_encode", "C17_utf8_encode_decode", "C17_utf16le_decode_encode", "C17_utf16be_decode_encode", "C17_utf16le_encode_decode",
              "C17_utf16be_encode_decode", "C17_bom_decides_encoding", "C17_bom_preserved", "C17_bytes_written_spec", "C17_malformed_rejected", "C17_utf_roundtrip_identity"],
    run=run_c17,
    rule="texts (ASCII, Latin, Cyrillic, CJK, Hangul samples) x {UTF-8, UTF-8+BOM, UTF-16LE/BE via BOM (also with a conflicting configured encoding), UTF-16LE/BE configured, windows-1252, shift_jis, gbk, big5, euc-kr, windows-1251} x file and stdin paths; malformed inputs per encoding",
    explanation="Theorems: UTF-8 and both hand-written UTF-16 codecs round-trip in both directions, the BOM decides and is preserved, bytes written = BOM ++ encode(format(decode body)), malformed input is rejected, unchanged text re-encodes to the original bytes. The model (UTF encodings) is compared with the binary byte for byte; legacy code pages are checked against the formula with Python codecs.",
    assumptions=["legacy codecs are parameters of the model"],
)
PROPS["C18"] = Spec(
    thorough_rounds=2,
    coq_targets=["theories/Properties/C18.v"], module="Properties.C18",
    theorems=["C18_clear_makes_history_irrelevant", "C18_no_clear_refuted", "C18_batch_eq_solo", "C18_batch_exit_code", "C18_duplicates_refuted"],
    run=run_c18,
    rule="directories of 10-40 files of mixed sizes (incl. one of 50-400 concatenated seeds), encodings and BOMs, with an undecodable file, a directory named *.pas and a missing path; RAYON_NUM_THREADS in {1,3,16} (quick) / {1,2,3,4,8,16} x 3 repetitions (thorough); compared with one invocation per file",
    explanation="Theorem over the batch model: for duplicate-free paths, any worker assignment and ANY interleaving of the read / write / set_len steps of distinct files, every file ends as in its solo run, unlisted files are untouched and the error flag is set iff some file failed; the buffer clear makes history irrelevant (and its absence is refuted); duplicate paths are refuted (F12, model level). Real schedules are sampled by varying the thread count; the process-wide state inventory is proved equal to the modelled set.",
    assumptions=["rayon's real interleavings are sampled, not enumerated"],
)
PROPS["C19"] = Spec(
    thorough_rounds=2,
    coq_targets=["theories/Properties/C19.v", "theories/Proofs/PipelineProofs.v"], module="Properties.C19",
    theorems=["C19_find_config_nearest", "C19_find_config_probes", "C19_override_wins", "C19_file_over_defaults", "C19_defaults_last",
              "C19_option_file_wins", "C19_missing_option_file_is_error"],
    run=run_c19,
    rule="working directories at depth 1-5, pasfmt.toml at a random ancestor level with a decoy farther up, a random subset of the 7 formatting options split arbitrarily between file and -C (with overriding duplicates), --config-file in 30%; compared with the same effective values given by -C only; 14 invalid configurations (unknown keys, ill-typed values, missing or directory --config-file, malformed toml)",
    explanation="Thin model (the real work is in clap/serde/config): the ancestor search returns the deepest ancestor with pasfmt.toml in at most depth+1 probes; the last -C wins over the file, the file over the defaults; --config-file wins and must exist. The property is decided by the differential run of the real binary: equal effective configurations give byte-identical output however specified; invalid configurations exit non-zero before any file is touched.",
    assumptions=["clap, toml, serde, config crates are parameters"],
)
