"""Driving the real pasfmt binary on temporary files (C16-C19)."""
import os, subprocess, shutil, tempfile, re
from concurrent.futures import ThreadPoolExecutor
from . import build

BASE_ENV = dict(build.ENV)
BASE_ENV.pop("RUST_BACKTRACE", None)
BASE_ENV["RUST_BACKTRACE"] = "0"


def workdir(tag):
    d = os.path.join(build.CACHE, "run", "cli_%s_%d" % (tag, os.getpid()))
    shutil.rmtree(d, ignore_errors=True)
    os.makedirs(d)
    return d


def empty_cfg(d):
    p = os.path.join(d, "empty.toml")
    if not os.path.exists(p):
        open(p, "w").close()
    return p


def run(args, cwd, stdin=None, env=None, timeout=120):
    e = dict(BASE_ENV)
    if env:
        e.update(env)
    p = subprocess.run([build.PASFMT] + args, cwd=cwd, input=stdin if stdin is not None else None,
                       stdin=None if stdin is not None else subprocess.DEVNULL,
                       stdout=subprocess.PIPE, stderr=subprocess.PIPE, env=e, timeout=timeout)
    return p.returncode, p.stdout, p.stderr


def pmap(fn, items, workers=None):
    with ThreadPoolExecutor(max_workers=workers or build.NPROC) as ex:
        return list(ex.map(fn, items))


def cfg_args(cfg, encoding=None):
    """-C options for a configuration tuple (wrap, begin, fms, tabs, tw, ci, crlf)"""
    a = ["-C", "wrap_column=%d" % cfg[0], "-C", "begin_style=%s" % ("always_wrap" if cfg[1] else "auto"),
         "-C", "format_multiline_strings=%s" % ("true" if cfg[2] else "false"), "-C", "use_tabs=%s" % ("true" if cfg[3] else "false"),
         "-C", "tab_width=%d" % cfg[4], "-C", "continuation_indents=%d" % cfg[5], "-C", "line_ending=%s" % ("crlf" if cfg[6] else "lf")]
    if encoding:
        a += ["-C", "encoding=%s" % encoding]
    return a


def strace_ops(args, cwd, target):
    """runs the binary under strace and returns the list of (syscall, detail) touching `target`"""
    tf = os.path.join(cwd, "strace.out")
    cmd = ["strace", "-f", "-o", tf, "-e", "trace=openat,open,read,write,pwrite64,lseek,ftruncate,truncate,unlink,rename,renameat,close"] + [build.PASFMT] + args
    p = subprocess.run(cmd, cwd=cwd, stdin=subprocess.DEVNULL, stdout=subprocess.PIPE, stderr=subprocess.PIPE, env=BASE_ENV, timeout=120)
    ops = []
    fds = {}
    try:
        lines = open(tf, errors="replace").read().splitlines()
    except OSError:
        return None
    base = os.path.basename(target)
    # with -f, a system call of one thread that overlaps another thread's is printed in two pieces
    # (`pid write(3, ... <unfinished ...>` / `pid <... write resumed>...) = 26`): join them first
    pending, joined = {}, []
    for ln in lines:
        mu = re.match(r"^(\d+)\s+(\w+)\((.*)<unfinished \.\.\.>\s*$", ln)
        if mu:
            pending[mu.group(1)] = (mu.group(2), mu.group(3))
            continue
        mr = re.match(r"^(\d+)\s+<\.\.\. (\w+) resumed>(.*)$", ln)
        if mr and mr.group(1) in pending and pending[mr.group(1)][0] == mr.group(2):
            sc0, pre = pending.pop(mr.group(1))
            joined.append("%s %s(%s%s" % (mr.group(1), sc0, pre, mr.group(3)))
            continue
        joined.append(ln)
    for ln in joined:
        m = re.match(r"^(\d+)\s+(\w+)\((.*)\)\s+=\s+(-?\d+)", ln)
        if not m:
            continue
        pid, sc, argstr, ret = m.group(1), m.group(2), m.group(3), int(m.group(4))
        if sc in ("openat", "open") and base in argstr and ret >= 0:
            flags = "RDWR" if "O_RDWR" in argstr else "WRONLY" if "O_WRONLY" in argstr else "RDONLY"
            if "O_TRUNC" in argstr:
                flags += "|TRUNC"
            if "O_CREAT" in argstr:
                flags += "|CREAT"
            fds[ret] = True
            ops.append(("open", flags))
        elif sc in ("read", "write", "pwrite64", "lseek", "ftruncate", "close"):
            fd = int(argstr.split(",")[0]) if argstr.split(",")[0].strip().isdigit() else -1
            if fd in fds:
                if sc == "close":
                    fds.pop(fd, None)
                    ops.append(("close", ""))
                elif sc == "read":
                    ops.append(("read", ret))
                elif sc in ("write", "pwrite64"):
                    ops.append(("write", ret))
                elif sc == "lseek":
                    ops.append(("lseek", argstr.split(",", 1)[1].strip()))
                elif sc == "ftruncate":
                    ops.append(("ftruncate", argstr.split(",", 1)[1].strip()))
        elif sc in ("truncate", "unlink", "rename", "renameat") and base in argstr:
            ops.append((sc, argstr))
    return ops
