"""Known findings (DESIGN.md §9): /verif/known_findings.json is committed and never written at run time.
A failure is attributed to a finding only if the finding's class detector holds on it."""
import json, os, re

ROOT = os.path.dirname(os.path.dirname(os.path.dirname(os.path.abspath(__file__))))


def load():
    p = os.path.join(ROOT, "known_findings.json")
    if not os.path.exists(p):
        return []
    return [f for f in json.load(open(p))["findings"]]


def _text(fail):
    try:
        return bytes.fromhex(fail.get("input_hex", "")).decode("utf-8", "replace")
    except ValueError:
        return ""


# ---- class detectors: (failure dict) -> bool --------------------------------------------------

def cr_after_line_comment_in_region(fail):
    """F2: inside a verbatim region a `//` comment is terminated by a lone CR"""
    t = _text(fail)
    return fail.get("kind") in ("region_not_verbatim", "c08_in_region") and re.search(r"//[^\r\n]*\r(?!\n)", t) is not None


def literal_then_gap(fail):
    """F4: the gap after a literal / Unknown token keeps min(1, original spaces)"""
    return fail.get("kind") == "relayout_differs" and fail.get("gap_class") == "literal"


def mlstring_in_child_line_reflow(fail):
    """F6: reflow of a line whose child lines were cached before a multi-line string was re-indented"""
    t = _text(fail)
    fam = fail.get("ml_families") or {}
    # the stale cache holds CHILD-line solutions: a literal whose line family has no child lines is outside the class
    return fail.get("kind") == "not_idempotent" and "'''" in t and fam.get("in_family_with_children", 0) > 0


def trailing_exotic_blank_in_line_comment(fail):
    """F3: `//` comment ending in a blank that trim_ascii_end does not trim"""
    return fail.get("kind") == "trailing_blank" and fail.get("token_class") == "line_comment_exotic_blank"


def unterminated_literal_trailing_blank(fail):
    """F7"""
    return fail.get("kind") == "trailing_blank" and fail.get("token_class") == "unterminated_literal"


def continuation_saturates(fail):
    """F13: tab_width * continuation_indents > 255"""
    cfg = fail.get("cfg") or []
    return fail.get("kind") in ("indent_not_unit_multiple", "tabs_vs_spaces") and len(cfg) >= 6 and cfg[3] == 0 and cfg[4] * cfg[5] > 255


def nesting_depth(fail):
    """F11: stack exhaustion at extreme nesting depth"""
    return fail.get("kind") == "abort" and fail.get("site") == "stack-overflow" and fail.get("depth", 0) >= 10000


def nested_anonymous_routines_unclosed_paren(fail):
    """F34: super-polynomial time when an unclosed `(` precedes a nested routine inside >= 4 levels of nested
    anonymous routines (every level's bounded child-line search is repeated inside its parent's)"""
    if fail.get("kind") != "hang":
        return False
    t = _text(fail)
    anon_heads = len(re.findall(r"(?mi)^[ \t]*(?:\w+[ \t]*:=[ \t]*)?(?:procedure|function)[ \t]*(?:\([^)\n]*\))?[ \t]*(?::[ \t]*\w+)?[ \t]*$", t))
    return anon_heads >= 4 and t.count("(") > t.count(")")


def children_of_voided_parent(fail):
    """F41: a line all of whose tokens lie in a disabled region is voided; its child lines (the body of the `if`, the
    anonymous routine, ...) that are NOT in the region are never visited by the wrapper and keep their source layout"""
    return fail.get("kind") in ("plan_not_canonical", "two_blank_lines", "indent_not_unit_multiple", "leading_blank_line", "no_final_newline") \
        and fail.get("voided_parent") is True


def equal_penalty_solutions(fail):
    """F43: both widths solve every differing line with the same penalty: the search has two equally valued solutions and the
    order of exploration (which depends on the limit) picks one"""
    return fail.get("kind") == "width_is_style_switch" and fail.get("equal_penalty_tie") is True


def wider_more_lines_only_by_a_kept_blank_line(fail):
    """F45: nothing overflows and the wider result has no more NON-blank lines than the narrower one: the extra line is a blank line of
    the input that survives only where the child line it precedes is broken off (which happens at the wider limit only)"""
    return fail.get("kind") == "wider_more_lines" and fail.get("narrow_overflows") is False and fail.get("wide_overflows") is False \
        and isinstance(fail.get("nonblank_lines_wide"), int) and fail.get("nonblank_lines_wide") <= fail.get("nonblank_lines_narrow", -1)


def line_without_solution(fail):
    """F42: the token's logical line got no solution from the search (none / iteration limit) and keeps its source layout"""
    return fail.get("kind") in ("plan_not_canonical", "leading_blank_line", "two_blank_lines") and fail.get("no_solution_line") is True


_C05_KINDS = ("statement_not_on_own_line", "statement_wrong_indentation")


def first_member_named_like_class_modifier(fail):
    """F36: the first field of a class is named `Sealed` or `Abstract`: the name is taken for the class modifier"""
    return fail.get("kind") in _C05_KINDS and re.search(r"(?i)\bclass\s+(sealed|abstract)\s*:", _text(fail)) is not None


def comparison_inside_array_bounds(fail):
    """F47: a `<` comparison inside the square brackets of an array type (`array[A < B .. C < D]`) is taken for the opening of a
    generic argument list that never closes: the declarations after it stay on its line"""
    return fail.get("kind") in _C05_KINDS and re.search(r"(?i)\barray\s*\[[^\]]*\w\s*<\s*\w[^\]>]*\]", _text(fail)) is not None


def anonymous_routine_inside_raise(fail):
    """F37: an anonymous routine in the expression of a `raise` statement is skipped as a parenthesised pair"""
    return fail.get("kind") in _C05_KINDS and re.search(r"(?i)\braise\b[^;]*\b(procedure|function)\b", _text(fail)) is not None


def comment_between_control_keyword_and_begin(fail):
    """F38: an own-line comment between then/do/else and the `begin` of the body"""
    return fail.get("kind") in _C05_KINDS and re.search(r"(?is)\b(then|do|else)\b[ \t]*\r?\n[ \t]*(//[^\n]*|\{[^}$][^}]*\}|\(\*.*?\*\))[ \t]*\r?\n[ \t]*begin\b", _text(fail)) is not None


def config_value_coerced(fail):
    """F35: ill-typed configuration values of the kinds the `config` crate coerces instead of rejecting"""
    return fail.get("kind") == "invalid_config_accepted" and fail.get("value_class") == "coercible"


def cursor_mid_char_changed_token(fail):
    """F9: cursor at/inside a token whose text changed and contains non-ASCII"""
    return fail.get("kind") == "cursor_not_on_char_boundary" and fail.get("token_class") == "changed_token"


def cursor_u16_truncation(fail):
    """F19"""
    return fail.get("kind") == "cursor_moved_in_unchanged_token" and fail.get("token_class") == "span_gt_65535"


def mlstring_last_terminator_lone_cr(fail):
    """F5"""
    return fail.get("kind") == "mlstring_not_reindented" and fail.get("token_class") == "cr"


def noncanonical_legacy_bytes(fail):
    """F8"""
    return fail.get("kind") == "file_vs_stdout" and fail.get("noncanonical") is True


def own_line_comment_at_decision_point(fail):
    """F21"""
    t = _text(fail)
    return fail.get("kind") in ("no_final_newline", "statement_not_on_own_line", "eof_line", "lines_not_covering") and re.search(r"\bclass\s*[\r\n]+\s*(\{[^}]*\}|\(\*.*?\*\)|//[^\n]*)\s*[\r\n]+\s*;", t, re.S) is not None


def wider_more_lines_in_overflow_regime(fail):
    """F24: some line cannot fit the narrower limit at all (forced overflow): penalties of overflowing
    solutions are traded against break penalties and widening can add a line"""
    return fail.get("kind") == "wider_more_lines" and fail.get("narrow_overflows") is True


def wider_more_lines_cheaper_break_kind(fail):
    """F26: clause 2 of C11 is false for a penalty-based wrapper: a cheaper kind of break (e.g. inside
    the parameter list, 3 per break) can become feasible only at the wider limit and is then preferred
    to a more expensive single break (before the return type, 2^8) although it needs more lines"""
    # class condition: the narrower result pays for one of the expensive break kinds (2^8 before a routine's result
    # type, 2^9 before a routine directive, 2^10 inside angle brackets) that the wider result avoids by more cheap breaks
    return fail.get("kind") == "wider_more_lines" and fail.get("narrow_overflows") is False and fail.get("narrow_expensive_break") is True


def overflow_only_by_a_line_start_token(fail):
    """F46: every over-long line of the wider result is over-long already with its FIRST token alone (indentation + that token exceed
    the limit): the search never charges the token that starts a line (C11_line_start_overflow_is_free_witness), so at the wider limit
    it prefers cheap breaks whose last line begins past the limit to the expensive break that fits"""
    if fail.get("kind") != "fits_not_monotone" or not fail.get("over_lines") or fail.get("over_count", 0) > len(fail["over_lines"]):
        return False
    from . import gen as _g
    w = fail.get("wide")
    for prev, line in fail["over_lines"]:
        body = line.lstrip(" \t")
        toks = [t for k, t in _g.tokenize(body) if k != "ws"]
        if not toks:
            return False
        ind = len(line.encode("utf-8")) - len(body.encode("utf-8"))
        if ind + len(toks[0].encode("utf-8")) <= w:
            return False
    return True


def overflow_by_closers_after_line_comment(fail):
    """F30: a continuation line that follows a trailing `//` comment and holds an inline child line
    (`(A, B);` of a variant-record arm, an anonymous routine ...) exceeds the limit only by its closing
    punctuation: the search prunes the fitting alternative (child line broken) by best-penalty-per-token
    before the closers are measured"""
    if fail.get("kind") != "fits_not_monotone" or not fail.get("over_lines") or fail.get("over_count", 0) > len(fail["over_lines"]):
        return False
    w = fail.get("wide")
    for prev, line in fail["over_lines"]:
        b = line.encode("utf-8")
        rest = b[w:].decode("utf-8", "replace")
        if "//" not in prev or not re.fullmatch(r"[)\];,.]+", rest) or not re.search(r"[(\[]", line):
            return False
    return True


def mlstring_width_dependence(fail):
    """F25: a multi-line string inside a wrapped line: the wrapper measures the literal's last line
    around its re-indentation, so the chosen wrapping of what follows the literal depends on the limit
    even when everything fits (same root as F6)"""
    fam = fail.get("ml_families") or {}
    # (the same stale child-line measures can also leave a line over the limit or add a line: all three clauses)
    return (fail.get("kind") in ("width_is_style_switch", "fits_not_monotone", "wider_more_lines") and "'''" in _text(fail)
            and fam.get("in_family_with_children", 0) > 0)


def lone_cr_after_line_comment(fail):
    """F28: `//` comment terminated by a lone CR; the following comment is typed inline"""
    return fail.get("kind") in ("plan_not_canonical", "indent_not_unit_multiple", "layout_violates_invariant") and re.search(r"//[^\r\n]*\r(?!\n)", _text(fail)) is not None


def witness_inputs(prop):
    """known findings of this property that carry a concrete input witness: (id, text, cfg or None, cursors or None, witness dict)"""
    out = []
    for k in load():
        # known findings: expected to fail (KNOWN-FINDING); fixed findings: regression inputs that must pass
        if k.get("status") not in ("known", "fixed"):
            continue
        if prop not in k.get("properties", [k.get("property")]):
            continue
        w = k.get("witness") or {}
        if "input" in w:
            out.append((k["id"], w["input"], w.get("cfg"), w.get("cursors"), w))
    return out


DETECTORS = {f.__name__: f for f in [comparison_inside_array_bounds, overflow_only_by_a_line_start_token, wider_more_lines_only_by_a_kept_blank_line, equal_penalty_solutions, line_without_solution, children_of_voided_parent, first_member_named_like_class_modifier, anonymous_routine_inside_raise, comment_between_control_keyword_and_begin, config_value_coerced, nested_anonymous_routines_unclosed_paren, lone_cr_after_line_comment, overflow_by_closers_after_line_comment, wider_more_lines_in_overflow_regime, wider_more_lines_cheaper_break_kind, mlstring_width_dependence,
    cr_after_line_comment_in_region, literal_then_gap, mlstring_in_child_line_reflow,
    trailing_exotic_blank_in_line_comment, unterminated_literal_trailing_blank, continuation_saturates,
    nesting_depth, cursor_mid_char_changed_token, cursor_u16_truncation, mlstring_last_terminator_lone_cr,
    noncanonical_legacy_bytes, own_line_comment_at_decision_point]}


def match(kf, prop, fail):
    for k in kf:
        if k.get("status") != "known":
            continue
        if prop not in k.get("properties", [k.get("property")]):
            continue
        det = DETECTORS.get(k.get("class", ""))
        if det is not None and det(fail):
            return k
    return None
