"""Build steps shared by all checks: translator, Coq (full .vo), extraction + OCaml driver, Rust harness.
Everything lands under /verif/.cache; one build at a time (file lock)."""
import os, sys, subprocess, json, glob, fcntl, time, re, shutil, hashlib

ROOT = os.path.dirname(os.path.dirname(os.path.dirname(os.path.abspath(__file__))))
CACHE = os.path.join(ROOT, ".cache")
COQ = os.path.join(ROOT, "coq")
EXTRACT = os.path.join(CACHE, "extract")
REPO = os.environ.get("VERIF_REPO", "/repo")
# one cargo target directory per source tree: two trees built into the same directory share the file name of the final binary
# (target/release/pasfmt), and cargo does not link it again when it switches back to a tree whose build is still fresh - a run on
# /repo after a run on a scratch tree (tools/seedcheck.py) would silently use the scratch tree's binary
TARGET = os.path.join(CACHE, "target" if os.path.realpath(REPO) == "/repo" else "target-" + hashlib.sha1(os.path.realpath(REPO).encode()).hexdigest()[:8])
NPROC = os.cpu_count() or 8

ENV = dict(os.environ)
ENV.update({"CARGO_NET_OFFLINE": "true", "CARGO_TARGET_DIR": TARGET, "RUST_BACKTRACE": "0"})
ENV.pop("RUSTFLAGS", None)


class BuildError(Exception):
    def __init__(self, stage, detail):
        super().__init__(f"{stage}: {detail[:2000]}")
        self.stage = stage
        self.detail = detail


class Lock:
    def __init__(self, name):
        os.makedirs(CACHE, exist_ok=True)
        self.path = os.path.join(CACHE, name + ".lock")

    def __enter__(self):
        self.f = open(self.path, "w")
        fcntl.flock(self.f, fcntl.LOCK_EX)
        return self

    def __exit__(self, *a):
        fcntl.flock(self.f, fcntl.LOCK_UN)
        self.f.close()


def run(cmd, cwd=None, timeout=1800, env=None, check=True, stage="cmd"):
    try:
        p = subprocess.run(cmd, cwd=cwd, env=env or ENV, stdout=subprocess.PIPE, stderr=subprocess.STDOUT,
                           timeout=timeout, text=True, errors="replace")
    except subprocess.TimeoutExpired as e:
        raise BuildError(stage, f"timeout after {timeout}s: {' '.join(cmd)}\n{(e.stdout or '')[-2000:] if isinstance(e.stdout, str) else ''}")
    if check and p.returncode != 0:
        raise BuildError(stage, f"exit {p.returncode}: {' '.join(cmd)}\n{p.stdout[-4000:]}")
    return p


def translate():
    """regenerate Gen/*.v and driver/gen_names.ml from /repo; returns the translator's report"""
    p = run([sys.executable, os.path.join(ROOT, "gen", "rs2v.py")], check=False, stage="translator")
    try:
        rep = json.loads(p.stdout.strip().splitlines()[-1])
    except Exception:
        raise BuildError("translator", p.stdout)
    if "error" in rep:
        raise BuildError("translator", rep["error"])
    return rep


def coq_files():
    fs = []
    for d in ("Base", "Gen", "Model", "Proofs", "Properties", "Extract"):
        fs += sorted(glob.glob(os.path.join(COQ, "theories", d, "*.v")))
    return [os.path.relpath(f, COQ) for f in fs]


def coq_makefile():
    files = coq_files()
    content = "-Q theories PasfmtVerif\n" + "\n".join(files) + "\n"
    proj = os.path.join(COQ, "_CoqProject")
    old = open(proj).read() if os.path.exists(proj) else ""
    if old != content or not os.path.exists(os.path.join(COQ, "Makefile")):
        with open(proj, "w") as f:
            f.write(content)
        run(["coq_makefile", "-f", "_CoqProject", "-o", "Makefile"], cwd=COQ, stage="coq_makefile")


def coq_make(targets=None, timeout=2400):
    """full .vo build of the given targets (default: everything). Raises BuildError with coqc's message."""
    coq_makefile()
    tg = [t[:-2] + ".vo" if t.endswith(".v") else t for t in (targets or [])]
    cmd = ["make", "-j%d" % NPROC, "-k"] + tg
    p = run(cmd, cwd=COQ, timeout=timeout, check=False, stage="coq")
    if p.returncode != 0:
        raise BuildError("coq", p.stdout)
    return p.stdout


def coq_make_each(targets, timeout=2400):
    """Build targets; on failure find out which targets fail. returns {target: None | error text}"""
    res = {}
    try:
        coq_make(targets, timeout)
        return {t: None for t in targets}
    except BuildError as e:
        if e.stage != "coq":
            raise
        whole = e.detail
    for t in targets:
        try:
            coq_make([t], timeout)
            res[t] = None
        except BuildError as e:
            res[t] = e.detail
    if all(v is None for v in res.values()):
        # flaky failure of the joint build; report it on every target
        res = {t: whole for t in targets}
    return res


def print_assumptions(module, theorems, pins=None, timeout=600):
    """Runs coqc on a throw-away file that imports the property module and prints assumptions.
    returns {theorem: 'closed' | [axioms...]}; raises BuildError if the file does not compile."""
    d = os.path.join(CACHE, "assump")
    os.makedirs(d, exist_ok=True)
    name = "A_" + module.replace(".", "_")
    src = [f"From PasfmtVerif Require Import {module}."]
    for t in theorems:
        src.append(f'Goal True. idtac "@@BEGIN {t}". exact I. Qed.')
        src.append(f"Print Assumptions {t}.")
        src.append(f'Goal True. idtac "@@END {t}". exact I. Qed.')
    path = os.path.join(d, name + ".v")
    with open(path, "w") as f:
        f.write("\n".join(src) + "\n")
    p = run(["coqc", "-Q", os.path.join(COQ, "theories"), "PasfmtVerif", path], cwd=d, timeout=timeout, check=False, stage="assumptions")
    if p.returncode != 0:
        raise BuildError("assumptions", p.stdout)
    res = {}
    out = p.stdout
    for t in theorems:
        m = re.search(r"@@BEGIN %s\n(.*?)@@END %s" % (re.escape(t), re.escape(t)), out, re.S)
        if not m:
            res[t] = ["<no output>"]
            continue
        body = m.group(1)
        if "Closed under the global context" in body:
            res[t] = "closed"
        else:
            axs = re.findall(r"^([\w.']+)\s*:", body, re.M)
            res[t] = axs or ["<unparsed>"]
    return res


FORBIDDEN = re.compile(r"\b(Admitted|admit|Axiom|Parameter|Conjecture|Abort All|Admit Obligations)\b|Unset Guard Checking|Unset Positivity Checking|Unset Universe Checking|bypass_check|type-in-type|impredicative-set")


def forbidden_scan():
    """grep the Coq development for forbidden constructs (outside comments)"""
    hits = []
    for f in coq_files():
        src = open(os.path.join(COQ, f), encoding="utf-8").read()
        src = strip_coq_comments(src)
        for i, line in enumerate(src.split("\n"), 1):
            m = FORBIDDEN.search(line)
            if m:
                hits.append(f"{f}:{i}: {m.group(0)}")
            if re.match(r"\s*(Variable|Variables|Hypothesis|Hypotheses|Context)\b", line):
                # allowed only inside a Section
                if not in_section(src, i):
                    hits.append(f"{f}:{i}: section-less {line.strip()[:40]}")
    return hits


def strip_coq_comments(src):
    out, depth, i, n = [], 0, 0, len(src)
    in_str = False
    while i < n:
        if not in_str and src.startswith("(*", i):
            depth += 1
            i += 2
            continue
        if not in_str and depth and src.startswith("*)", i):
            depth -= 1
            i += 2
            continue
        c = src[i]
        if depth == 0:
            if c == '"':
                in_str = not in_str
            out.append(c)
        elif c == "\n":
            out.append(c)
        i += 1
    return "".join(out)


def in_section(src, lineno):
    depth = 0
    for i, line in enumerate(src.split("\n"), 1):
        if i >= lineno:
            break
        if re.match(r"\s*Section\s+\w+", line):
            depth += 1
        elif re.match(r"\s*End\s+\w+", line) and depth > 0:
            depth -= 1
    return depth > 0


def build_driver():
    os.makedirs(EXTRACT, exist_ok=True)
    coq_make(["theories/Extract/Extract.v"])
    # extraction output lands in the cwd of coqc: run it again from EXTRACT (cheap; .vo is up to date)
    run(["coqc", "-Q", os.path.join(COQ, "theories"), "PasfmtVerif", "-o", os.path.join(EXTRACT, "Extract.vo"),
         os.path.join(COQ, "theories", "Extract", "Extract.v")], cwd=EXTRACT, stage="extraction")
    # u_e2e.ml uses helpers of the other units: it is compiled after them
    srcs = ["gen_names.ml", "util.ml", "trace.ml", "common.ml"] + sorted(
        (os.path.basename(f) for f in glob.glob(os.path.join(ROOT, "driver", "u_*.ml"))),
        key=lambda f: (f == "u_e2e.ml", f)) + ["main.ml"]
    h = hashlib.sha256()
    for f in ["model.ml", "model.mli"]:
        h.update(open(os.path.join(EXTRACT, f), "rb").read())
    for f in srcs:
        data = open(os.path.join(ROOT, "driver", f), "rb").read()
        h.update(data)
        with open(os.path.join(EXTRACT, f), "wb") as o:
            o.write(data)
    stamp = os.path.join(EXTRACT, "driver.stamp")
    if os.path.exists(stamp) and open(stamp).read() == h.hexdigest() and os.path.exists(os.path.join(EXTRACT, "driver")):
        return
    run(["ocamlfind", "ocamlopt", "-O2", "-w", "-a", "-package", "unix", "-linkpkg", "-o", "driver", "model.mli", "model.ml"] + srcs,
        cwd=EXTRACT, stage="ocaml", timeout=900)
    with open(stamp, "w") as f:
        f.write(h.hexdigest())


DRIVER = os.path.join(EXTRACT, "driver")
VH = os.path.join(TARGET, "release", "vh")
VH_PLAIN = os.path.join(TARGET, "plain", "vh")
PASFMT = os.path.join(TARGET, "release", "pasfmt")


ALNUM = os.path.join(CACHE, "alnum_ranges.txt")
ENV["VERIF_ALNUM"] = ALNUM
os.environ["VERIF_ALNUM"] = ALNUM


def write_harness_manifest():
    h = os.path.join(ROOT, "harness")
    # the manifest is generated from a template so that the path dependencies follow VERIF_REPO
    manifest = open(os.path.join(h, "Cargo.toml.in")).read().replace("@REPO@", REPO)
    mpath = os.path.join(h, "Cargo.toml")
    if not os.path.exists(mpath) or open(mpath).read() != manifest:
        with open(mpath, "w") as f:
            f.write(manifest)
    lock = os.path.join(h, "Cargo.lock")
    src_lock = os.path.join(REPO, "Cargo.lock")
    if not os.path.exists(lock) or open(lock).read() != open(src_lock).read():
        shutil.copy(src_lock, lock)
    return h


def build_harness(plain=False):
    h = write_harness_manifest()
    cmd = ["cargo", "build", "--offline", "--profile", "plain" if plain else "release"]
    p = run(cmd, cwd=h, timeout=1800, check=False, stage="cargo")
    if p.returncode != 0:
        raise BuildError("cargo", p.stdout)
    if not plain:
        p = run([VH, "unit", "alnum"], stage="alnum")
        if not os.path.exists(ALNUM) or open(ALNUM).read() != p.stdout:
            with open(ALNUM, "w") as f:
                f.write(p.stdout)
    # the real binary, for CLI-level properties
    if not plain:
        p = run(["cargo", "build", "--offline", "--release", "--manifest-path", os.path.join(REPO, "Cargo.toml"),
                 "-p", "pasfmt", "--bin", "pasfmt"], cwd=REPO, timeout=1800, check=False, stage="cargo")
        if p.returncode != 0:
            raise BuildError("cargo", p.stdout)


def setup():
    with Lock("build"):
        t0 = time.time()
        rep = translate()
        coq_make()
        build_driver()
        build_harness()
        return {"translator": rep, "wall_s": round(time.time() - t0, 1)}


def coqchk(module, timeout=1800):
    """re-checks the compiled property module and everything it depends on with the independent checker;
    returns (ok, report): ok iff no axiom, no type-in-type, no unsafe fixpoint, no assumed positivity"""
    p = run(["coqchk", "-Q", os.path.join(COQ, "theories"), "PasfmtVerif", "-o", "-silent", "PasfmtVerif." + module],
            cwd=COQ, timeout=timeout, check=False, stage="coqchk")
    out = p.stdout
    fields = {}
    for key in ("Axioms", "Constants/Inductives relying on type-in-type", "Constants/Inductives relying on unsafe (co)fixpoints",
                "Inductives whose positivity is assumed"):
        m = re.search(r"\* " + re.escape(key) + r":\s*(.*?)(?=\n\s*\n|\n\* |\Z)", out, re.S)
        fields[key] = " ".join(m.group(1).split()) if m else "<missing>"
    ok = p.returncode == 0 and all(v == "<none>" for v in fields.values())
    return ok, {"rc": p.returncode, "report": fields, "tail": out[-600:] if not ok else ""}
