"""Running the Rust harness and the OCaml driver over batches of cases, sharded over all cores.
A crash or hang of a harness process is attributed to the case it was running (BEGIN without END)."""
import os, subprocess, time, shutil, itertools
from concurrent.futures import ThreadPoolExecutor
from . import build

NPROC = build.NPROC


class Case:
    __slots__ = ("id", "cfg", "cursors", "text", "meta")

    def __init__(self, id, cfg, cursors, text, meta=None):
        self.id = id
        self.cfg = cfg
        self.cursors = cursors
        self.text = text
        self.meta = meta or {}

    def line(self):
        b = self.text.encode("utf-8") if isinstance(self.text, str) else self.text
        return "%s %s %s %s\n" % (self.id, ",".join(str(x) for x in self.cfg),
                                  ",".join(str(c) for c in self.cursors) if self.cursors else "-",
                                  b.hex() if b else "-")

    def input_bytes(self):
        return self.text.encode("utf-8") if isinstance(self.text, str) else self.text


class Result:
    """what the implementation did on one case"""
    __slots__ = ("case", "out", "outcursors", "failure", "flags", "ms")

    def __init__(self, case):
        self.case = case
        self.out = None
        self.outcursors = None
        self.failure = None  # ("PANIC"|"HANG"|"CRASH", detail)
        self.flags = set()
        self.ms = None


def _unhex(h):
    return b"" if h == "-" else bytes.fromhex(h)


def _run_shard(vh, mode, cases, workdir, idx, per_case_timeout, case_limit_ms=20000):
    """returns (list of trace files, {id: failure})"""
    files = []
    failures = {}
    remaining = list(cases)
    part = 0
    while remaining:
        cf = os.path.join(workdir, f"cases_{idx}_{part}.txt")
        of = os.path.join(workdir, f"trace_{idx}_{part}.txt")
        with open(cf, "w") as f:
            for c in remaining:
                f.write(c.line())
        size = sum(len(c.input_bytes()) for c in remaining)
        timeout = 20 + per_case_timeout * len(remaining) + size / 20000.0
        try:
            env = dict(build.ENV, VH_CASE_TIMEOUT_MS=str(case_limit_ms))
            p = subprocess.run([vh, mode, cf, of], stdout=subprocess.PIPE, stderr=subprocess.PIPE, timeout=timeout, env=env)
            rc = p.returncode
            status = ("HANG" if rc == 97 else "CRASH") if rc != 0 else None
            detail = ("no result within the per-case time limit" if rc == 97 else "exit %d %s" % (rc, p.stderr.decode("utf-8", "replace")[-300:])) if rc != 0 else ""
        except subprocess.TimeoutExpired:
            status, detail = "HANG", "no result within %.0fs" % timeout
        files.append(of)
        if status is None:
            break
        # find the culprit: last BEGIN without END
        last_begin, ended = None, set()
        try:
            with open(of, "rb") as f:
                for line in f:
                    if line.startswith(b"BEGIN "):
                        last_begin = line.split()[1].decode()
                    elif line.startswith(b"END "):
                        ended.add(line.split()[1].decode())
        except OSError:
            pass
        if last_begin is None or last_begin in ended:
            # crashed outside a case; give up on this shard
            for c in remaining:
                failures[c.id] = ("CRASH", "harness failure outside a case: " + detail)
            break
        failures[last_begin] = (status, detail)
        ids = [c.id for c in remaining]
        k = ids.index(last_begin)
        remaining = remaining[k + 1:]
        part += 1
    return files, failures


def run_cases(cases, mode="trace", workdir=None, per_case_timeout=0.5, plain=False, keep=False, case_limit_ms=20000):
    """runs the harness on all cases; returns (results dict id->Result, trace files)"""
    vh = build.VH_PLAIN if plain else build.VH
    workdir = workdir or os.path.join(build.CACHE, "run", "%d_%d" % (os.getpid(), int(time.time() * 1000) % 10**9))
    os.makedirs(workdir, exist_ok=True)
    nsh = max(1, min(NPROC, (len(cases) + 7) // 8))
    shards = [cases[i::nsh] for i in range(nsh)]
    results = {c.id: Result(c) for c in cases}
    files = []
    with ThreadPoolExecutor(max_workers=nsh) as ex:
        futs = [ex.submit(_run_shard, vh, mode, sh, workdir, i, per_case_timeout, case_limit_ms) for i, sh in enumerate(shards) if sh]
        for fu in futs:
            fs, fails = fu.result()
            files += fs
            for cid, fl in fails.items():
                results[cid].failure = fl
    # read outputs
    for tf in files:
        cur = None
        try:
            f = open(tf, "rb")
        except OSError:
            continue
        with f:
            for line in f:
                if line.startswith(b"BEGIN "):
                    cur = results.get(line.split()[1].decode())
                elif cur is None:
                    continue
                elif line.startswith(b"OUT "):
                    cur.out = _unhex(line.split()[1].decode())
                elif line.startswith(b"OUTCURSORS "):
                    s = line.split()[1].decode()
                    cur.outcursors = [] if s == "-" else [int(x) for x in s.split(",")]
                elif line.startswith(b"PANIC "):
                    p = line.split()
                    loc = p[1].decode() if len(p) > 1 else ""
                    msg = _unhex(p[2].decode()).decode("utf-8", "replace") if len(p) > 2 else ""
                    cur.failure = ("PANIC", loc + " " + msg)
                elif line.startswith(b"TIME "):
                    cur.ms = int(line.split()[1])
                elif line.startswith(b"DRIFT"):
                    cur.flags.add("DRIFT")
                    # what the REAL make_formatter returned (OUT is the replica pipeline's, the one the stage dumps come from): the
                    # text-level oracles judge this one
                    p = line.split()
                    if len(p) > 1:
                        try:
                            cur.out = _unhex(p[1].decode())
                        except ValueError:
                            pass
                elif line.startswith(b"CURSORDEP"):
                    cur.flags.add("CURSORDEP")
                elif line.startswith(b"BADUTF8"):
                    cur.flags.add("BADUTF8")
    return results, files, workdir


def run_driver(files, units=None):
    """runs the extracted model over trace files; returns (counts {unit: [ok, diff]}, diffs [(id, unit, detail)], xs, viols)"""
    counts, diffs, xs, viols = {}, [], [], []

    def one(tf):
        cmd = [build.DRIVER, "check", tf] + ([",".join(units)] if units else [])
        p = subprocess.run(cmd, stdout=subprocess.PIPE, stderr=subprocess.PIPE, timeout=3600)
        return p.returncode, p.stdout.decode("utf-8", "replace"), p.stderr.decode("utf-8", "replace")

    with ThreadPoolExecutor(max_workers=NPROC) as ex:
        for rc, out, err in ex.map(one, files):
            if rc != 0:
                diffs.append(("<driver>", "driver", "exit %d: %s" % (rc, err[-500:])))
            for line in out.splitlines():
                p = line.split(" ", 4)
                if p[0] == "R" and len(p) >= 4:
                    c = counts.setdefault(p[2], [0, 0])
                    if p[3] == "OK":
                        c[0] += 1
                    else:
                        c[1] += 1
                        diffs.append((p[1], p[2], p[4] if len(p) > 4 else ""))
                elif p[0] == "X":
                    xs.append((p[1], " ".join(p[2:])))
                elif p[0] == "V" and len(p) >= 4:
                    c = counts.setdefault(p[2], [0, 0])
                    c[0] += 1  # the unit ran; the violation is an oracle result, not a model/impl disagreement
                    viols.append((p[1], p[2], p[3], p[4] if len(p) > 4 else ""))
    return counts, diffs, xs, viols


def cleanup(workdir):
    shutil.rmtree(workdir, ignore_errors=True)
