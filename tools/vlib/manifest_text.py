"""Texts for MANIFEST.json (level claimed / trusted base per property)."""
CLAIMS = {
    "C01": {
        "text": "Proof (Coq): reconstruction emits every token's content exactly once, in order, and only blanks besides, for all counters, ignore marks and settings (C01_reconstruct_nonblank); settings are always well-formed. The per-token content relation R01 and the lexer guarantee tok_ok are evaluated by the extracted Coq predicates on every token of every real trace; the executable model of reconstruct is diffed against the real reconstructor on every case; the oracle compares fold(nonblank) of input and output of the real formatter. Partial: the stage-invariant theorem over the generated stage list and the lexer losslessness theorem are still being added.",
        "note": "Trusted: Coq kernel; hand model of reconstructor.rs/lang.rs tied by differential execution; translator for enums; extraction (ExtrOcamlBasic); harness replica of make_formatter (checked against the real one per case). Assumed and monitored: tok_ok on lexer output.",
        "technique": "Coq proof over executable model + extracted-model correspondence check",
    },
}
CLAIMS["C01"]["text"] = ("Proof (Coq): for ANY chain of admissible formatting steps (arbitrary counters from spacing and the wrapper, keyword lower-casing, comment/directive normalisation, re-indentation of multi-line strings) and any settings, fold(nonblank(reconstruct)) = fold(nonblank(token contents)) (C01_chain_preserves_nonblank); the stage list regenerated from make_formatter is proved to have exactly that admissible shape and the set_content sites are proved to be the modelled ones (vm_compute over generated tables; a TokenRemover or a new rule breaks the obligation). Every modelled stage (settings, lowercase, comment formatter, EofNewline, reconstruct) is diffed against the real stage on every case by the extracted model; the oracle compares fold(nonblank) of input and output of the real formatter. Partial: lexer losslessness is monitored per token (tok_ok) until the lexer model's theorem is integrated.")

_COMMON_NOTE = ("Trusted: Coq kernel (coqc 8.16.1, vm_compute for generated tables); hand model under coq/theories/Model tied to the Rust by differential execution of the extracted model (ExtrOcamlBasic only) on stage traces of the real pipeline; translator gen/rs2v*.py; Rust harness replica of make_formatter (compared with the real one on every case); Python generators/oracles. ")

CLAIMS["C07"] = {
    "text": "Proof (Coq): a run of ignored tokens is reconstructed byte for byte (leading whitespace and content) for all counters and settings unless the safety net fires inside it (C07_ignored_run_verbatim, C07_region); no admissible formatting stage changes text, whitespace or mark of an ignored token (C07_ignored_untouched_by_stages). The toggle grammar / asm marking / line voiding model is diffed against the real ignore marks and voided lines on every case. Oracle: region substring equality in the real output for regions at random token gaps, 9 toggle spellings (LF, CRLF, lone CR), asm bodies, near-miss spellings. Partial: which lines are asm instruction lines is the parser's decision (oracle).",
    "note": _COMMON_NOTE + "Assumed: no_net for lexer tokens (a line comment is followed by a line break) — monitored by the region oracle.",
    "technique": "Coq proof over executable model + extracted-model correspondence check",
}
CLAIMS["C08"] = {
    "text": "Proof (Coq), partial: for every decided token the emitted whitespace is exactly line-breaks + a whole number of indentation units (line start) or spaces only (continuation), for all settings (C08_line_start, C08_continue, C08_indentation_units), the stage order is proved on the generated list, and the saturated configuration class is refuted (F13). That the wrapper's plan is canonical (canon_fmt: no spaces at a line start, at most one space otherwise, at most one blank line, none at the start) and that no content ends in a blank before a break are acceptance predicates defined in Coq and evaluated by extracted code on the real final state of every case (hypothesis H-W1, monitored, not proved). Text-level scan of the real output for blank lines, indentation units and the end-of-file clause.",
    "note": _COMMON_NOTE + "Hypothesis H-W1 (plan canonical) is validated per case, not proved; excluded classes: F3/F7 trailing blanks, F13 saturation, lines without a wrapping solution.",
    "technique": "Coq proof over executable model + extracted acceptance predicates on real traces",
}
CLAIMS["C09"] = {
    "text": "Proof (Coq), partial: reconstruct's output is a rendering of newline-independent pieces, every emitted break is the configured newline, hence for the same formatted tokens the crlf output is the lf output with each emitted terminator substituted (C09_crlf_is_subst). That the plan itself does not depend on the newline string (H-W2) and that CRLF input lexes like LF input are validated by differential runs of the real formatter (lf/crlf configuration pairs, LF/CRLF input pairs), not proved.",
    "note": _COMMON_NOTE + "H-W2 validated by differential execution.",
    "technique": "Coq proof over executable model + differential oracle",
}
CLAIMS["C10"] = {
    "text": "Proof (Coq), partial: the settings conversion and the rendering of indentation are proved: tabs expanded to tab_width spaces give the soft-tab indentation, indentation = (levels + ci*continuations) units, for all values with ci*tw <= 255; refuted beyond (F13, witness). The conversion From<&FormattingConfig> is diffed against the model on a grid (exhaustive 2x256x256 in the thorough tier). That the plan does not depend on the widths when wrap_column is unconstrained (H-W3) is validated by pairwise runs of the real formatter.",
    "note": _COMMON_NOTE + "H-W3 validated by differential execution.",
    "technique": "Coq proof over executable model + exhaustive settings grid + differential oracle",
}
NOT_CLAIMED = {}
