"""Texts for MANIFEST.json (level claimed / trusted base per property)."""
CLAIMS = {
    "C01": {
        "text": "Proof (Coq): reconstruction emits every token's content exactly once, in order, and only blanks besides, for all counters, ignore marks and settings (C01_reconstruct_nonblank); settings are always well-formed. The per-token content relation R01 and the lexer guarantee tok_ok are evaluated by the extracted Coq predicates on every token of every real trace; the executable model of reconstruct is diffed against the real reconstructor on every case; the oracle compares fold(nonblank) of input and output of the real formatter. Partial: the stage-invariant theorem over the generated stage list and the lexer losslessness theorem are still being added.",
        "note": "Trusted: Coq kernel; hand model of reconstructor.rs/lang.rs tied by differential execution; translator for enums; extraction (ExtrOcamlBasic); harness replica of make_formatter (checked against the real one per case). Assumed and monitored: tok_ok on lexer output.",
        "technique": "Coq proof over executable model + extracted-model correspondence check",
    },
}
CLAIMS["C01"]["text"] = ("Proof (Coq): for ANY chain of admissible formatting steps (arbitrary counters from spacing and the wrapper, keyword lower-casing, comment/directive normalisation, re-indentation of multi-line strings) and any settings, fold(nonblank(reconstruct)) = fold(nonblank(token contents)) (C01_chain_preserves_nonblank); the stage list regenerated from make_formatter is proved to have exactly that admissible shape and the set_content sites are proved to be the modelled ones (vm_compute over generated tables; a TokenRemover or a new rule breaks the obligation). Every modelled stage (settings, lowercase, comment formatter, EofNewline, reconstruct) is diffed against the real stage on every case by the extracted model; the oracle compares fold(nonblank) of input and output of the real formatter. Partial: lexer losslessness is monitored per token (tok_ok) until the lexer model's theorem is integrated.")

_COMMON_NOTE = ("Trusted: Coq kernel (coqc 8.16.1, vm_compute for generated tables); hand model under coq/theories/Model tied to the Rust by differential execution of the extracted model (ExtrOcamlBasic only) on stage traces of the real pipeline; translator gen/rs2v*.py; Rust harness replica of make_formatter (compared with the real one on every case); Python generators/oracles. ")

CLAIMS["C07"] = {
    "text": "Proof (Coq): a run of ignored tokens is reconstructed byte for byte (leading whitespace and content) for all counters and settings unless the safety net fires inside it (C07_ignored_run_verbatim, C07_region); no admissible formatting stage changes text, whitespace or mark of an ignored token (C07_ignored_untouched_by_stages). The toggle grammar / asm marking / line voiding model is diffed against the real ignore marks and voided lines on every case. Oracle: region substring equality in the real output for regions at random token gaps, 9 toggle spellings (LF, CRLF, lone CR), asm bodies, near-miss spellings. Partial: which lines are asm instruction lines is the parser's decision (oracle).",
    "note": _COMMON_NOTE + "Assumed: no_net for lexer tokens (a line comment is followed by a line break) — monitored by the region oracle.",
    "technique": "Coq proof over executable model + extracted-model correspondence check",
}
CLAIMS["C08"] = {
    "text": "Proof (Coq), partial: for every decided token the emitted whitespace is exactly line-breaks + a whole number of indentation units (line start) or spaces only (continuation), for all settings (C08_line_start, C08_continue, C08_indentation_units), the stage order is proved on the generated list, and the saturated configuration class is refuted (F13). That the wrapper's plan is canonical (canon_fmt: no spaces at a line start, at most one space otherwise, at most one blank line, none at the start) and that no content ends in a blank before a break are acceptance predicates defined in Coq and evaluated by extracted code on the real final state of every case (hypothesis H-W1, monitored, not proved). Text-level scan of the real output for blank lines, indentation units and the end-of-file clause.",
    "note": _COMMON_NOTE + "Hypothesis H-W1 (plan canonical) is validated per case, not proved; excluded classes: F3/F7 trailing blanks, F13 saturation, lines without a wrapping solution.",
    "technique": "Coq proof over executable model + extracted acceptance predicates on real traces",
}
CLAIMS["C09"] = {
    "text": "Proof (Coq), partial: reconstruct's output is a rendering of newline-independent pieces, every emitted break is the configured newline, hence for the same formatted tokens the crlf output is the lf output with each emitted terminator substituted (C09_crlf_is_subst). That the plan itself does not depend on the newline string (H-W2) and that CRLF input lexes like LF input are validated by differential runs of the real formatter (lf/crlf configuration pairs, LF/CRLF input pairs), not proved.",
    "note": _COMMON_NOTE + "H-W2 validated by differential execution.",
    "technique": "Coq proof over executable model + differential oracle",
}
CLAIMS["C10"] = {
    "text": "Proof (Coq), partial: the settings conversion and the rendering of indentation are proved: tabs expanded to tab_width spaces give the soft-tab indentation, indentation = (levels + ci*continuations) units, for all values with ci*tw <= 255; refuted beyond (F13, witness). The conversion From<&FormattingConfig> is diffed against the model on a grid (exhaustive 2x256x256 in the thorough tier). That the plan does not depend on the widths when wrap_column is unconstrained (H-W3) is validated by pairwise runs of the real formatter.",
    "note": _COMMON_NOTE + "H-W3 validated by differential execution.",
    "technique": "Coq proof over executable model + exhaustive settings grid + differential oracle",
}
CLAIMS["C12"] = {
    "text": "Proof (Coq): on the byte-level model of multiline_strings.rs — whenever a literal is rewritten its value (interior lines relative to the closing quotes' indentation, trailing blanks included) is unchanged, for all indentation strings of spaces/tabs, both newlines, all quote counts and blank kinds (C12_value_preserved); the result is re-indented exactly and all terminators are the configured newline (C12_reindented); a literal is rewritten iff it is eligible and not already in target form (C12_rewritten_iff_eligible, C12_eligible_implies_rewritten); idempotent; non-blank bytes kept. The model is diffed against the real re-indentation on every generated literal; the oracle compares each real literal's value before/after with the Coq-defined ml_value and checks byte identity for ineligible, ignored or disabled literals.",
    "note": _COMMON_NOTE + "Assumed and monitored: the literal token's final indentation is the one used for re-indentation (H-W5); a multi-line literal starts its line (plan_ok).",
    "technique": "Coq proof over executable model + extracted-model correspondence check",
}
CLAIMS["C15"] = {
    "text": "Proof (Coq): on the model of process_cursors / relocate_cursors (Z arithmetic, explicit u16/u32 narrowing) — every relocated cursor lies within the output, unconditionally (C15_in_bounds, C15_in_bounds_all); a cursor inside or at the end of an unchanged single-line or (< 65536 bytes) multi-line token keeps its offset in that token (C15_same_offset, C15_same_offset_multiline); cursors beyond the input map to the end of the output (C15_past_end); no usize subtraction can underflow; boundary cursors cannot slice inside a character; refuted: u16 narrowing above 65535 (F19). The model is diffed against the real cursors for every character boundary of every case (about 3*10^5 cursors per quick run); the oracle states bounds, character boundary, same offset (by independent token alignment on the real output) and past-end directly; the harness checks that the text does not depend on the cursors.",
    "note": _COMMON_NOTE + "Excluded classes: safety-net newline before the token (F10), text-changed tokens with non-ASCII text (F9), F19.",
    "technique": "Coq proof over executable model + extracted-model correspondence check",
}
CLAIMS["C14"] = {
    "text": "Proof (Coq) for ANY grammar: the conditional-directive pass generator is fully modelled (passes strictly increasing over valid non-directive indices, covering, one identity pass without directives); the parser's line-state kernel — the five primitives proved by a generated inventory to be the only code mutating result_lines / current_line / pass_index — keeps every line strictly increasing and places no token twice for EVERY sequence of primitive events (C14_kernel_lines_wf); composed with consolidation and directive lines: every final line is non-empty, strictly increasing, in range (C14_final_lines_wf) and every token of the file is in at least one line (C14_final_lines_cover) under two side conditions (each pass consumed to its end; skip_token only skips compiler directives) evaluated on every real parse. The kernel model is tied by replaying the hook's event log of every pass of every case against the real pass lines and final lines. Parent and Eof-line clauses (well-formed input) are grammar facts decided by extracted predicates on the real parse result.",
    "note": _COMMON_NOTE + "Hooks: verif_directive_passes, verif_events (one letter per primitive). The grammar's choice of primitives is an oracle by construction (theorems quantify over all event sequences).",
    "technique": "Coq proof over all event sequences of the parser kernel + event-log replay correspondence",
}
CLAIMS["C04"] = {
    "text": "Proof (Coq), partial by nature: what a theorem can carry is proved — the directive-pass generator is total and the number of passes is at most 2d+1 for d conditional directives (no exponential blow-up, C04_passes_linear, C04_pass_progress); cursor relocation has no reachable underflow and boundary cursors cannot panic in process_cursors. Termination and stack depth of the real grammar recursion and of the wrapper's search are runtime behaviour: decided by a watchdog run over exhaustive token sequences up to length 2 (3 on a sub-alphabet), random soup, mutated seeds with cursor lists, directive-heavy inputs, nesting depth up to 1000, and a directive scaling series, on a build with overflow checks and debug assertions (and on the plain release build in the thorough tier).",
    "note": _COMMON_NOTE + "Runtime termination is sampled, not proved; F11 (extreme nesting depth) is a listed finding.",
    "technique": "Coq proof (pass bound, no-underflow) + watchdog exploration",
}
CLAIMS["C13"] = {
    "text": "Proof (Coq): on a byte-level model of the whole lexer (lexer.rs incl. asm mode and directive expressions) — total on every byte string, lossless with stepwise bounds, exactly one Eof last, every other token non-empty and starting at a non-blank, leading whitespace blank, all boundaries character boundaries and all pieces valid UTF-8 for valid UTF-8 input; the AVX2 identifier scan equals the scalar scan for every input; the keyword perfect hash over the tables REGENERATED from lexer.rs on every run builds without collision and equals a case-insensitive linear search. The model lexer is the reference scanner: token boundaries and kinds are diffed against the real lexer on every case (seeds, mutations, soup, arbitrary bytes, length 1..200 x alignment 0..64 x 31 delimiter classes sweep), and both real identifier scans are driven through hooks and diffed against both models.",
    "note": _COMMON_NOTE + "Hooks: verif_ident_end_generic / verif_ident_end_avx2. The byte classes and sub-lexers are hand-modelled (tied by the differential run); memory safety of the unsafe AVX2 block is not modelled.",
    "technique": "Coq proof over executable model + extracted-model correspondence check",
}
CLAIMS["C02"] = {
    "text": "Proof (Coq), partial: by reflection over all 183 generated token types, whenever the spacing rule leaves no space between two tokens the pair is glue-safe for the lexer, or the input already had no blank there, or it is one of 23 listed pairs that cannot occur in well-formed code (C02_spacing_separates); the rule touches counters only and the gap is a closed-form function of two types. The spacing model is diffed against the real rule on every case. The remaining steps (wrapper keeps comment breaks; locality of the sub-lexers) are decided by the oracle: the real output is re-scanned with the verified model lexer AND the real lexer and every token's kind and text is compared with the final token vector, on well-formed seeds/grammar programs under relayout, comment insertion, directive wrapping, CRLF and keyword-case variants.",
    "note": _COMMON_NOTE + "H-W1 and lex_one_local are monitored by the re-scan oracle, not proved.",
    "technique": "Coq proof by reflection over generated enums + re-scan oracle with the verified lexer",
}
CLAIMS["C06"] = {
    "text": "Proof (Coq), partial: the spacing rule reads the original space count exactly on a characterised class of (left, right) type pairs and only up to min 1 — outside the class the spacing is independent of the input's spacing (C06_spacing_layout_free, C06_reads_orig_characterised); the literal-gap leak (F4) is proved to be real. The set of leading-whitespace reads in the code base is proved equal to the modelled set (generated inventory). That the parser and the wrapper do not consult the layout is decided by the metamorphic oracle fmt(x) = fmt(relayout(x)) on the real formatter.",
    "note": _COMMON_NOTE + "H-P2/H-W2 validated by differential execution; F4 class excluded by the relayout generator and listed as a finding.",
    "technique": "Coq proof by reflection + metamorphic oracle",
}
CLAIMS["C03"] = {
    "text": "Proof (Coq), partial: each content normalisation and the spacing rule are proved to be fixpoints of themselves (spacing, keyword lower-casing, EofNewline, multi-line string re-indentation). Idempotence of the whole formatter additionally needs the wrapper's plan to be a function of the layout-free view; that is decided by the oracle fmt(fmt(x)) = fmt(x) (and a third pass in the thorough tier) on the real formatter over well-formed seeds, grammar programs and their variants. Known finding F6 (stale child-line cache after re-indenting a multi-line string) is reported as KNOWN-FINDING.",
    "note": _COMMON_NOTE + "H-W2, H-W4, H-W5 validated by the oracle.",
    "technique": "Coq fixpoint lemmas + idempotence oracle",
}
CLAIMS["C05"] = {
    "text": "Proof (Coq), partial: a line-start token carrying `level` indentations and no continuation is rendered as the line breaks followed by exactly level units (C05_level_rendering, C05_level_units). That the wrapper starts every top-level logical line at `level` indentations is an acceptance predicate evaluated on every real trace (unit levels). That the grammar gives each statement its own logical line at depth d+1 inside a block opened at depth d is NOT modelled: it is decided by the oracle, which checks every generator-marked statement head, declaration member and block closer of grammar-generated programs (all layouts, begin styles, widths) against line start and indentation in the real output.",
    "note": _COMMON_NOTE + "The parser grammar is an oracle; the property's main clause rests on the generator-marked oracle.",
    "technique": "Coq proof (rendering) + generator-marked structural oracle",
}
CLAIMS["C11"] = {
    "text": "Proof (Coq) of supporting lemmas only: the penalty is antitone in the limit and equal when everything fits, fitting is monotone, an ideal minimiser over a width-independent candidate set would be width-stable, and wrap_column reaches the wrapper only at the modelled sites (generated inventory). The wrapper's heuristic search is not modelled: the three clauses are decided by the width-pair oracle on the real formatter. Clause 2 (widening never adds a line) is genuinely false for a penalty-based wrapper and is reported as KNOWN-FINDING (F24 forced overflow, F26 cheaper break kind); F25 (multi-line string measurement) likewise.",
    "note": _COMMON_NOTE + "Main clause decided by the oracle; theorems are supporting lemmas.",
    "technique": "Coq supporting lemmas + width-pair oracle",
}
CLAIMS["C16"] = {
    "text": "Proof (Coq): on a model of the file layer (POSIX read/seek/write/set_len, the operation sequence of each mode, abstract formatter) — after seek 0; write_all; set_len the file holds exactly the new bytes for every old length; files mode leaves the bytes that stdin->stdout prints (proviso proved for UTF-8/16, refuted for non-canonical legacy bytes = F8); check fails iff the text differs from its formatting; stdout and check modes cannot write; decode or encode errors leave the file untouched and set the error flag. The model's predictions (file bytes, stdout bytes, error flag per mode) are compared with the real binary on every UTF case; the syscall sequence of each mode (strace) is compared with the modelled operation sequence; path forms and mode defaults are exercised on the binary.",
    "note": _COMMON_NOTE + "File system and legacy codecs are contracts; stdout failures are not modelled.",
    "technique": "Coq proof over file-state machine + binary-level differential + syscall trace",
}
CLAIMS["C17"] = {
    "text": "Proof (Coq): UTF-8 and the two hand-written UTF-16 encoders round-trip in both directions over all scalar values (surrogate pairs included), a BOM decides the encoding over the configured one and is preserved, bytes written = BOM ++ encode(format(decode body)), malformed input is rejected (and, by C16, never rewritten), unchanged text re-encodes to the original bytes for UTF-8/16. The model is compared with the real binary byte for byte on UTF-8/UTF-16 with and without BOM (file and stdin paths, malformed inputs); legacy code pages (windows-1252/1251, shift_jis, gbk, big5, euc-kr) are checked against the formula with independent codecs.",
    "note": _COMMON_NOTE + "Legacy codecs are parameters of the model (encoding_rs); checked by differential runs on sampled characters.",
    "technique": "Coq proof (codecs, BOM logic) + byte-level differential on the binary",
}
CLAIMS["C18"] = {
    "text": "Proof (Coq): in a model with per-worker buffers, a shared file system and error flag, for duplicate-free paths, ANY assignment of files to workers and ANY interleaving of the read / write_all / set_len steps of distinct files, every file ends exactly as in its solo run, unlisted files are untouched, and the flag is set iff some file failed (C18_batch_eq_solo, C18_batch_exit_code); clearing the buffer makes a worker's history irrelevant, and without it the result would differ (refutation); duplicate paths are refuted at model level (F12). The shared-state inventory of the code base is proved equal to the modelled set. Real rayon schedules are sampled (thread counts 1..16, repetitions) against one invocation per file, with injected failures.",
    "note": _COMMON_NOTE + "Real interleavings are sampled, not enumerated; memory model of the AtomicPtr dispatch is not modelled (both routines are proved equal, C13).",
    "technique": "Coq proof over all schedules of a step-level model + thread-matrix differential",
}
CLAIMS["C19"] = {
    "text": "Proof (Coq) on a thin model: the ancestor search returns the deepest ancestor-or-self directory containing pasfmt.toml (None iff none) within depth+1 probes; the last -C option wins over the file, the file over the defaults; --config-file wins over the search and must exist; mode defaults and the files+stdin rejection. clap/toml/serde/config are parameters, so the property itself is decided by the differential run of the real binary from nested working directories: equal effective configurations (options split arbitrarily between an ancestor file, --config-file and -C, with decoy files farther up) give byte-identical output; 14 invalid configurations exit non-zero and touch no file.",
    "note": _COMMON_NOTE + "The parsing libraries are parameters; the model is thin and says so.",
    "technique": "Coq proof (search, precedence) + differential runs of the binary",
}
NOT_CLAIMED = {}
