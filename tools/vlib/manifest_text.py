"""Texts for MANIFEST.json (level claimed / trusted base per property)."""
CLAIMS = {
    "C01": {
        "text": "Proof (Coq): reconstruction emits every token's content exactly once, in order, and only blanks besides, for all counters, ignore marks and settings (C01_reconstruct_nonblank); settings are always well-formed. The per-token content relation R01 and the lexer guarantee tok_ok are evaluated by the extracted Coq predicates on every token of every real trace; the executable model of reconstruct is diffed against the real reconstructor on every case; the oracle compares fold(nonblank) of input and output of the real formatter. Partial: the stage-invariant theorem over the generated stage list and the lexer losslessness theorem are still being added.",
        "note": "Trusted: Coq kernel; hand model of reconstructor.rs/lang.rs tied by differential execution; translator for enums; extraction (ExtrOcamlBasic); harness replica of make_formatter (checked against the real one per case). Assumed and monitored: tok_ok on lexer output.",
        "technique": "Coq proof over executable model + extracted-model correspondence check",
    },
}
NOT_CLAIMED = {}
