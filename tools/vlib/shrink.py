"""Token-level delta debugging. The predicate is 'the same kind of failure still occurs' when the
candidate is run through the same harness mode / driver units / oracle."""
from . import gen, runner
from .runner import Case


def _run(cands, cfg, cursors, units, kind, oracle, mode):
    """returns index of the first candidate that still fails, else None"""
    cases = [Case("s%d" % i, cfg, cursors, t) for i, t in enumerate(cands)]
    results, files, wd = runner.run_cases(cases, mode=mode, per_case_timeout=1.0)
    failing = set()
    try:
        if mode == "trace" and units:
            counts, diffs, xs, viols = runner.run_driver(files, units)
            for cid, unit, k, detail in viols:
                if k.partition(":")[0] == kind:
                    failing.add(cid)
            if kind == "correspondence":
                for cid, unit, detail in diffs:
                    failing.add(cid)
        for cid, r in results.items():
            if r.failure is not None and kind in ("abort", "hang"):
                failing.add(cid)
            elif oracle is not None and r.out is not None and oracle(r):
                failing.add(cid)
    finally:
        runner.cleanup(wd)
    for i in range(len(cands)):
        if "s%d" % i in failing:
            return i
    return None


def shrink(text, cfg, cursors, kind, units=None, oracle=None, mode="trace", max_rounds=40):
    """returns a (locally) minimal text that still fails with `kind`"""
    toks = [t for _, t in gen.tokenize(text)]
    n = 2
    rounds = 0
    while len(toks) >= 2 and rounds < max_rounds:
        rounds += 1
        chunk = max(1, len(toks) // n)
        cands = []
        spans = []
        for i in range(0, len(toks), chunk):
            cands.append("".join(toks[:i] + toks[i + chunk:]))
            spans.append((i, i + chunk))
        k = _run(cands, cfg, cursors if not cursors else [c for c in cursors], units, kind, oracle, mode)
        if k is not None:
            i, j = spans[k]
            toks = toks[:i] + toks[j:]
            n = max(n - 1, 2)
        else:
            if chunk == 1:
                break
            n = min(len(toks), n * 2)
    return "".join(toks)
