"""Input generators. All randomness derives from one random.Random(seed)."""
import os, json, gzip, random, re

ROOT = os.path.dirname(os.path.dirname(os.path.dirname(os.path.abspath(__file__))))

# ------------------------------------------------------------------ seeds

_seeds = None


def seeds():
    global _seeds
    if _seeds is None:
        _seeds = []
        with gzip.open(os.path.join(ROOT, "corpus", "seeds.jsonl.gz"), "rt", encoding="utf-8") as f:
            for line in f:
                _seeds.append(json.loads(line))
    return _seeds


# ------------------------------------------------------------------ approximate tokenizer
# Only used to build inputs (relayout, mutation); never to judge the implementation.

TOKEN_RE = re.compile(r"""
    (?P<ws>[\x00-\x20　]+)
  | (?P<lc>//[^\r\n]*)
  | (?P<dir>\{\$[^}]*\}?|\(\*\$.*?(?:\*\)|\Z))
  | (?P<bc>\{[^}]*\}?|\(\*.*?(?:\*\)|\Z))
  | (?P<mls>'''(?:'')*[ \t]*\r?\n.*?'''(?:'')*)
  | (?P<str>(?:'[^'\r\n]*(?:'|(?=[\r\n])|\Z)|\#\$?[0-9A-Fa-f_]+)+)
  | (?P<num>\$[0-9A-Fa-f_]+|%[01_]+|[0-9][0-9_]*(?:\.[0-9_]+)?(?:[eE][+-]?[0-9_]+)?)
  | (?P<id>&?[A-Za-z_\u0080-⿿、-￿][A-Za-z0-9_\u0080-⿿、-￿]*)
  | (?P<op>:=|<=|>=|<>|\.\.|[-+*/=<>\[\]().,;:^@])
  | (?P<unk>.)
""", re.S | re.X)


def tokenize(text):
    """list of (kind, text) including whitespace tokens"""
    out = []
    for m in TOKEN_RE.finditer(text):
        out.append((m.lastgroup, m.group(0)))
    return out


def is_comment_kind(k):
    return k in ("lc", "bc", "dir")


def has_asm_or_toggle(text):
    low = text.lower()
    return bool(re.search(r"\basm\b", low)) or "pasfmt" in low


# ------------------------------------------------------------------ relayout (C06)

def relayout(text, rng, crlf=False, directives_as_tokens=False):
    """Change horizontal whitespace / indentation / space<->single newline at gaps between two
    non-comment tokens; keep blank-line groups (a gap with >= 2 newlines keeps >= 2) and every gap
    that touches a comment. Returns None if the text is excluded (asm, toggles)."""
    if has_asm_or_toggle(text):
        return None
    toks = tokenize(text)
    out = []
    n = len(toks)
    for i, (k, t) in enumerate(toks):
        if k != "ws":
            out.append(t)
            # two tokens without any whitespace between them: where inserting some cannot change the token sequence
            # (a closing bracket or a comma followed by an opening bracket), "no whitespace" is one more amount of it
            if i + 1 < n and toks[i + 1][0] != "ws" and t in (")", "]", ",") and toks[i + 1][1] in ("(", "[") and rng.random() < 0.4:
                out.append(rng.choice([" ", "   ", "\n" + " " * rng.randrange(0, 9), "\t"]))
            continue
        prev = toks[i - 1][0] if i > 0 else None
        nxt = toks[i + 1][0] if i + 1 < n else None
        cprev = is_comment_kind(prev) and not (directives_as_tokens and prev == "dir")
        cnext = is_comment_kind(nxt) and not (directives_as_tokens and nxt == "dir")
        if prev is None or nxt is None or cprev or cnext or prev == "unk" or nxt == "unk":
            out.append(t)
            continue
        if prev in ("str", "num", "mls") or nxt in ("str", "num", "mls"):
            # literal gaps are the documented leak class (finding F4): keep them
            out.append(t)
            continue
        nls = t.count("\n")
        nl = "\r\n" if crlf else "\n"
        if nls >= 2:
            out.append(nl * 2 + " " * rng.randrange(0, 9))
        else:
            c = rng.random()
            if c < 0.35:
                out.append(" " * rng.randrange(1, 5))
            elif c < 0.5:
                out.append("\t" * rng.randrange(1, 3))
            elif c < 0.85:
                out.append(nl + " " * rng.randrange(0, 11))
            else:
                out.append(" " + nl + "\t" * rng.randrange(0, 3))
    return "".join(out)


def to_crlf(text):
    return re.sub(r"\r?\n", "\r\n", text)


def has_multiline_token(text):
    for k, t in tokenize(text):
        if k in ("bc", "dir", "mls", "str") and ("\n" in t or "\r" in t):
            return True
    return False


# ------------------------------------------------------------------ token soup and mutations (C04, C13, C14)

ALPHABET = """begin end if then else while do for to downto repeat until case of try except finally raise
with goto label var const type class record object interface procedure function constructor destructor
property unit program library package uses interface implementation initialization finalization
array set file string packed inherited nil not and or xor div mod shl shr in is as at on out
private protected public published strict automated abstract virtual override overload reintroduce
static inline forward external cdecl stdcall default read write index stored implements
absolute name message dispid deprecated platform experimental helper reference operator sealed final
threadvar resourcestring exports contains requires asm
; : := = <> < > <= >= + - * / ( ) [ ] . .. , ^ @
Foo Bar A B x 1 2.5 $FF 'str' #13 &begin
//c\n {c} (*c*) {$IFDEF A} {$ELSE} {$ENDIF} {$IF X} {$ELSEIF Y} {$IFEND} {$R *.res} {$I f.inc}
#65 #$41 #%0100 #$ 'a'#13#10'b' %1010 1e+5 1. 1.5e-3 $ &Foo Foo<string[10]> (*$IFDEF A*) (*$ENDIF*) (*$R+*) {$IFOPT R+} {$R+,Q-} {$I+} {$M 16384,1048576}
resident external 'lib.dll' delayed dispinterface on E: 0FFh "dq" 'un
""".split()
ALPHABET = [a.replace("\\n", "\n") for a in ALPHABET]
# degenerate and boundary spellings of comments, directives, literals and operators (the shortest forms, openers that
# look closed, closers without openers): each is a token boundary the lexical rules decide in one particular way
DEGENERATE = ["(*)", "(*)x*)", "(**)", "(***)", "(*)*)", "{}", "{ }", "(*$*)", "{$}", "{$ }", "''", "''''", "'", "'''", "#", "$", "&", "&&x", "..", "...",
              "(.", ".)", "(*", "*)", "{", "}", "//", "///", "/", "/*", "1..2", "1.e", ".5", "1e", "1e+", "$G", "%2", "#$", "#%", "@@x", "<>", "<=", ">=", ":=",
              "=:", "<<", ">>", "**", "(*{*)", "{(*}", "{//}", "(*//*)", "//{", "//(*"]
ALPHABET += DEGENERATE


def soup(rng, lo=1, hi=10):
    n = rng.randrange(lo, hi + 1)
    seps = [" ", " ", " ", "\n", "\n  ", ""]
    parts = []
    for _ in range(n):
        parts.append(rng.choice(ALPHABET))
        parts.append(rng.choice(seps))
    return "".join(parts)


def soup_exhaustive(k, alphabet=None):
    """all token sequences of length k over the alphabet, separated by single spaces"""
    import itertools
    al = alphabet or ALPHABET
    for tup in itertools.product(al, repeat=k):
        yield " ".join(tup)


def mutate(text, rng, others):
    toks = [t for t in tokenize(text)]
    if not toks:
        return text
    op = rng.randrange(6)
    i = rng.randrange(len(toks))
    if op == 0:  # truncate
        toks = toks[:i]
    elif op == 1:  # delete
        del toks[i]
    elif op == 2:  # duplicate
        toks.insert(i, toks[i])
    elif op == 3:  # splice another seed
        o = tokenize(rng.choice(others))
        if o:
            j = rng.randrange(len(o))
            toks = toks[:i] + o[j:j + rng.randrange(1, 12)] + toks[i:]
    elif op == 4:  # swap
        j = rng.randrange(len(toks))
        toks[i], toks[j] = toks[j], toks[i]
    else:  # insert alphabet token
        toks.insert(i, ("x", " " + rng.choice(ALPHABET) + " "))
    return "".join(t for _, t in toks)


def random_bytes_text(rng, n):
    """arbitrary bytes decoded as text (lossy), with blanks and U+3000 sprinkled in"""
    b = bytes(rng.randrange(256) for _ in range(n))
    s = b.decode("utf-8", errors="replace")
    chars = list(s)
    for _ in range(rng.randrange(0, 4)):
        chars.insert(rng.randrange(len(chars) + 1), rng.choice(["　", "\t", "\x0b", "\x1f", "\r", "\n", "'", "{", "//"]))
    return "".join(chars)


# ------------------------------------------------------------------ configurations

DEFAULT_CFG = (120, 0, 1, 0, 2, 2, 0)


def cfg_str(c):
    return ",".join(str(x) for x in c)


def random_cfg(rng, wrap=None):
    wraps = [10, 20, 30, 45, 60, 80, 100, 120, 200, 1000000]
    return (wrap if wrap is not None else rng.choice(wraps), rng.randrange(2), 0 if rng.random() < 0.2 else 1,
            rng.randrange(2), rng.choice([0, 1, 2, 2, 3, 4, 8]), rng.choice([0, 1, 2, 2, 3]), rng.randrange(2))


# ------------------------------------------------------------------ grammar generator (well-formed by construction)

class Prog:
    """A generated program: text plus, for C05, the (first token text, depth) of each statement head."""

    def __init__(self):
        self.parts = []
        self.marks = []  # (char offset of the statement's first token, depth, kind)

    def text(self):
        return "".join(self.parts)


IDENTS = ["Foo", "Bar", "Baz", "Count", "I", "J", "Value", "Item", "List", "Self", "Result", "Résumé", "Obj", "Data", "Len", "Idx"]
TYPES = ["Integer", "string", "Boolean", "TObject", "TFoo", "Double", "Byte", "TList<Integer>", "TDictionary<string, TFoo>", "array of Integer",
         # every kind of inline type a field, variable, constant or parameter can have
         "class of TFoo", "^TFoo", "set of Byte", "set of (a, b)", "array[0..3] of Byte", "string[10]", "file of Byte", "TProc<Integer>",
         "procedure(A: Integer) of object", "reference to function: Integer", "function(X: Integer): Boolean", "0..9", "TFoo.TNested", "array of array of string"]
# (not `type Integer`: the `type X` alias form is a type DECLARATION, not a variable's type)


# type declarations that occupy one logical line (bodyless struct types, forward declarations, metaclasses,
# aliases, arrays, subranges, enumerations, sets, procedural types, ...): whatever follows must stay a sibling
ONE_LINE_TYPES = ["Integer", "array of string", "^TFoo", "set of Byte", "(a, b, c)", "procedure(A: Integer) of object", "reference to function: Integer",
                  "class", "class(Exception)", "class(TBase, IFoo)", "class(TList<Integer>)", "interface", "interface(IInterface)", "dispinterface",
                  "class of TFoo", "class abstract", "class sealed(TBase)", "class(TObject) end", "record end", "interface(IUnknown) end",
                  "type Integer", "type string", "array[0..9] of Integer", "array[Boolean, 1..3] of string", "0..255", "Low(Byte)..High(Byte)", "string[20]",
                  "file of Byte", "packed array[0..3] of Byte", "TList<Integer>", "TDictionary<string, TList<Integer>>",
                  "function(const A: string; var B: Integer): Boolean", "procedure", "function: Integer of object", "reference to procedure(A: Integer)",
                  "(a = 1, b = 2)", "set of (x, y)", "set of 0..7", "Integer deprecated", "procedure(A: Integer) stdcall", "-1..1", "type TFoo", "^Integer",
                  "class(TBase<T>)", "TFoo.TNested", "array of array of Integer", "array of const"]


class GrammarGen:
    def __init__(self, rng, max_depth=4):
        self.rng = rng
        self.max_depth = max_depth

    def ident(self):
        return self.rng.choice(IDENTS)

    def expr(self, d=0):
        r = self.rng
        c = r.random()
        if d > 2 or c < 0.3:
            return r.choice([self.ident(), str(r.randrange(1000)), "'s%d'" % r.randrange(100), "nil", "True", "$%X" % r.randrange(65536), "1.5e3", "#13#10",
                             "%1010", "#$41", "'a'#13#10'b'", "#%0100#65", "1e+5", "TList<string[10]>.Create", "TMap<string[1 shl 3], Integer>.Create", "&begin", "'it''s'"])
        if c < 0.55:
            return self.expr(d + 1) + " " + r.choice(["+", "-", "*", "/", "div", "mod", "and", "or", "xor", "shl", "=", "<>", "<", ">", "<=", ">=", "in", "is", "as"]) + " " + self.expr(d + 1)
        if c < 0.7:
            return self.ident() + "(" + ", ".join(self.expr(d + 1) for _ in range(r.randrange(0, 4))) + ")"
        if c < 0.78:
            return "(" + self.expr(d + 1) + ")"
        if c < 0.81:
            return self.ident() + "." + self.ident() + "[" + self.expr(d + 1) + "]"
        if c < 0.84:
            # a closing bracket directly followed by an opening one
            return r.choice([self.ident() + "[" + self.expr(d + 1) + "][" + self.expr(d + 1) + "]", self.ident() + "(" + self.expr(d + 1) + ")(" + self.expr(d + 1) + ")",
                             self.ident() + "[" + self.expr(d + 1) + "](" + self.expr(d + 1) + ")", self.ident() + "(" + self.expr(d + 1) + ")[0]", "(" + self.expr(d + 1) + ")[1]"])
        if c < 0.88:
            return "not " + self.expr(d + 1)
        if c < 0.92:
            return "[" + ", ".join(self.expr(d + 1) for _ in range(r.randrange(0, 3))) + "]"
        if c < 0.95:
            return "@" + self.ident()
        if c < 0.97:
            return self.ident() + "^"
        return "-" + self.expr(d + 1)

    def emit(self, p, s):
        p.parts.append(s)

    def mark(self, p, depth, kind):
        p.marks.append((sum(len(x) for x in p.parts), depth, kind))

    def nl(self, p, depth):
        self.emit(p, "\n" + "  " * depth)

    def simple_stmt(self):
        r = self.rng
        c = r.random()
        if c < 0.45:
            return self.ident() + " := " + self.expr()
        if c < 0.75:
            return self.ident() + "(" + ", ".join(self.expr(1) for _ in range(r.randrange(0, 3))) + ")"
        if c < 0.82:
            return self.ident() + "." + self.ident()
        if c < 0.88:
            return "raise " + self.ident() + ".Create(" + self.expr(2) + ")"
        if c < 0.91:
            return "Exit"
        if c < 0.94:
            return "inherited"
        if c < 0.97:
            return self.anon_routine_stmt()
        return "var " + self.ident() + " := " + self.expr()

    def anon_routine_stmt(self):
        """a statement holding an anonymous routine: with parameters, a result type, local declaration sections
        (var / const / type / label), a nested routine, an empty or non-empty body; as an argument or assigned"""
        r = self.rng
        kind = r.choice(["procedure", "function"])
        params = r.choice(["", "", "(A: Integer)", "(const S: string; var N: Integer)", "()"])
        head = kind + params + (": " + r.choice(["Integer", "string", "TFoo"]) if kind == "function" else "")
        decls = ""
        for _ in range(r.choice([0, 0, 1, 1, 2])):
            d = r.random()
            if d < 0.4:
                decls += " var " + self.ident() + ": " + r.choice(["Integer", "string"]) + ";" + r.choice(["", " " + self.ident() + ": Byte;"])
            elif d < 0.6:
                decls += " const " + self.ident() + " = " + str(r.randrange(100)) + ";"
            elif d < 0.7:
                decls += " type T" + self.ident() + " = Integer;"
            elif d < 0.8:
                decls += " label " + self.ident() + ";"
            else:
                decls += " procedure Inner; begin " + self.ident() + " := 1; end;"
        body = " begin " + "; ".join(self.ident() + " := " + self.expr(2) for _ in range(r.randrange(0, 3))) + " end"
        routine = head + decls + body
        c = r.random()
        if c < 0.4:
            return self.ident() + " := " + routine
        if c < 0.8:
            return self.ident() + "." + self.ident() + "(" + r.choice(["", self.expr(2) + ", "]) + routine + r.choice(["", ", " + self.expr(2)]) + ")"
        return self.ident() + "(" + routine + ")"

    def stmt(self, p, depth, nest):
        """emits one statement (without the trailing `;`) starting at the current position"""
        r = self.rng
        c = r.random()
        self.mark(p, depth, "stmt")
        if nest >= self.max_depth or c < 0.5:
            self.emit(p, self.simple_stmt())
            return
        if c < 0.62:
            self.emit(p, "begin")
            self.stmt_list(p, depth + 1, nest + 1)
            self.nl(p, depth)
            self.mark(p, depth, "closer")
            self.emit(p, "end")
        elif c < 0.74:
            self.emit(p, "if " + self.expr(1) + " then ")
            self.mark(p, depth, "ctlbegin")
            self.emit(p, "begin")
            self.stmt_list(p, depth + 1, nest + 1)
            self.nl(p, depth)
            self.mark(p, depth, "closer")
            self.emit(p, "end")
            if r.random() < 0.4:
                self.emit(p, " else ")
                self.mark(p, depth, "ctlbegin")
                self.emit(p, "begin")
                self.stmt_list(p, depth + 1, nest + 1)
                self.nl(p, depth)
                self.mark(p, depth, "closer")
                self.emit(p, "end")
        elif c < 0.80:
            self.emit(p, r.choice(["while " + self.expr(1) + " do ", "for " + self.ident() + " := " + self.expr(2) + " to " + self.expr(2) + " do ",
                                   "for " + self.ident() + " in " + self.ident() + " do ", "with " + self.ident() + " do "]))
            self.mark(p, depth, "ctlbegin")
            self.emit(p, "begin")
            self.stmt_list(p, depth + 1, nest + 1)
            self.nl(p, depth)
            self.mark(p, depth, "closer")
            self.emit(p, "end")
        elif c < 0.86:
            self.emit(p, "repeat")
            self.stmt_list(p, depth + 1, nest + 1)
            self.nl(p, depth)
            self.mark(p, depth, "closer")
            self.emit(p, "until " + self.expr(1))
        elif c < 0.93:
            self.emit(p, "try")
            self.stmt_list(p, depth + 1, nest + 1)
            self.nl(p, depth)
            self.mark(p, depth, "closer")
            kw = r.choice(["finally", "except", "except"])
            self.emit(p, kw)
            if kw == "except" and r.random() < 0.5:
                # exception handlers: `on E: T do <statement>` (body one level deeper when it is a compound statement), an optional else part
                for _ in range(r.randrange(1, 3)):
                    self.nl(p, depth + 1)
                    self.mark(p, depth + 1, "stmt")
                    self.emit(p, "on " + r.choice(["E: ", ""]) + r.choice(["Exception", "EFoo", "EAbort"]) + " do ")
                    if r.random() < 0.5:
                        self.mark(p, depth + 1, "ctlbegin")
                        self.emit(p, "begin")
                        self.stmt_list(p, depth + 2, nest + 1)
                        self.nl(p, depth + 1)
                        self.mark(p, depth + 1, "closer")
                        self.emit(p, "end;")
                    else:
                        self.emit(p, self.simple_stmt() + ";")
                if r.random() < 0.3:
                    self.nl(p, depth)
                    self.mark(p, depth, "closer")
                    self.emit(p, "else")
                    self.stmt_list(p, depth + 1, nest + 1)
            else:
                self.stmt_list(p, depth + 1, nest + 1)
            self.nl(p, depth)
            self.mark(p, depth, "closer")
            self.emit(p, "end")
        else:
            self.emit(p, "case " + self.expr(2) + " of")
            for k in range(r.randrange(1, 4)):
                self.nl(p, depth + 1)
                self.mark(p, depth + 1, "arm")
                lc = r.random()
                if lc < 0.5:
                    labels = "%d" % k
                elif lc < 0.7:
                    labels = "%d..%d" % (10 * k, 10 * k + 5)
                else:
                    # several labels: the label list can wrap while `begin` still has to find its place
                    labels = ", ".join(r.choice(["tk", "cs", "vk"]) + r.choice(IDENTS) + "x" * r.randrange(0, 8) for _ in range(r.randrange(2, 6)))
                if r.random() < 0.35 and nest < self.max_depth:
                    self.emit(p, labels + ": ")
                    self.mark(p, depth + 1, "ctlbegin")
                    self.emit(p, "begin")
                    self.stmt_list(p, depth + 2, nest + 1)
                    self.nl(p, depth + 1)
                    self.mark(p, depth + 1, "closer")
                    self.emit(p, "end;")
                else:
                    self.emit(p, labels + ": " + self.simple_stmt() + ";")
            if r.random() < 0.5:
                self.nl(p, depth)
                self.mark(p, depth, "closer")
                self.emit(p, "else")
                self.stmt_list(p, depth + 1, nest + 1)
            self.nl(p, depth)
            self.mark(p, depth, "closer")
            self.emit(p, "end")

    def stmt_list(self, p, depth, nest):
        for _ in range(self.rng.randrange(1, 4)):
            self.nl(p, depth)
            self.stmt(p, depth, nest)
            self.emit(p, ";")

    def decls(self, p, depth):
        r = self.rng
        for _ in range(r.randrange(0, 3)):
            kind = r.choice(["var", "const", "type"])
            self.nl(p, depth)
            self.mark(p, depth, "section")
            self.emit(p, kind)
            for _ in range(r.randrange(1, 3)):
                self.nl(p, depth + 1)
                self.mark(p, depth + 1, "member")
                if kind == "var":
                    self.emit(p, self.ident() + ": " + r.choice(TYPES) + ";")
                elif kind == "const":
                    self.emit(p, self.ident() + " = " + self.expr(1) + ";")
                else:
                    self.emit(p, "T" + self.ident() + " = " + r.choice(["Integer", "array of string", "^TFoo", "set of Byte", "(a, b, c)", "TList<Integer>"]) + ";")

    def routine(self, p, depth):
        r = self.rng
        self.nl(p, depth)
        self.mark(p, depth, "routine")
        name = self.ident()
        params = "; ".join(r.choice(["", "const ", "var ", "out "]) + self.ident() + ": " + r.choice(TYPES) for _ in range(r.randrange(0, 3)))
        if r.random() < 0.5:
            self.emit(p, f"procedure {name}({params});")
        else:
            self.emit(p, f"function {name}({params}): {r.choice(TYPES)};")
        self.decls(p, depth)
        self.nl(p, depth)
        self.mark(p, depth, "closer")
        self.emit(p, "begin")
        self.stmt_list(p, depth + 1, 0)
        self.nl(p, depth)
        self.mark(p, depth, "closer")
        self.emit(p, "end;")

    # ---- declarations: classes / records / interfaces with visibility sections and nested sections,
    # global sections between routine implementations, constructors / destructors / class methods,
    # initialization / finalization / exports.  Every "section followed by X" combination can occur.
    def method_header(self, owner=None, kinds=None):
        r = self.rng
        k = r.choice(kinds or ["procedure", "function", "constructor", "destructor", "class procedure", "class function", "procedure", "function"])
        name = (owner + "." if owner else "") + r.choice(["Create", "Destroy", "Run", "Bar", "Baz", "GetItem", "Update"])
        params = "; ".join(r.choice(["", "const ", "var "]) + self.ident() + ": " + r.choice(TYPES) for _ in range(r.randrange(0, 3)))
        ps = "(" + params + ")" if params or r.random() < 0.2 else ""
        if k.endswith("function"):
            return k, f"{k} {name}{ps}: {r.choice(TYPES)};"
        return k, f"{k} {name}{ps};"

    def nested_section(self, p, depth):
        r = self.rng
        kind = r.choice(["const", "var", "class var", "type", "threadvar", "const", "var"])
        self.nl(p, depth)
        self.mark(p, depth, "section")
        self.emit(p, kind)
        for _ in range(r.randrange(1, 3)):
            self.nl(p, depth + 1)
            self.mark(p, depth + 1, "member")
            if kind == "const":
                self.emit(p, self.ident() + " = " + self.expr(2) + ";")
            elif kind == "type":
                self.emit(p, "T" + self.ident() + " = " + r.choice(["Integer", "array of string", "set of Byte", "TList<Integer>"]) + ";")
            else:
                self.emit(p, self.ident() + ": " + r.choice(TYPES) + ";")

    def member(self, p, depth, allow, prev=None):
        """prev = kind of the previous member of the same block: a bare field directly after a nested
        section would belong to that section (and is not valid Delphi after const/type), so none is emitted"""
        r = self.rng
        c = r.random()
        if c < 0.3 and "field" in allow and prev != "section":
            self.nl(p, depth)
            self.mark(p, depth, "member")
            self.emit(p, "F" + self.ident() + ": " + r.choice(TYPES) + ";")
            return "field"
        if c < 0.5 and "section" in allow:
            self.nested_section(p, depth)
            return "section"
        if c < 0.6 and "property" in allow:
            self.nl(p, depth)
            self.mark(p, depth, "member")
            self.emit(p, r.choice(["", "class "]) + "property " + self.ident() + ": " + r.choice(TYPES) + " read F" + self.ident() + r.choice(["", " write F" + self.ident()]) + ";")
            return "property"
        self.nl(p, depth)
        self.mark(p, depth, "member")
        _, h = self.method_header(kinds=allow.get("methods"))
        self.emit(p, h + r.choice(["", " virtual;", " override;", " static;", " overload;"]))
        return "method"

    def struct_decl(self, p, depth):
        """TName = class|record|interface ... end;  members one level deeper, visibility keywords at the
        level of the declaration, members under a visibility keyword two levels deeper"""
        r = self.rng
        kind = r.choice(["class", "class", "record", "interface", "object"])
        self.nl(p, depth)
        self.mark(p, depth, "member")
        head = {"class": r.choice(["class", "class(TObject)", "class(TBase, IFoo)", "class sealed", "class abstract"]), "record": r.choice(["record", "packed record"]),
                "interface": r.choice(["interface", "interface(IUnknown)"]), "object": "object"}[kind]
        self.emit(p, "T" + self.ident() + " = " + head)
        allow = {"field": 1, "section": 1, "property": 1}
        if kind == "interface":
            allow = {"property": 1, "methods": ["procedure", "function"]}
        if kind == "record":
            allow = {"field": 1, "section": 1, "property": 1, "methods": ["procedure", "function", "constructor", "class procedure", "class function"]}
        if kind in ("class", "object", "record") and r.random() < 0.7:
            last = None
            for _ in range(r.randrange(0, 3)):
                last = self.member(p, depth + 1, allow, last)   # before any visibility keyword
            for _ in range(r.randrange(1, 4)):
                self.nl(p, depth)
                self.mark(p, depth, "section")
                self.emit(p, r.choice(["private", "protected", "public", "published", "strict private", "strict protected"]))
                last = None
                for _ in range(r.randrange(0, 4)):
                    last = self.member(p, depth + 1, allow, last)
        else:
            last = None
            for _ in range(r.randrange(1, 5)):
                last = self.member(p, depth + 1, allow, last)
        self.nl(p, depth)
        self.mark(p, depth, "closer")
        self.emit(p, "end;")

    def type_section(self, p, depth):
        r = self.rng
        self.nl(p, depth)
        self.mark(p, depth, "section")
        self.emit(p, "type")
        for _ in range(r.randrange(1, 4)):
            if r.random() < 0.7:
                self.struct_decl(p, depth + 1)
            else:
                self.nl(p, depth + 1)
                self.mark(p, depth + 1, "member")
                name = "T" + self.ident() + r.choice(["", "", "", "<T>", "<TKey, TValue>", "<T: class>"])
                self.emit(p, name + " = " + r.choice(ONE_LINE_TYPES) + ";")

    def global_section(self, p, depth):
        r = self.rng
        kind = r.choice(["var", "const", "type", "resourcestring", "threadvar", "var", "const"])
        if kind == "type":
            self.type_section(p, depth)
            return
        self.nl(p, depth)
        self.mark(p, depth, "section")
        self.emit(p, kind)
        for _ in range(r.randrange(1, 3)):
            self.nl(p, depth + 1)
            self.mark(p, depth + 1, "member")
            if kind == "const":
                self.emit(p, self.ident() + r.choice(["", ": Integer"]) + " = " + self.expr(2) + ";")
            elif kind == "resourcestring":
                self.emit(p, "S" + self.ident() + " = 's%d';" % r.randrange(100))
            else:
                self.emit(p, self.ident() + ": " + r.choice(TYPES) + ";")

    def method_impl(self, p, depth):
        r = self.rng
        self.nl(p, depth)
        self.mark(p, depth, "routine")
        _, h = self.method_header(owner=r.choice(["TFoo", "TBar", None]))
        self.emit(p, h)
        self.decls(p, depth)
        self.nl(p, depth)
        self.mark(p, depth, "closer")
        if r.random() < 0.12:
            # assembler body (its instruction lines are verbatim and carry no marks)
            self.emit(p, "asm")
            self.emit(p, "\n" + "  " * (depth + 1) + "mov eax, 1\n" + "  " * (depth + 1) + "ret")
        else:
            self.emit(p, "begin")
            self.stmt_list(p, depth + 1, 1)
        self.nl(p, depth)
        self.mark(p, depth, "closer")
        self.emit(p, "end;")

    def unit_program(self):
        p = Prog()
        r = self.rng
        self.emit(p, "unit " + self.ident() + ";\n\ninterface\n")
        if r.random() < 0.5:
            self.emit(p, "\nuses\n  SysUtils, Classes;\n")
        for _ in range(r.randrange(0, 3)):
            c = r.random()
            if c < 0.6:
                self.type_section(p, 0)
            elif c < 0.85:
                self.global_section(p, 0)
            else:
                self.nl(p, 0)
                self.mark(p, 0, "routine")
                self.emit(p, self.method_header(kinds=["procedure", "function"])[1])
            self.emit(p, "\n")
        self.emit(p, "\nimplementation\n")
        for _ in range(r.randrange(1, 5)):
            if r.random() < 0.45:
                self.global_section(p, 0)
            else:
                self.method_impl(p, 0)
            self.emit(p, "\n")
        c = r.random()
        if c < 0.25:
            self.nl(p, 0)
            self.mark(p, 0, "section")
            self.emit(p, "exports")
            self.nl(p, 1)
            self.mark(p, 1, "member")
            self.emit(p, self.ident() + ";\n")
        if c < 0.6:
            for kw in (["initialization", "finalization"] if r.random() < 0.6 else ["initialization"]):
                self.nl(p, 0)
                self.mark(p, 0, "section")
                self.emit(p, kw)
                self.stmt_list(p, 1, 2)
        self.emit(p, "\n")
        self.mark(p, 0, "closer")
        self.emit(p, "end.\n")
        return p

    def program(self):
        p = Prog()
        r = self.rng
        if r.random() < 0.35:
            return self.unit_program()
        if r.random() < 0.5:
            self.emit(p, "unit " + self.ident() + ";\n\ninterface\n\nimplementation\n")
        else:
            self.emit(p, "program " + self.ident() + ";\n")
        for _ in range(r.randrange(1, 3)):
            self.emit(p, "\n")
            self.routine(p, 0)
            self.emit(p, "\n")
        self.emit(p, "\nend.\n")
        return p


class ChildLineGen(GrammarGen):
    """Programs whose control statements have SINGLE-statement bodies (the child lines of the line wrapper:
    find_optimal_child_lines_solution decides whether a body continues its parent's line, and how `else if`, case arms,
    `on E: T do` and anonymous routines are placed), with trivia — line comments, block comments, multi-line block comments,
    compiler directives, conditional directives — between a controlling keyword and the body, empty statements in every
    position that allows one, and runs of blank lines at line gaps.  Built as a token list; the layout is drawn afterwards."""

    def trivia(self):
        r = self.rng
        c = r.random()
        if c < 0.35:
            return [r.choice(["// c", "// why", "//x", "/// doc"]) + "\n"]
        if c < 0.55:
            return [r.choice(["{c}", "(* c *)", "{ two words }"])]
        if c < 0.7:
            return ["{ first\n  second }"]
        if c < 0.8:
            return [r.choice(["{$R+}", "{$WARN SYMBOL_PLATFORM OFF}", "{$REGION 'x'}"])]
        return ["\n"] + [r.choice(["// own", "{ own }"]) + "\n"]

    def maybe_trivia(self, out, p=0.15):
        if self.rng.random() < p:
            out.extend(self.trivia())

    def long_expr(self):
        r = self.rng
        c = r.random()
        if c < 0.5:
            return self.expr(1)
        if c < 0.8:
            return self.ident() + "(" + ", ".join(self.ident() + "x" * r.randrange(0, 14) for _ in range(r.randrange(2, 7))) + ")"
        return " and ".join("(" + self.ident() + "x" * r.randrange(0, 10) + " " + r.choice(["=", "<>", "<"]) + " " + str(r.randrange(100)) + ")" for _ in range(r.randrange(2, 5)))

    def cl_simple(self):
        r = self.rng
        c = r.random()
        if c < 0.4:
            return [self.ident() + " := " + self.long_expr()]
        if c < 0.7:
            return [self.ident() + "(" + ", ".join(self.expr(1) for _ in range(r.randrange(0, 4))) + ")"]
        if c < 0.78:
            return [r.choice(["Exit", "Break", "Continue", "inherited", "Exit(" + self.expr(2) + ")"])]
        if c < 0.84:
            return ["raise " + self.ident() + ".Create(" + self.expr(2) + ")"]
        if c < 0.92:
            return []          # the empty statement
        return self.cl_anon()

    def cl_anon(self):
        r = self.rng
        out = [r.choice([self.ident() + " :=", self.ident() + "(", self.ident() + "." + self.ident() + "(" + self.expr(2) + ",", "AA :=", "Foo(", "F("])]
        opened = out[0].endswith("(") or out[0].endswith(",")
        self.maybe_trivia(out, 0.08)
        kind = r.choice(["procedure", "function"])
        out.append(kind + r.choice(["", "", "(A: Integer)", "(const S: string; var N: Integer)"]) + (": Integer" if kind == "function" else ""))
        for _ in range(r.choice([0, 0, 1, 2])):
            out.append(r.choice(["var", "const"]))
            for _ in range(r.randrange(1, 4)):
                out.append(self.ident() + (": " + r.choice(["Integer", "string", "TFoo"]) if out[-1] != "const" and "=" not in out[-1] and not out[-1].endswith("= 1;") else " = 1") + ";")
        out.append("begin")
        self.maybe_trivia(out, 0.08)
        for _ in range(r.randrange(0, 3)):
            out.extend(self.cl_stmt(3))
            out.append(";")
        out.append("end")
        if opened:
            if r.random() < 0.3:
                out.append(", " + self.expr(2))
            out.append(")")
        return out

    def body(self, out, nest):
        """the single statement after then / else / do / a case label"""
        self.maybe_trivia(out)
        c = self.rng.random()
        if c < 0.25 and nest < self.max_depth:
            out.append("begin")
            self.maybe_trivia(out, 0.08)
            for _ in range(self.rng.randrange(0, 3)):
                out.extend(self.cl_stmt(nest + 1))
                out.append(";")
            out.append("end")
        else:
            out.extend(self.cl_stmt(nest + 1))

    def cl_stmt(self, nest):
        r = self.rng
        c = r.random()
        out = []
        if nest >= self.max_depth or c < 0.35:
            return self.cl_simple()
        if c < 0.62:
            # if / else-if chains; a `then` body that is itself an `if` without else is given no else here either (dangling else stays unambiguous)
            n_else_if = r.choice([0, 0, 1, 1, 2, 3])
            for k in range(n_else_if + 1):
                out.append("if " + self.long_expr() + " then")
                b = []
                self.body(b, nest)
                if any(t.startswith("if ") for t in b) and not (b and b[0] == "begin") and "begin" not in b:
                    b = ["begin"] + b + ["end"]
                out.extend(b)
                if k < n_else_if:
                    out.append("else")
                    self.maybe_trivia(out, 0.25)
            if r.random() < 0.5:
                out.append("else")
                self.body(out, nest)
            return out
        if c < 0.75:
            out.append(r.choice(["while " + self.long_expr() + " do", "for " + self.ident() + " := " + self.expr(2) + " to " + self.expr(2) + " do",
                                 "for " + self.ident() + " in " + self.ident() + " do", "with " + self.ident() + " do"]))
            self.body(out, nest)
            return out
        if c < 0.9:
            out.append("case " + self.expr(2) + " of")
            self.maybe_trivia(out, 0.08)
            for k in range(r.randrange(1, 4)):
                out.append(r.choice(["%d:" % k, "%d..%d:" % (10 * k, 10 * k + 5), "tk%s, tk%s:" % (self.ident(), self.ident())]))
                self.body(out, nest)
                out.append(";")
            if r.random() < 0.4:
                out.append("else")
                self.maybe_trivia(out, 0.1)
                for _ in range(r.randrange(0, 3)):
                    out.extend(self.cl_stmt(nest + 1))
                    out.append(";")
            out.append("end")
            return out
        if c < 0.96:
            out.append("try")
            out.extend(self.cl_stmt(nest + 1))
            out.append(";")
            if r.random() < 0.5:
                out.append("finally")
                out.extend(self.cl_stmt(nest + 1))
                out.append(";")
            else:
                out.append("except")
                for _ in range(r.randrange(1, 3)):
                    out.append("on " + r.choice(["E: ", ""]) + r.choice(["Exception", "EFoo"]) + " do")
                    self.body(out, nest)
                    out.append(";")
                if r.random() < 0.3:
                    out.append("else")
                    out.extend(self.cl_stmt(nest + 1))
                    out.append(";")
            out.append("end")
            return out
        out.append("repeat")
        out.extend(self.cl_stmt(nest + 1))
        out.append(";")
        out.append("until " + self.expr(1))
        return out

    def program(self):
        r = self.rng
        toks = ["procedure " + self.ident() + ";", "begin"]
        heads = {}     # token index -> (depth, kind) of the statements of the routine's own statement list and of its closer
        for _ in range(r.randrange(1, 4)):
            st = self.cl_stmt(0)
            if st:
                heads[len(toks)] = (1, "stmt")
            toks.extend(st)
            toks.append(";")
        heads[len(toks)] = (0, "closer")
        toks.append("end;")
        self.marks = []
        # layout: after a `//` comment a newline is already there; `;` hugs its statement most of the time
        style = r.random()
        out = []
        for i, t in enumerate(toks):
            if i in heads:
                self.marks.append((sum(len(x) for x in out),) + heads[i])
            out.append(t)
            if i + 1 == len(toks):
                out.append("\n")
                break
            nxt = toks[i + 1]
            if t.endswith("\n"):
                out.append(r.choice(["", "", "  ", "\n", "\n\n\n  "]))
                continue
            if nxt in (";", ")") or nxt.startswith(", "):
                out.append("" if r.random() < 0.9 else r.choice([" ", "\n"]))
                continue
            if t.endswith("(") :
                out.append("" if r.random() < 0.7 else r.choice([" ", "\n    "]))
                continue
            c = r.random()
            if style < 0.3:          # everything on one line unless forced
                out.append(" " if c < 0.95 else "\n")
            elif c < 0.45:
                out.append(" ")
            elif c < 0.9:
                out.append("\n" + " " * r.randrange(0, 7))
            elif c < 0.95:
                out.append("\n\n" + " " * r.randrange(0, 5))
            else:
                out.append("\n\n\n\n")
        return "".join(out)


def child_line_program(rng, with_marks=False):
    g = ChildLineGen(rng, max_depth=3)
    t = g.program()
    return (t, g.marks) if with_marks else t


CP_CONTEXTS = [  # (name, text before the body, text after the body)
    ("then", "if A then", ";"), ("then_else", "if A then", " else Foo;"), ("else", "if A then Foo else", ";"), ("else_in_chain", "if A then Foo else if B then Bar else", ";"),
    ("while", "while A do", ";"), ("for", "for I := 0 to 9 do", ";"), ("forin", "for X in Y do", ";"), ("with", "with A do", ";"),
    ("arm", "case A of 1:", "; end;"), ("arm2", "case A of 1: Foo; 2, 3:", "; else Bar; end;"), ("on", "try Foo; except on E: Exception do", "; end;"),
    ("then_in_arm", "case A of 1: if B then", "; end;"), ("assign_anon", "A := procedure begin if B then", "; end;"), ("arg_anon", "Foo(procedure begin while B do", "; end);"),
]
CP_TRIVIA = [("none", " "), ("line", " // c\n"), ("block", " {c} "), ("mlblock", " { a\n b } "), ("directive", " {$R+} "), ("ifdef", " {$IFDEF X}\n"),
             ("ownline", "\n// own\n"), ("ownblock", "\n{ own }\n"), ("two", " // c\n// d\n")]
CP_BODIES = [("simple", "Bar(1)"), ("empty", ""), ("begin", "begin Bar; Baz end"), ("begin_empty", "begin end"), ("if", "if C then Bar"), ("if_else", "if C then Bar else Baz"),
             ("case", "case C of 1: Bar; end"), ("try", "try Bar; finally Baz; end"), ("repeat", "repeat Bar until C"), ("raise", "raise E.Create('x')"),
             ("anon", "Bar(procedure begin Baz; end)"), ("assign", "Result := Bar + Baz"), ("inherited", "inherited"), ("goto_label", "Lbl: Bar")]
CP_GAPS = [("", ""), ("blank3", "\n\n\n")]


def child_placement_matrix():
    """every controlling context x every trivia between the controlling token and the body x every kind of body (the child
    line whose placement find_optimal_child_lines_solution decides) x a run of blank lines before the body or not"""
    for cn, pre, post in CP_CONTEXTS:
        for tn, tr in CP_TRIVIA:
            for bn, body in CP_BODIES:
                for gn, gap in CP_GAPS:
                    close = "\n{$ENDIF}" if tn == "ifdef" else ""
                    yield ("procedure P;\nbegin\n  " + pre + tr + gap + body + close + post + "\nend;\n", "%s/%s/%s/%s" % (cn, tn, bn, gn))


def placement_marks(text):
    """(char offset, depth, kind) of the controlling statement (a statement of the routine's statement list) and of the routine's closer"""
    return [(text.index("begin\n  ") + 8, 1, "stmt"), (text.rindex("end;"), 0, "closer")]


# declarations the statement-oriented generators never produce (found with tools/coverage.py: branches of parser.rs no stream executed)
RARE_DECLS = [
    "library L;\n\nexports\n  Foo(A: Integer) name 'x' resident,\n  Bar index 3,\n  Baz,\n  Qux name 'q';\n\nbegin\nend.\n",
    "unit U;\n\ninterface\n\nprocedure P; external name 'p';\nprocedure Q; external 'lib.dll' name 'q' delayed;\nfunction R(A: Integer): Integer; stdcall; external 'lib' index 5;\nprocedure S; external;\n\nimplementation\n\nend.\n",
    "unit U;\n\ninterface\n\nvar\n  V: ^Integer;\n  W: ^^TFoo;\n\ntype\n  PRec = ^TRec;\n  TArr = array of ^Integer;\n  TProc = function(A: ^Byte): ^Byte;\n\nimplementation\n\nend.\n",
    "program P;\n\nvar\n  X: Integer;\n\nbegin\n  case X of\n    1: Foo;\n    2..3: begin Bar; end;\n  else\n    Baz;\n  end;\n  case Y of 1: ; end;\nend.\n",
    "unit U;\n\ninterface\n\ntype\n  TFoo = class\n    procedure A; virtual; abstract;\n    function B: Integer; message WM_USER; deprecated 'use C';\n    property P: Integer read FP write FP default 0; default;\n    class operator Add(A, B: TFoo): TFoo;\n  end;\n\nimplementation\n\nend.\n",
    "package Pkg;\n\nrequires\n  rtl,\n  vcl;\n\ncontains\n  UnitA in 'UnitA.pas',\n  UnitB;\n\nend.\n",
    "unit U;\n\ninterface\n\nfunction F(const A; var B; out C): Pointer; overload; inline; platform;\nprocedure G(A: array of const); cdecl; varargs;\n\nimplementation\n\nend.\n",
]


# statements found by the mutant study of the search model (tools/search_mutants.py): each is the shortest input that told one
# surviving one-point mutant of the model from the implementation - shapes no generator produced
RARE_STMTS = [
    ("procedure P;\nbegin\n  raise // c\n    EFoo.Create(Aaaaaaaa + Bbbbbbbb + Cccccccc);\nend;\n", [30, 40, 120]),
    ("type\n  TFoo = class\n    procedure Foo; overload // c\n    ;\n    property P: Integer read FP // c\n    ;\n  end;\n", [30, 120]),
    ("procedure P;\nbegin\n  case X of\n    Cccccccc(procedure begin X; end), Ddddddddd: Bar;\n  end;\nend;\n", [30, 40, 60]),
    ("type\n  TBar = array[Aaaa < Bbbb .. Cccc < Dddd] of Integer;\n", [30, 60, 120]),
    ("procedure P;\nbegin\n  if A then Foo else begin Bar; end;\n  if A then begin Foo; end else begin Bar; end;\nend;\n", [20, 40, 120]),
    ("procedure P; begin if B then case C of 10..15: begin;; end; end; end;\n", [18, 19, 20, 21, 22, 30]),
    ("procedure P;\nbegin\n  Foo(Xxxx := 3, Yyyy := 4);\n  Obj.Method(Aaaa := Bbbb, Cccc := Dddd + Eeee);\nend;\n", [12, 20, 30, 69]),
]


def grammar_program(rng):
    return GrammarGen(rng).program()


def line_comment(rng):
    """a `//` comment exploring the decision space of comment_contents.rs: doc slashes, separator lines
    (>= 10 identical non-alphanumeric characters) around the length boundary, alphanumeric and non-ASCII
    repetitions, missing space after the slashes, trailing blanks of every kind (ASCII whitespace,
    VT/FF, U+3000) — including blanks that pad a short run up to the separator length"""
    prefix = rng.choice(["//", "//", "//", "///", "////"])
    k = rng.random()
    if k < 0.4:
        ch = rng.choice(["-", "=", "*", "#", "~", "+", "_", "/", "!", ".", "x", "1", "\u00e9", "\u2500", "\u3000", "\x0b"])
        body = ch * rng.choice([1, 2, 5, 8, 9, 9, 10, 10, 11, 12, 20])
    elif k < 0.5:
        body = "".join(rng.choice("-=") for _ in range(rng.choice([9, 10, 12])))
    elif k < 0.6:
        body = rng.choice([" ", "  ", "\t"]) + rng.choice(["note", "----------", "x"])
    else:
        body = rng.choice(["x", "note", "TODO: fix", "é", "1.2", "-- section --", ""])
    trailing = rng.choice(["", "", "", " ", "  ", "   ", "\t", " \t ", "\u3000", "\x0b", " \x0b", "\x0c", "\u3000 "])
    return prefix + body + trailing


def directive_text(rng):
    """one compiler / conditional directive exploring the decision space of comment_contents.rs: format_compiler_directive:
    both openers, names in every case (words, single letters, switch lists `R+,Q-`, `Z4`), every separator after the name, a
    rest in which the name's own spelling RECURS (same case, other case, inside an identifier, inside a quoted string), closed or not"""
    opener, closer = rng.choice([("{$", "}"), ("{$", "}"), ("(*$", "*)")])
    word = rng.choice(["region", "if", "ifdef", "ifndef", "define", "undef", "include", "i", "r", "warn", "message", "endif", "else", "elseif", "ifopt", "endregion", "hints", "m", "z4", "a8"])
    case = rng.random()
    name = word if case < 0.5 else word.upper() if case < 0.65 else word.capitalize() if case < 0.8 else "".join(ch.upper() if rng.random() < 0.5 else ch for ch in word)
    c = rng.random()
    if c < 0.2:
        name = ",".join(rng.choice("rqoitw") + rng.choice("+-") for _ in range(rng.randrange(1, 4)))   # switch list
    sep = rng.choice([" ", " ", "  ", "\t", "", "+", "-", ",", "\n"])
    other = name.swapcase() if name.swapcase() != name else name
    rest = rng.choice(["", "", "%s" % name, "'%s: public api'" % name, "defined(ver%sy_inputs) or declared(Not%sy)" % (name, name), "%s_traces" % name, "x%sx %s" % (name, name),
                       "%s" % other, "'%s'" % other, "Foo %s Bar" % name, "é %s" % name, "a.inc", "*.res", "SYMBOL_PLATFORM OFF", "16384,1048576"])
    end = closer if rng.random() < 0.93 else ""
    return opener + name + sep + rest + end


def case_labels_program(rng):
    """a routine whose case statement has arms with SEVERAL labels followed by `begin` (the label list can
    wrap while `begin` continues the last label's line) or by a simple statement; returns (text, header
    line lengths) so that callers can choose wrap columns next to them"""
    depth = rng.randrange(1, 4)
    ind = "  " * depth
    lines = ["procedure Classify(Kind: TKind);", "begin"]
    for d in range(1, depth):
        lines.append("  " * d + rng.choice(["if Ready then begin", "while Busy do begin", "for I := 0 to N do begin"]))
    lines.append(ind + "case " + rng.choice(["Kind", "Token.Kind", "GetKind(Current)"]) + " of")
    lens = []
    for _ in range(rng.randrange(2, 5)):
        labels = ", ".join(rng.choice(["tk", "cs", "vk"]) + rng.choice(["Identifier", "Keyword", "Number", "String", "Comment", "Blank", "Op", "Eof"]) + "x" * rng.randrange(0, 5)
                           for _ in range(rng.randrange(1, 6)))
        if rng.random() < 0.65:
            hdr = ind + "  " + labels + ": begin"
            lines.append(hdr)
            for _ in range(rng.randrange(1, 3)):
                lines.append(ind + "    " + rng.choice(["HandleWord;", "Advance;", "Count := Count + 1;", "Skip(Current, Next);"]))
            lines.append(ind + "  end;")
        else:
            hdr = ind + "  " + labels + ": " + rng.choice(["Skip;", "Handle(Current);"])
            lines.append(hdr)
        lens.append(len(hdr))
    lines.append(ind + "end;")
    for d in range(depth - 1, 0, -1):
        lines.append("  " * d + "end;")
    lines.append("end;")
    return "\n".join(lines) + "\n", lens


SWEEP_CODEPOINTS = ([c for c in range(0x00, 0x21) if c not in (0x0A, 0x0D)] + list(range(0x7F, 0xA1)) +
                    [0xAD, 0x1680, 0x180E] + list(range(0x2000, 0x2010)) + [0x2028, 0x2029, 0x202F, 0x205F, 0x2060,
                     0x2E80, 0x3000, 0x3001, 0xE000, 0xFEFF, 0xFFFD, 0xFFFE, 0x10000, 0xE0020, 0x41, 0x5F, 0xE9, 0x3042])

SWEEP_SHAPES = [  # (name, template, well-formed for every code point)
    ("lc-end", "Foo; //x%s\nBar;\n", True), ("lc-end-blank", "Foo; //x%s \t\nBar;\n", True), ("lc-start", "Foo; //%sx\nBar;\n", True),
    ("lc-only", "//%s\nFoo;\n", True), ("lc-doc", "///%s\nFoo;\n", True), ("lc-mid", "Foo; // a%sb\nBar;\n", True),
    ("bc-end", "Foo; {x%s} Bar;\n", True), ("bc-own", "{%s}\nFoo;\n", True), ("pc-end", "Foo; (*x%s*) Bar;\n", True),
    ("dir-end", "{$IFDEF X%s}\nFoo;\n{$ENDIF}\n", True), ("dir-name", "{$R%s+}\nFoo;\n", True),
    ("between", "Foo%sBar;\n", False), ("spaced", "Foo %s Bar;\n", False), ("str", "S := 'a%sb';\n", True), ("str-end", "S := 'a%s';\n", True),
    ("mlstr", "S := \'\'\'\n  a%s\n  \'\'\';\n", True), ("mlstr-blank", "S := \'\'\'\n  %s\n  \'\'\';\n", True),
    ("eol", "Foo;%s\nBar;\n", False), ("bof", "%sFoo;\n", False), ("eof", "Foo;\n%s", False), ("indent", "begin\n%sFoo;\nend;\n", False),
]


def codepoint_sweep(rng=None, frac=1.0, wellformed_only=False):
    """every code point of a table of blanks, controls, look-alike spaces and format characters in every lexical
    position (ends and starts of the three comment forms, directives, literals, between tokens, line and file ends):
    the positions where the rules trim, split or measure text.  returns [(kind, text)]"""
    out = []
    for name, tpl, wf in SWEEP_SHAPES:
        if wellformed_only and not wf:
            continue
        for cp in SWEEP_CODEPOINTS:
            if rng is not None and frac < 1.0 and rng.random() > frac:
                continue
            out.append(("sweep-" + name, tpl % chr(cp)))
    return out


ASM_INSTR = ["db 'abc', 0", 'db "x", 13, 10', "mov al, 'a'", "and eax, 0FFh", "or al, 101b", "mov eax, %101", "mov eax, 1", "ret", "xor eax, eax", "push ebx", "pop ebx", "@@loop: dec ecx", "jnz @@loop", "mov [edx + 4], al", "db $90, $90", "call System.@LStrClr", "lea eax, [ebp - 8]"]


def asm_pair(rng):
    """a routine (or several) with an asm block, and a variant that differs ONLY in layout outside the instruction lines:
    the indentation of the routine header and of `asm`, the gap before the closing `end`, the gap between `end` and `;`,
    the code after the block.  Bodies: empty, one line, several lines, instructions separated by `;`, last instruction
    ended by `;` or not, a comment line.  returns (text, variant, instruction_region_text)"""
    def gap(kind):
        if kind == "nl":
            return rng.choice(["\n", "\n  ", "\n      ", "\n\t"])
        if kind == "sp":
            return rng.choice([" ", "  ", "\t", "   "])
        return rng.choice(["", " ", "  ", "\n", "\n    "])
    n = rng.choice([0, 0, 1, 2, 3, 5])
    lines = []
    for i in range(n):
        ln = rng.choice(ASM_INSTR)
        if rng.random() < 0.25:
            ln += "; " + rng.choice(ASM_INSTR)
        if rng.random() < 0.3:
            ln += ";"
        if rng.random() < 0.15:
            ln += "  // note"
        lines.append(ln)
    if lines and rng.random() < 0.4:
        lines[-1] = lines[-1].split("  //")[0].rstrip(";") + ";"     # the last instruction ends in a semicolon
    body = "".join("\n  " + rng.choice(["", "  "]) + ln for ln in lines)
    name = rng.choice(["Foo", "Bar", "Baz"])
    kind = rng.choice(["procedure %s;", "function %s: Integer;", "procedure %s; assembler;", "procedure %s(A: Integer); register;"]) % name
    tail = rng.choice(["", "procedure After;\nbegin\n  X := 1;\nend;\n", "begin\n  %s;\nend.\n" % name])
    inline = rng.random() < 0.25     # an asm block as a statement inside begin..end

    def build():
        if inline:
            head = "procedure %s;%sbegin%sX := 1;%sasm" % (name, gap("nl"), gap("nl"), gap("nl"))
            close = (gap("nl") if n else rng.choice([gap("sp"), gap("nl")])) + "end" + gap("any") + ";" + gap("nl") + "Y := 2;" + gap("nl") + "end;\n"
        else:
            head = kind + gap("nl") + "asm"
            close = (gap("nl") if n else (gap("sp") if rng.random() < 0.5 else gap("nl"))) + "end" + gap("any") + ";\n"
        return head + body + close + tail
    a = build()
    b = build()
    return a, b, body
