#!/usr/bin/env python3
"""soak: run the quick (or thorough) check of every property over a range of seeds and list alarms.
usage: soak.py <first_seed> <last_seed> [tier] [prop,prop,...]"""
import os, subprocess, sys, json, time
ROOT = os.path.dirname(os.path.dirname(os.path.abspath(__file__)))
a, b = int(sys.argv[1]), int(sys.argv[2])
tier = sys.argv[3] if len(sys.argv) > 3 else "quick"
props = sys.argv[4].split(",") if len(sys.argv) > 4 else [json.loads(l)["id"] for l in open(os.path.join(ROOT, "properties.jsonl"))]
alarms = 0
for seed in range(a, b + 1):
    for p in props:
        env = dict(os.environ, VERIF_SEED=str(seed))
        t0 = time.time()
        r = subprocess.run([sys.executable, os.path.join(ROOT, "tools", "vpcheck.py"), "--property", p, "--tier", tier], cwd=ROOT, env=env, stdout=subprocess.PIPE, stderr=subprocess.STDOUT, text=True)
        viol = [l for l in r.stdout.splitlines() if l.startswith("VIOLATION")]
        known = [l for l in r.stdout.splitlines() if l.startswith("KNOWN-FINDING")]
        print("seed=%d %s rc=%d %.0fs known=%d %s" % (seed, p, r.returncode, time.time() - t0, len(known), " | ".join(viol)), flush=True)
        if r.returncode != 0:
            alarms += 1
            for v in viol:
                path = v.split("replay=")[1].split()[0]
                try:
                    d = json.load(open(path))
                    print("   ", d.get("kind"), (d.get("detail") or json.dumps(d.get("broken", ""))[:400])[:400], "cfg=", d.get("cfg"), flush=True)
                    if d.get("input_hex"):
                        print("    input:", repr(bytes.fromhex(d["input_hex"]).decode("utf-8", "replace"))[:500], flush=True)
                except Exception as e:
                    print("    (cannot read replay: %s)" % e)
            if r.returncode not in (0, 1):
                print(r.stdout[-1500:])
print("ALARMS", alarms)
