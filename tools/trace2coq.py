#!/usr/bin/env python3
"""trace2coq.py — development helper: the inputs of the search model (Model/WrapFormat.v) for one source text, as Coq
definitions: `<name>_infos : list tokinfo` (type, spaces before, content length, last-line length of a multi-line token)
from the state before the wrapper and `<name>_lines : list lline` from the line list the wrapper sees, both taken from
the implementation's trace.    usage: trace2coq.py <name> <file.pas> [cfg as w,begin,fms,tabs,tw,ci,crlf]"""
import os, re, sys
sys.path.insert(0, os.path.dirname(os.path.abspath(__file__)))
from vlib import runner, build, gen  # noqa: E402
from vlib.runner import Case  # noqa: E402

LANG = os.path.join(build.ROOT, "coq", "theories", "Gen", "Lang.v")


def enums():
    """{enum: {variant: (constructor, arg enum or None)}} from the generated Gen/Lang.v"""
    out, cur = {}, None
    for ln in open(LANG):
        m = re.match(r"Inductive (\w+) : Set :=", ln)
        if m:
            cur = out.setdefault(m.group(1), {})
            continue
        m = re.match(r"\s*\| (\w+?)_(\w+)(?: \(\w+ : (\w+)\))?\.?\s*$", ln)
        if m and cur is not None:
            cur[m.group(2)] = (m.group(1) + "_" + m.group(2), m.group(3))
        elif not ln.strip().startswith("|"):
            cur = None if ln.strip() else cur
    return out


E = enums()


def conv(enum, dbg):
    m = re.match(r"(\w+)(?:\((.*)\))?$", dbg)
    name, inner = m.group(1), m.group(2)
    c, arg = E[enum][name]
    if arg is None:
        return c
    return "(%s %s)" % (c, conv(arg, inner)) if False else "%s %s" % (c, conv(arg, inner) if "(" not in inner else "(" + conv(arg, inner) + ")")


def ml_last(content: bytes):
    pieces = content.split(b"\n")
    if len(pieces) < 2:
        return None
    # str::lines(): a trailing empty piece after a final LF is no line
    lines = pieces[:-1] if pieces[-1] == b"" else pieces
    lines = [l[:-1] if l.endswith(b"\r") and i < len(pieces) - 1 else l for i, l in enumerate(lines)]
    return len(lines[-1]) if len(lines) >= 2 else None


def main():
    name, path = sys.argv[1], sys.argv[2]
    cfg = tuple(int(x) for x in sys.argv[3].split(",")) if len(sys.argv) > 3 else gen.DEFAULT_CFG
    text = open(path, encoding="utf-8").read()
    res, files, wd = runner.run_cases([Case("x", cfg, [], text)], mode="trace")
    toks, lines, lab, slab = [], [], None, None
    for tf in files:
        for ln in open(tf, errors="replace"):
            p = ln.rstrip("\n").split(" ")
            if p[0] == "LINES":
                lab, slab = p[1], None
            elif p[0] == "STATE":
                lab, slab = None, p[1]
            elif p[0] in ("OUT", "PARSED", "GENERICS", "RAW"):
                lab = slab = None
            elif p[0] == "k" and slab == "eofnl":
                toks.append((p[6], int(p[5]), bytes.fromhex(p[8]) if len(p) > 8 and p[8] != "-" else b""))
            elif p[0] == "l" and lab == "pre":
                lines.append((p[1], int(p[2]), int(p[3]), int(p[4]), [int(x) for x in p[6:]]))
    runner.cleanup(wd)
    infos = []
    for ty, sp, content in toks:
        t = conv("TokenType", ty)
        t = "(" + t + ")" if " " in t else t
        ml = ml_last(content) if ty in ("TextLiteral(MultiLine)", "Comment(MultilineBlock)") else None
        infos.append("mkTI %s %d %d %s" % (t, sp, len(content), "None" if ml is None else "(Some %d)" % ml))
    print("Definition %s_infos : list tokinfo :=\n  [%s]." % (name, ";\n   ".join(infos)))
    ls = []
    for lty, level, pl, pt, tl in lines:
        par = "None" if pl < 0 else "(Some (%d, %d)%%nat)" % (pl, pt)
        ls.append("mkLine %s %d %s [%s]%%nat" % (E["LogicalLineType"][lty][0], level, par, "; ".join(str(t) for t in tl)))
    print("Definition %s_lines : list lline :=\n  [%s]." % (name, ";\n   ".join(ls)))


if __name__ == "__main__":
    main()
