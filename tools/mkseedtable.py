#!/usr/bin/env python3
"""prints the markdown table of DESIGN.md Appendix B from seeded/*/meta.json"""
import json, glob, os
ROOT = os.path.dirname(os.path.dirname(os.path.abspath(__file__)))
rows = []
for mp in sorted(glob.glob(os.path.join(ROOT, "seeded", "*", "meta.json"))):
    m = json.load(open(mp))
    name = os.path.basename(os.path.dirname(mp))
    caught = [p for p, r in (m.get("checks_run") or {}).items() if r.get("caught")]
    kinds = sorted({(r.get("detail") or "").split(":")[0] for p, r in (m.get("checks_run") or {}).items() if r.get("caught") and r.get("detail")})
    needs = " ".join(str(m.get("needs", "")).split())[:150]
    rows.append((m.get("round", 1), name, m.get("property", ""), needs, ", ".join(caught) + (" (`" + ", ".join(kinds) + "`)" if kinds else ""), " ".join(str(m.get("first_run", "")).split())))
print("| seeded change | round | property | needs | caught by (violation kind) | first run |")
print("|---|---|---|---|---|---|")
for rnd, name, prop, needs, caught, first in sorted(rows, key=lambda r: (r[2], r[0])):
    print("| `%s` | %d | %s | %s | %s | %s |" % (name, rnd, prop, needs.replace("|", "/"), caught.replace("|", "/"), first.replace("|", "/")))
