#!/usr/bin/env python3
"""Mutation testing of the SEARCH model (the line wrapper): each mutant is a one-point change of
coq/theories/Model/{Requirements,WrapContexts,WrapSearch,WrapFormat}.v (a penalty constant, `<` vs `<=` in a pruning
test, a dropped arm of get_formatting_invariant / get_formatting_requirement / the child-line options, a heap comparison,
the continuation count, a field of the child-line cache key, the indifference point, the first-token formulas, ...).
The mutant is applied to a scratch copy of the model, extracted, and run by the driver units `search` (the hook log
WS/WD/WL/WPHASE and the state after the wrapper) and `e2e` over the input classes

  seeds seeds30 seeds60 seeds120   the seeds at their own width and at 30 / 60 / 120
  matrix                           gen.child_placement_matrix() at 120 and 30
  childline                        gen.child_line_program
  grammar                          gen.grammar_program
  consecutive                      the consecutive-widths statements of props.run_c11 (chain_statement)

The traces of the implementation are produced once; every mutant is run over all classes, the table gives the number of
differing cases per class and the first class that kills.  A mutant without any DIFF ("SURVIVED") is observationally
equivalent or shows a gap in the generators; see RESULTS at the end of this file.

usage: python3 tools/search_mutants.py [--quick] [--jobs N] [--classes c,c,...] [name,name,...]
       python3 tools/search_mutants.py --hunt name,name,... [rounds]     fresh random streams against survivors
       python3 tools/search_mutants.py --witnesses                       the killing inputs of the survivors (WITNESSES), re-checked
       (needs `python3 tools/vpcheck.py --setup`; works in .cache/search_mutants; --quick: seeds, seeds30, matrix and
        300 generated programs per class)

RESULTS (2026-10-02, full run: 103 mutants, 6 205 s with --jobs 4; the unmutated model: 0 DIFF in 45 352 (case, unit) results)
  classes: seeds 1 405 x {own, 30, 60, 120}; matrix 3 528 x {120, 30}; childline 2 000; grammar 2 000; consecutive 250 statements x 24 widths
  88 killed, 15 survive.  Killed by class (any case of the class differs): seeds 80, seeds30 79, seeds60 73, seeds120 64, childline 66,
  grammar 59, matrix 46, consecutive 28.  First killing class in the order above: seeds 80, matrix 1, childline 7.
  Not killed by any seeds class (8): prune_main_index, prune_off (the best_penalties pruning never changes a seed's result),
  heap_extend_always_rebuild (10 childline cases), heap_rebuild_threshold (4 childline cases), indiff_without_child_length,
  child_else_if_must_break_ignored (matrix, childline), binary_after_nil, prec_xor_multiplicative (childline, grammar).
  Thin kills (fewer than 10 differing cases over all classes): cache_key_without_line (the same 2 seeds), cache_cleared_for_phase2 (2 seeds),
  first_mnb_length_without_spaces / first_mnb_length_with_whitespace (1 seed), invariant_unterminated_dropped (2 seeds),
  requirement_caret_type_dropped (1-2 seeds, 1 grammar), child_paren_case_header_ignored (2-4 seeds), heap_rebuild_threshold (4).
  The 15 survivors:
   equivalent
    file_first_token_breaks       token 0 has no previous token, its invariant is MustNotBreak: FirstDecision::Break then takes the same
                                  (is_break = false, spaces + length, can_break = true) as FirstDecision::Continue {0, true}
    asm_lines_wrapped             equivalent behind the pipeline: every AsmInstruction line is voided before the wrapper (220 such lines
                                  after the parser in the asm class, 0 in `LINES pre`); no difference in the classes asm, toggles, crlf
    child_default_arm_always      equivalent on parser output: the parent token of a child line is then / do / else / `:` / `(` / begin /
                                  procedure / function (the only CL_Parent sites of the grammar; the only 8 kinds among 150 464 child lines
                                  of the traces), so the `_` arm is never reached; no difference in 35 334 further inputs (--hunt, with soups)
   killed only by ill-formed input (equivalent on well-formed code, gap only for the robustness streams; found by --hunt in mut2 / soup30)
    first_kids_of_first_option, first_children_penalty_counted
                                  need a FIRST token that is the parent token of child lines (`case A of : B; end;`, `on ; do`): WrapAliasProofs.v
    psb_inactive_too              two `:=` in one line (an Assignment context ended at the first `:=` stays on the stack)
    finalise_useless_assignment_kept, init_assignment_lhs_utility
                                  an Assignment line whose `:=` is not reached at bracket depth 0 of the line (token soup); the well-formed shape
                                  `Foo(Xxxx := 3, Yyyy := 4);` gives different context trees but the same layout at widths 8..69
   gaps in the generators (WITNESSES has a killing input for each; `--witnesses` re-checks them)
    iteration_limit_le            no class reaches the iteration limit; killed by `--classes findings` (the F34 witness: WS .. limit 20001)
    heap_extend_never_rebuild     ties between two successors of one node with a nearly empty heap: `10..15: begin;; end;` under if/case at
                                  width 20; found in 28 800 child-line programs x 16 consecutive widths (class childwidths)
    child_else_begin_bbb_ignored  `else begin` with begin_style = always_wrap: no requested class sets begin_style (e2e_diff's `cfg` set kills it)
    update_raise_arm_dropped      a comment directly after `raise` (the only way to break there)
    semicolon_last_token_test     a routine header / property whose last `;` follows a comment: `procedure Foo; overload // c` + `;`
    children_update_unbroken_dropped  an anonymous routine that continues all its child lines inside a case label list
    prec_dotdot                   `..` next to a comparison in one bracket level: `array[A < B .. C < D]` (valid syntax, never generated)"""
import os, subprocess, sys, time, re, shutil, random, json
from concurrent.futures import ThreadPoolExecutor
ROOT = os.path.dirname(os.path.dirname(os.path.abspath(__file__)))
sys.path.insert(0, os.path.join(ROOT, 'tools'))
M = os.path.join(ROOT, '.cache', 'search_mutants')
MODEL = os.path.join(ROOT, 'coq', 'theories', 'Model')
CHAIN = ["Requirements", "WrapContexts", "WrapSearch", "WrapFormat", "Format"]     # dependency order; Extract.v needs all of them
R, C, S, F = "Requirements", "WrapContexts", "WrapSearch", "WrapFormat"

MUTS = [
 # ---- penalties (mod.rs: get_decision_penalty)
 ("pen_break_default_4", S, "else if routine_type then 256\n  else 3.", "else if routine_type then 256\n  else 4."),
 ("pen_angle_1023", S, "if active IS Some (CT_Brackets BK_Angle _) then 1024", "if active IS Some (CT_Brackets BK_Angle _) then 1023"),
 ("pen_directives_line_dropped", S, "else if (active IS Some CT_DirectivesLine) && (lt IS LLT_RoutineHeader) then 512\n", "\n"),
 ("pen_routine_type_dropped", S, "else if routine_type then 256\n  else 3.", "else 3."),
 ("pen_routine_type_any_colon", S, "| None => lt IS LLT_RoutineHeader\n      end\n    else false in", "| None => true\n      end\n    else false in"),
 ("pen_overflow_base", S, "then 1048576 + (line_length - w_max W) * 3", "then 1048575 + (line_length - w_max W) * 3"),
 ("pen_overflow_factor", S, "then 1048576 + (line_length - w_max W) * 3", "then 1048576 + (line_length - w_max W) * 2"),
 ("pen_overflow_le", S, "else if w_max W <? line_length then 1048576", "else if w_max W <=? line_length then 1048576"),
 ("pen_children_not_added", S, "let pen := fold_left (fun a (ks : nat * solution) => a + sol_pen (snd ks)) kids pen in\n                  mkNode", "let pen := pen in\n                  mkNode"),
 # ---- pruning, iteration limit
 ("prune_mustbreak_le", S, "if n_pen n <? best_at (fst acc) li then", "if n_pen n <=? best_at (fst acc) li then"),
 ("prune_main_le", S, "if best_at best (N.to_nat (N.pred (n_nli nd))) <? n_pen nd then main_loop f h iter best st", "if best_at best (N.to_nat (N.pred (n_nli nd))) <=? n_pen nd then main_loop f h iter best st"),
 ("prune_main_index", S, "if best_at best (N.to_nat (N.pred (n_nli nd))) <? n_pen nd then main_loop f h iter best st", "if best_at best (N.to_nat (n_nli nd)) <? n_pen nd then main_loop f h iter best st"),
 ("prune_off", S, "if best_at best (N.to_nat (N.pred (n_nli nd))) <? n_pen nd then main_loop f h iter best st", "if false then main_loop f h iter best st"),
 ("iteration_limit_le", S, "if w_iter W <? iter then (sst_log (Ev_S (lv_idx lv) (WS_limit iter)) st, SR_limit)", "if w_iter W <=? iter then (sst_log (Ev_S (lv_idx lv) (WS_limit iter)) st, SR_limit)"),
 # ---- the heap (Ord for FormattingNode, BinaryHeap)
 ("heap_tie_swapped", S, "(n_pen a <? n_pen b) || ((n_pen a =? n_pen b) && (n_nli b <? n_nli a))", "(n_pen a <? n_pen b) || ((n_pen a =? n_pen b) && (n_nli a <? n_nli b))"),
 ("heap_tie_ignored", S, "(n_pen a <? n_pen b) || ((n_pen a =? n_pen b) && (n_nli b <? n_nli a))", "(n_pen a <? n_pen b)"),
 ("heap_descend_equal_left", S, "let c := if node_le a b then c2 else c1 in\n            let v := if node_le a b then b else a in\n            descend_bottom f len c (pt_set p (Some v) t)",
  "let c := if node_gt b a then c2 else c1 in\n            let v := if node_gt b a then b else a in\n            descend_bottom f len c (pt_set p (Some v) t)"),
 ("heap_sift_up_past_equal", S, "| Some par => if node_le elt par then pt_set p (Some elt) t else sift_up q elt (pt_set p (Some par) t)", "| Some par => if node_gt par elt then pt_set p (Some elt) t else sift_up q elt (pt_set p (Some par) t)"),
 ("heap_extend_never_rebuild", S, "if better_to_rebuild then\n        match len with", "if false then\n        match len with"),
 ("heap_extend_always_rebuild", S, "if better_to_rebuild then\n        match len with", "if true then\n        match len with"),
 ("heap_rebuild_threshold", S, "if start <? tail_len then true", "if start <=? tail_len then true"),
 # ---- contexts.rs: continuation count, context data
 ("contcount_closing_bracket", S, "if s_broken (st_at d (fst p)) && is_active_at c li && negb closing then acc + c_delta c else acc", "if s_broken (st_at d (fst p)) && is_active_at c li then acc + c_delta c else acc"),
 ("contcount_closing_off_by_one", S, "let closing := match c_end c with Some e => e =? li | None => false end && is_brackets (c_ty c) in", "let closing := match c_end c with Some e => N.succ e =? li | None => false end && is_brackets (c_ty c) in"),
 ("contcount_inactive_too", S, "if s_broken (st_at d (fst p)) && is_active_at c li && negb closing then acc + c_delta c else acc", "if s_broken (st_at d (fst p)) && negb closing then acc + c_delta c else acc"),
 ("active_end_exclusive", C, "negb (c_start c =? li) && match c_end c with None => true | Some e => li <=? e end", "negb (c_start c =? li) && match c_end c with None => true | Some e => li <? e end"),
 ("active_at_start", C, "negb (c_start c =? li) && match c_end c with None => true | Some e => li <=? e end", "match c_end c with None => true | Some e => li <=? e end"),
 ("psb_inactive_too", S, "forallb (fun p : positive * fctx => if is_active_at (snd p) nli then s_can (st_at d (fst p)) else true) stk.", "forallb (fun p : positive * fctx => s_can (st_at d (fst p))) stk."),
 ("glc_at_start", S, "match find (fun p : positive * fctx => negb (c_start (snd p) =? nli) && flt (c_ty (snd p))) stk with\n  | Some (i, c) => Some (c, st_at d i)", "match find (fun p : positive * fctx => flt (c_ty (snd p))) stk with\n  | Some (i, c) => Some (c, st_at d i)"),
 ("children_update_no_bar", S, "dt_upd (fst p) (fun s => mkSt (s_broken s) (s_can s) true (s_oepl s) (Some true)) d) stk d", "dt_upd (fst p) (fun s => mkSt (s_broken s) (s_can s) true (s_oepl s) (s_bar s)) d) stk d"),
 ("children_update_unbroken_dropped", S, "| _ => ulm (fun t => t IS CT_ControlFlowBegin) (fun _ s => mkSt (s_broken s) false (s_child s) (s_oepl s) (s_bar s)) stk nli d", "| _ => d"),
 ("update_default_arm_dropped", S, "      update_operator_precedences stk nli ib d\n    else ulm any_ct brk stk nli d in", "      update_operator_precedences stk nli ib d\n    else d in"),
 ("update_raise_arm_dropped", S, "    else if win IS Some (TT_Keyword KK_Raise) then d\n", "\n"),
 ("update_child_flag_all", S, "if is_active_at (snd p) nli then dt_upd (fst p) (st_child ib) d else d) (tl stk) d in", "if is_active_at (snd p) nli then dt_upd (fst p) (st_child ib) d else d) stk d in"),
 # ---- the child-line cache key (ChildLineInitialConditions)
 ("cache_key_without_length", S, "(k_lll a =? k_lll b) && (k_tok a =? k_tok b) && Nat.eqb (k_line a) (k_line b) && clopt_eqb (k_opt a) (k_opt b)", "(k_tok a =? k_tok b) && Nat.eqb (k_line a) (k_line b) && clopt_eqb (k_opt a) (k_opt b)"),
 ("cache_key_without_token", S, "(k_lll a =? k_lll b) && (k_tok a =? k_tok b) && Nat.eqb (k_line a) (k_line b) && clopt_eqb (k_opt a) (k_opt b)", "(k_lll a =? k_lll b) && Nat.eqb (k_line a) (k_line b) && clopt_eqb (k_opt a) (k_opt b)"),
 ("cache_key_without_line", S, "(k_lll a =? k_lll b) && (k_tok a =? k_tok b) && Nat.eqb (k_line a) (k_line b) && clopt_eqb (k_opt a) (k_opt b)", "(k_lll a =? k_lll b) && (k_tok a =? k_tok b) && clopt_eqb (k_opt a) (k_opt b)"),
 ("cache_key_without_option", S, "(k_lll a =? k_lll b) && (k_tok a =? k_tok b) && Nat.eqb (k_line a) (k_line b) && clopt_eqb (k_opt a) (k_opt b)", "(k_lll a =? k_lll b) && (k_tok a =? k_tok b) && Nat.eqb (k_line a) (k_line b)"),
 ("cache_never_hit", S, "match cache_find key (ss_cache st) with\n               | Some s => (st, sols ++ [s])", "match (if false then cache_find key (ss_cache st) else None) with\n               | Some s => (st, sols ++ [s])"),
 ("cache_cleared_for_phase2", F, "wrap_phase W infos2 lines (fun lv => existsb (Nat.eqb (lv_idx lv)) reflow) st.", "wrap_phase W infos2 lines (fun lv => existsb (Nat.eqb (lv_idx lv)) reflow) (mkSst [] (ss_log st) (ss_fuel_err st))."),
 # ---- successor / indifference compression
 ("indiff_point_latest", S, "let indiff' := match indiff with Some _ => indiff | None => Some nd end in", "let indiff' := Some nd in"),
 ("indiff_overflow_le", S, "match (if w_max W <? last_line_length_of nd then indiff else None) with", "match (if w_max W <=? last_line_length_of nd then indiff else None) with"),
 ("indiff_without_child_length", S, "N.max last_token_length last_child_length.", "last_token_length."),
 ("indiff_not_resumed_after_mnb", S, "| DR_MustNotBreak =>\n              let (st, succ) := potential st nd false in after succ indiff st", "| DR_MustNotBreak =>\n              let (st, succ) := potential st nd false in after succ None st"),
 ("invalid_is_dead_end", S, "| Some ind => let (st, succ) := both st ind in (finish succ, best, st)\n              | None => (WS_stop W_dead, best, st)", "| Some ind => (WS_stop W_dead, best, st)\n              | None => (WS_stop W_dead, best, st)"),
 # ---- the first token (find_optimal_solution's head, format_line)
 ("first_break_length_with_spaces", S, "else (true, match tr_ml r with Some l => l | None => lws_len W ws + tr_len r end, true)", "else (true, match tr_ml r with Some l => l | None => lws_len W ws + tr_sp r + tr_len r end, true)"),
 ("first_continue_length_without_spaces", S, "(false, match tr_ml r with Some l => l | None => line_length + tr_sp r + tr_len r end, can_break)", "(false, match tr_ml r with Some l => l | None => line_length + tr_len r end, can_break)"),
 ("first_mnb_length_without_spaces", S, "then (false, match tr_ml r with Some l => l | None => tr_sp r + tr_len r end, true)", "then (false, match tr_ml r with Some l => l | None => tr_len r end, true)"),
 ("first_mnb_length_with_whitespace", S, "then (false, match tr_ml r with Some l => l | None => tr_sp r + tr_len r end, true)", "then (false, match tr_ml r with Some l => l | None => lws_len W ws + tr_len r end, true)"),
 ("first_kids_of_first_option", S, "let kids := match last_opt' sols with Some k => k | None => [] end in", "let kids := match sols with k :: _ => k | [] => [] end in"),
 ("first_children_penalty_counted", S, "let nd := mkNode ws [TDec dec lll kids] 1 rest d0 pen in", "let nd := mkNode ws [TDec dec lll kids] 1 rest d0 (fold_left (fun a (ks : nat * solution) => a + sol_pen (snd ks)) kids pen) in"),
 ("first_can_break_ignored", S, "let d0 := dt_upd xH (fun s => mkSt (s_broken s) base_can_break (s_child s) (s_oepl s) (s_bar s)) PLeaf in", "let d0 := dt_upd xH (fun s => mkSt (s_broken s) true (s_child s) (s_oepl s) (s_bar s)) PLeaf in"),
 ("first_mustbreak_continue_allowed", S, "if (inv IS Some DR_MustBreak) && negb is_break then (st, SR_none)\n      else", "if false then (st, SR_none)\n      else"),
 ("file_first_token_cannot_break", F, "if g =? 0 then FD_Continue 0 true else FD_Break", "if g =? 0 then FD_Continue 0 false else FD_Break"),
 ("file_first_token_breaks", F, "if g =? 0 then FD_Continue 0 true else FD_Break", "FD_Break"),
 # ---- token lengths
 ("length_without_child_line", S, "| t :: _ => match last_child_line_len (td_kids t) with Some l => l | None => td_lll t end\n                      | [] => 0", "| t :: _ => td_lll t\n                      | [] => 0"),
 ("length_break_without_continuations", S, "| WBreak c => lws_len W (fst ws, snd ws + c) + tr_len r", "| WBreak c => lws_len W ws + tr_len r"),
 ("length_multiline_ignored", S, "  match tr_ml r with\n  | Some l => l\n  | None =>\n      match dec with", "  match (None : option N) with\n  | Some l => l\n  | None =>\n      match dec with"),
 # ---- child lines (find_optimal_child_lines_solution)
 ("child_paren_continue_all_dropped", S, "else [BA child_starting_ws; CO_ContinueAll]", "else [BA child_starting_ws]"),
 ("child_paren_case_header_ignored", S, "if existsb (fun k => match nth_error lvs k with Some lv => lv_type lv IS LLT_CaseHeader | None => false end) (lch_lines lc)\n                then [BA child_starting_ws]", "if false\n                then [BA child_starting_ws]"),
 ("child_colon_order_swapped", S, "else if lch_desc lc =? 1 then [CO_ContinueAll; BA parent_indented_ws]", "else if lch_desc lc =? 1 then [BA parent_indented_ws; CO_ContinueAll]"),
 ("child_colon_semicolon_arm_dropped", S, "else if (first_child_token IS Some (TT_Op OK_Semicolon)) && (lch_desc lc =? 1) && negb must_break_first_child then [CO_ContinueAll]\n", "\n"),
 ("child_then_ctb_dropped", S, "if w_bbb W || must_break_first_child then [BA parent_base_ws]\n                    else [BA parent_base_ws; CTB parent_base_ws]\n                  else [BA parent_base_ws]", "if w_bbb W || must_break_first_child then [BA parent_base_ws]\n                    else [BA parent_base_ws]\n                  else [BA parent_base_ws]"),
 ("child_then_broken_ignored", S, "if broken IS Some false then\n                    if w_bbb W", "if true then\n                    if w_bbb W"),
 ("child_else_if_must_break_ignored", S, "if must_break_first_child then [BA parent_indented_ws] else [CTB parent_base_ws]", "[CTB parent_base_ws]"),
 ("child_else_begin_bbb_ignored", S, "| Some (TT_Keyword KK_Begin) =>\n                    if w_bbb W || must_break_first_child then [BA parent_base_ws] else [CTB parent_base_ws]", "| Some (TT_Keyword KK_Begin) =>\n                    if must_break_first_child then [BA parent_base_ws] else [CTB parent_base_ws]"),
 ("child_begin_descendants_ignored", S, "| Some false => if lch_desc lc <=? 1 then [CO_ContinueAll] else []", "| Some false => [CO_ContinueAll]"),
 ("child_default_arm_always", S, "if glc_d any_ct stk d nli (fun s => s_broken s || s_child s) IS Some true then [BA child_starting_ws] else []", "[BA child_starting_ws]"),
 ("child_deindent_ignored", S, "let ws := (ind - deind, snd base) in", "let ws := (ind, snd base) in"),
 ("child_level_ignored", S, "let ind := fst base + lv_level lv in", "let ind := fst base + 1 in"),
 ("child_ctb_first_cannot_break", S, "| CO_ContinueThenBreak _ _ _ => if first then FD_Continue lll true else FD_Break", "| CO_ContinueThenBreak _ _ _ => if first then FD_Continue lll false else FD_Break"),
 ("child_continue_all_can_break", S, "| CO_ContinueAll => FD_Continue lll false", "| CO_ContinueAll => FD_Continue lll true"),
 ("child_length_not_threaded", S, "let lll := match last_opt' (sol_decs s) with Some t => td_lll t | None => lll end in\n              solve_children", "let lll := lll in\n              solve_children"),
 ("child_starting_continuations_of_node", S, "with Some c => c | None => parent_continuations end in\n      let child_starting_ws", "with Some c => parent_continuations | None => parent_continuations end in\n      let child_starting_ws"),
 ("child_descendants_direct_only", F, "let '(pt, ls, dc) := v in (pt, (if first then line_index :: ls else ls), dc + 1)) cm in", "let '(pt, ls, dc) := v in (pt, (if first then line_index :: ls else ls), (if first then dc + 1 else dc))) cm in"),
 ("child_parent_gap_remap_dropped", F, "| Some m => if m =? snd p then cm_parent cm\n                            else match assoc_find p (cm_parent cm) with\n                                 | Some _ => cm_parent cm\n                                 | None => (p, (fst p, m)) :: cm_parent cm\n                                 end", "| Some m => cm_parent cm"),
 # ---- requirements.rs
 ("invariant_unterminated_dropped", R, "  | Some (TT_Comment (CoK_IndividualLine | CoK_InlineLine | CoK_MultilineBlock)), _\n  | Some (TT_TextLiteral TK_Unterminated), _ => Some DR_MustBreak", "  | Some (TT_Comment (CoK_IndividualLine | CoK_InlineLine | CoK_MultilineBlock)), _ => Some DR_MustBreak"),
 ("invariant_after_multiline_block_dropped", R, "  | Some (TT_Comment (CoK_IndividualLine | CoK_InlineLine | CoK_MultilineBlock)), _\n", "  | Some (TT_Comment (CoK_IndividualLine | CoK_InlineLine)), _\n"),
 ("invariant_multiline_string_dropped", R, "  | _, Some (TT_Comment (CoK_IndividualLine | CoK_IndividualBlock | CoK_MultilineBlock))\n  | _, Some (TT_TextLiteral TK_MultiLine) => Some DR_MustBreak", "  | _, Some (TT_Comment (CoK_IndividualLine | CoK_IndividualBlock | CoK_MultilineBlock)) => Some DR_MustBreak"),
 ("invariant_directive_guard_dropped", R, "if cd_outside_line then Some DR_MustBreak else None", "Some DR_MustBreak"),
 ("invariant_inline_comment_dropped", R, "  | _, Some (TT_Comment (CoK_InlineLine | CoK_InlineBlock)) => Some DR_MustNotBreak\n", "\n"),
 ("map_can_break_indifferent", R, "  | DR_Indifferent, false => DR_MustNotBreak\n", "\n"),
 ("requirement_else_arm_dropped", S, "    else if cur IS Some (TT_Keyword KK_Else) then MB\n", "\n"),
 ("requirement_reference_to_dropped", S, "    else if (win, cur) IS (Some (TT_Keyword KK_Reference), Some (TT_Keyword KK_To)) then MNB\n", "\n"),
 ("requirement_caret_type_dropped", S, "    else if win IS Some (TT_Op (OK_Caret CaK_Type)) then MNB\n", "\n"),
 ("requirement_empty_parens_broken", S, "if_else_or (g (fun t => t IS CT_Brackets BK_Round _) broken_or_child) MB MNB MNB", "MNB"),
 ("requirement_endif_identifier", S, "| Some TT_Identifier => if_else_or (g any_ct s_child) MB IND IND", "| Some TT_Identifier => MB"),
 ("requirement_with_guard", S, "(find (fun p : positive * fctx => c_ty (snd p) IS (CT_CommaList | CT_GuardClause)) stk)) IND MNB IND", "(find (fun p : positive * fctx => c_ty (snd p) IS (CT_CommaList | CT_GuardClause)) stk)) IND IND IND"),
 ("requirement_after_operator", S, "    else if tt_has_prec win then MNB\n", "\n"),
 # ---- contexts.rs: the static context tree
 ("prec_dotdot", C, "| TT_Op OK_DotDot => Some 5%nat", "| TT_Op OK_DotDot => Some 4%nat"),
 ("prec_xor_multiplicative", C, "| TT_Op (OK_Plus | OK_Minus) | TT_Keyword (KK_Or | KK_Xor) => Some 3%nat", "| TT_Keyword KK_Xor => Some 2%nat\n  | TT_Op (OK_Plus | OK_Minus) | TT_Keyword KK_Or => Some 3%nat"),
 ("binary_after_nil", C, "TT_Keyword (KK_Inherited | KK_Nil)) then true", "TT_Keyword KK_Inherited) then true"),
 ("bracket_after_colon_style", C, "        else if prev IS Some (TT_Op OK_Colon) then (BS_BreakClose, 1)\n", "\n"),
 ("bracket_after_comma_expanded", C, "then (if sq then (BS_BreakClose, 1) else (BS_Expanded, 1))", "then (BS_BreakClose, 1)"),
 ("finalise_guard_clause_ignored", C, "if in_prec || anc_guard chain then bc_set_ty t c else c", "if in_prec then bc_set_ty t c else c"),
 ("finalise_useless_assignment_kept", C, "| None => bc_ty c IS (CT_CommaList | CT_Assignment)", "| None => bc_ty c IS CT_CommaList"),
 ("init_assignment_lhs_utility", C, "| LLT_Assignment => b_push_expression (b_push CT_AssignLHS (b_push CT_Assignment b))", "| LLT_Assignment => b_push_expression (b_push_u CT_AssignLHS (b_push CT_Assignment b))"),
 ("semicolon_last_token_test", C, "if (N.succ (b_li b) =? ntoks) && (b_top_ty b IS CT_DirectiveList) then", "if (b_li b =? ntoks) && (b_top_ty b IS CT_DirectiveList) then"),
 ("member_access_after_call_kept", C, "if prev IS Some (TT_Op (OK_RParen | OK_RBrack)) then b_map_top (bc_set_ma false) b else b", "b"),
 # ---- the two phases, the line views
 ("asm_lines_wrapped", F, "if lv_type lv IS LLT_AsmInstruction then st", "if false then st"),
 ("eof_line_wrapped", F, "(match il_parent l with None => negb (il_type l IS LLT_Eof) | Some _ => false end)", "(match il_parent l with None => true | Some _ => false end)"),
 ("phase2_lengths_of_phase1", F, "let st2 := wrap_phase2 W infos2 lines reflow st1 in", "let st2 := wrap_phase2 W infos lines reflow st1 in"),
 ("window_keeps_comments", F, "let win' := match ty with Some t => if is_comment_or_compiler_directive t then win else Some t | None => win end in", "let win' := match ty with Some t => Some t | None => win end in"),
 ("invariant_prev_of_line", F, "let cd := match prevtok with Some x => negb (g =? x + 1) | None => true end in", "let cd := match prevtok with Some x => negb (g =? x + 1) | None => false end in"),
]

CLASSES_FULL = ["seeds", "seeds30", "seeds60", "seeds120", "matrix", "childline", "grammar", "consecutive"]
CLASSES_QUICK = ["seeds", "seeds30", "matrix", "childline", "grammar", "consecutive"]


def chain_statement(rng):
    """props.run_c11's generator of one wrapped statement (chains of qualified calls joined by operators, generic receivers,
    parameter groups); it is local to run_c11 there, hence repeated here"""
    def name():
        return rng.choice(["Helper", "Ledger", "Orders", "Owner", "Currency", "Account", "Balance", "Total", "Page", "Sum", "Item", "Customer"]) + "x" * rng.randrange(0, 6)
    def term():
        t = name() + (rng.choice(["<TCustomerRecord>", "<T>", "<string, Integer>"]) if rng.random() < 0.3 else "")
        for _ in range(rng.randrange(1, 4)):
            t += "." + name() + ("(" + ", ".join(rng.choice([name(), str(rng.randrange(100000)), "'s'"]) for _ in range(rng.randrange(0, 3))) + ")" if rng.random() < 0.8 else "")
        return t
    c = rng.random()
    if c < 0.6:
        body = name() + " := " + (" " + rng.choice(["+", "-", "and", "or", "*"]) + " ").join(term() for _ in range(rng.randrange(2, 4))) + ";"
    elif c < 0.8:
        body = name() + "(" + ", ".join(term() for _ in range(rng.randrange(2, 4))) + ");"
    else:
        groups_ = "; ".join(rng.choice(["const ", "var ", "out ", ""]) + ", ".join(name() for _ in range(rng.randrange(1, 3))) + ": " + rng.choice(["T", "TLongTypeName", "string"]) + rng.choice(["", "", " = 'x'"]) for _ in range(rng.randrange(1, 4)))
        return "type TFoo = class\n  " + rng.choice(["procedure ", "function "]) + name() + "(" + groups_ + ")" + rng.choice(["", ": Integer"]) + ";" + rng.choice(["", " virtual;", " overload; static;"]) + "\nend;\n"
    depth = rng.randrange(0, 3)
    return "procedure P;\nbegin\n" + "begin\n" * depth + body + "\n" + "end;\n" * depth + "end;\n"


def gen_class(name, n, rng):
    from vlib import gen
    import e2e_diff
    if name == "childwidths":     # gen.child_line_program at every width of a window of 16 consecutive widths (ties between equal-cost layouts show at single widths)
        out = []
        for _ in range(max(10, n // 13)):
            t = gen.child_line_program(rng); base = gen.random_cfg(rng); lo = rng.randrange(16, 70)
            for w in range(lo, lo + 16): out.append((t, (w,) + tuple(base[1:])))
        return out
    if name == "consecutive":
        out = []
        for _ in range(max(10, n // 8)):
            text = chain_statement(rng)
            L = max(len(l) for l in text.split("\n"))
            base = gen.random_cfg(rng)
            lo = rng.randrange(max(16, L // 3), max(17, L))
            for w in range(lo, lo + (14 if n < 1000 else 24)):
                out.append((text, (w,) + tuple(base[1:])))
        return out
    return e2e_diff.gen_set(name, n, rng)


def make_traces(classes, n, np_):
    """the implementation's traces, once: .cache/search_mutants/traces/<class>/t<k>_<part>.trace"""
    from vlib import gen, build
    VH = os.path.join(ROOT, '.cache', 'target', 'release', 'vh')
    env = dict(os.environ, VH_CASE_TIMEOUT_MS=os.environ.get("CASE_MS", "30000"), VERIF_ALNUM=build.ALNUM)
    traces = {}
    for name in classes:
        rng = random.Random(7919 + sum(map(ord, name)))
        items = gen_class(name, n, rng)
        wd = os.path.join(M, 'traces', name)
        shutil.rmtree(wd, ignore_errors=True); os.makedirs(wd)
        cases = []
        for i, (t, cfg) in enumerate(items):
            b = t.encode('utf-8', 'replace')
            cases.append("%s%d %s - %s\n" % (name, i, gen.cfg_str(cfg), b.hex() if b else "-"))
        nsh = max(1, min(np_, len(cases) // 8 + 1))

        def one(k):
            mine = cases[k::nsh]; part = 0; out = []
            while mine:
                cf = os.path.join(wd, "c%d_%d.txt" % (k, part)); tf = os.path.join(wd, "t%d_%d.trace" % (k, part))
                with open(cf, "w") as f: f.writelines(mine)
                p = subprocess.run([VH, "trace", cf, tf], capture_output=True, env=env)
                out.append(tf)
                nxt = []
                if p.returncode != 0:       # the harness died in one case: go on after it
                    last = None; ended = set()
                    with open(tf, "rb") as f:
                        for line in f:
                            if line.startswith(b"BEGIN "): last = line.split()[1].decode()
                            elif line.startswith(b"END "): ended.add(line.split()[1].decode())
                    ids = [c.split(" ", 1)[0] for c in mine]
                    if last is not None and last not in ended and last in ids: nxt = mine[ids.index(last) + 1:]
                mine = nxt; part += 1
            return out
        t0 = time.time()
        with ThreadPoolExecutor(max_workers=nsh) as ex:
            traces[name] = [t for ts in ex.map(one, range(nsh)) for t in ts]
        print("TRACES %-12s cases %6d files %2d %.0fs" % (name, len(cases), len(traces[name]), time.time() - t0), flush=True)
    return traces


def pattern(old):
    return re.compile(r"\s+".join(re.escape(p) for p in old.split()))


def sh(cmd, cwd, timeout=None):
    try:
        return subprocess.run(cmd, cwd=cwd, stdout=subprocess.PIPE, stderr=subprocess.STDOUT, text=True, timeout=timeout)
    except subprocess.TimeoutExpired as e:
        class P: returncode = 124; stdout = "TIMEOUT"
        return P()


def prepare_worker(k):
    w = os.path.join(M, 'w%d' % k)
    shutil.rmtree(w, ignore_errors=True)
    shutil.copytree(os.path.join(ROOT, 'coq', 'theories'), os.path.join(w, 'theories'))
    os.makedirs(os.path.join(w, 'extract')); os.makedirs(os.path.join(w, 'pristine'))
    for f in os.listdir(os.path.join(ROOT, 'driver')):
        if f.endswith('.ml'): shutil.copy(os.path.join(ROOT, 'driver', f), os.path.join(w, 'extract', f))
    for m in CHAIN:
        for ext in (".v", ".vo", ".glob", ".vos", ".vok"):
            src = os.path.join(w, 'theories', 'Model', m + ext)
            if os.path.exists(src): shutil.copy(src, os.path.join(w, 'pristine', m + ext))
    return w


def build_mutant(w, fname, old, new):
    """None when built, else the error"""
    for f in os.listdir(os.path.join(w, 'pristine')):
        shutil.copy(os.path.join(w, 'pristine', f), os.path.join(w, 'theories', 'Model', f))
    if fname is not None:
        src = open(os.path.join(w, 'pristine', fname + ".v")).read()
        open(os.path.join(w, 'theories', 'Model', fname + ".v"), "w").write(pattern(old).sub(lambda _: new, src))
        for m in CHAIN[CHAIN.index(fname):]:
            p = sh(["coqc", "-Q", "theories", "PasfmtVerif", "theories/Model/%s.v" % m], w, 1800)
            if p.returncode != 0: return "COQ-ERROR %s %s" % (m, p.stdout[-400:].replace("\n", " "))
    ex = os.path.join(w, 'extract')
    p = sh(["coqc", "-Q", os.path.join(w, 'theories'), "PasfmtVerif", "-o", os.path.join(ex, 'Extract.vo'), os.path.join(w, 'theories', 'Extract', 'Extract.v')], ex, 1800)
    if p.returncode != 0: return "EXTRACT-ERROR " + p.stdout[-400:].replace("\n", " ")
    srcs = ["gen_names.ml", "util.ml", "trace.ml", "common.ml"] + sorted((f for f in os.listdir(ex) if f.startswith("u_") and f.endswith(".ml")), key=lambda f: (f == "u_e2e.ml", f)) + ["main.ml"]
    p = sh(["ocamlfind", "ocamlopt", "-O2", "-w", "-a", "-package", "unix", "-linkpkg", "-o", "driver", "model.mli", "model.ml"] + srcs, ex, 1800)
    if p.returncode != 0: return "OCAML-ERROR " + p.stdout[-400:].replace("\n", " ")
    return None


def run_mutant(w, traces, classes, units):
    """{class: (ok, diffs, first diff line)}"""
    res = {}
    drv = os.path.join(w, 'extract', 'driver')
    for name in classes:
        ok = 0; diffs = 0; first = ""
        for tf in traces[name]:
            q = sh([drv, "check", tf, units], w, int(os.environ.get("RUN_S", "150")))
            if q.returncode == 124:     # the mutant's search explodes (the unmutated model needs a few seconds per file): a difference; skip the rest of the class
                diffs += 1; first = first or "TIMEOUT of the model on " + os.path.basename(tf); break
            if q.returncode != 0:
                diffs += 1; first = first or ("driver exit %d %s" % (q.returncode, q.stdout[-200:].replace("\n", " ")))
            for line in q.stdout.splitlines():
                p = line.split(" ", 4)
                if p[0] == "R":
                    if p[3] == "OK": ok += 1
                    else:
                        diffs += 1
                        if not first: first = ("%s %s: %s" % (p[1], p[2], p[4] if len(p) > 4 else ""))[:230]
        res[name] = (ok, diffs, first)
    return res


# inputs that kill the mutants no requested class kills (found with --hunt, reduced by hand); cfg = (width, begin_style, fms, tabs, tab_width, cont_indent, crlf)
D = (0, 1, 0, 2, 2, 0)
WITNESSES = [
 ("heap_extend_never_rebuild", "procedure P;\nbegin\n  if B then\n    case C of\n      10..15: begin;; end;\n    end;\nend;\n", (20,) + D),
 ("psb_inactive_too", ":= or & dispid object1e *)\n$\n  := (*$ENDIF*) %1010 //c do interface (*", (40,) + D),
 ("children_update_unbroken_dropped", "procedure P;\nbegin\n  case X of\n    Cccccccc(procedure begin X; end), Ddddddddd: Bar;\n  end;\nend;\n", (40,) + D),
 ("update_raise_arm_dropped", "procedure P;\nbegin\n  raise // c\n    EFoo.Create(Aaaaaaaa + Bbbbbbbb + Cccccccc);\nend;\n", (30,) + D),
 ("first_kids_of_first_option", "case A of : B; end;", (120,) + D),
 ("first_children_penalty_counted", "try\n    ;\nexcept\n  on ;  do\n    BTFooException\n  on Exception do\n  A;\nend;", (60,) + D),
 ("child_else_begin_bbb_ignored", "procedure P;\nbegin\n  if A then\n    Foo\n  else begin\n    Bar;\n  end;\nend;\n", (120, 1, 1, 0, 2, 2, 0)),
 ("prec_dotdot", "type\n  TBar = array[Aaaaaaaaaaaa < Bbbbbbbbbbbbb .. Cccccccccccc < Ddddddddddd] of Integer;\n", (60,) + D),
 ("finalise_useless_assignment_kept", "// >= A\n  default Foo > automated #% with) set :=\nproperty out\nor reference public\n  /\nthreadvar %1010 (***)", (120,) + D),
 ("semicolon_last_token_test", "procedure Foo; overload // c\n;\n", (120,) + D),
 ("init_assignment_lhs_utility", "} >> end\n/ override[\n$FF# := (***)\'\'\'\'\nname\n(***)\n{$M ", (120,) + D),
]


def check_witnesses():
    """every witness: the unmutated model agrees with the implementation, the mutant does not"""
    from vlib import gen, build
    VH = os.path.join(ROOT, '.cache', 'target', 'release', 'vh')
    env = dict(os.environ, VH_CASE_TIMEOUT_MS="30000", VERIF_ALNUM=build.ALNUM)
    w = prepare_worker(20)
    wd = os.path.join(M, 'witnesses'); shutil.rmtree(wd, ignore_errors=True); os.makedirs(wd)
    cf = os.path.join(wd, "c.txt"); tf = os.path.join(wd, "t.trace")
    with open(cf, "w") as f:
        for i, (name, t, cfg) in enumerate(WITNESSES):
            f.write("w%d %s - %s\n" % (i, gen.cfg_str(cfg), t.encode('utf-8').hex()))
    subprocess.run([VH, "trace", cf, tf], capture_output=True, env=env)
    def results():
        q = sh([os.path.join(w, 'extract', 'driver'), "check", tf, "search"], w, 600)
        return {int(l.split()[1][1:]): l.split(" ", 3)[3] for l in q.stdout.splitlines() if l.startswith("R ")}
    err = build_mutant(w, None, None, None)
    if err: raise SystemExit(err)
    base = results()
    for i, (name, t, cfg) in enumerate(WITNESSES):
        m = [x for x in MUTS if x[0] == name][0]
        err = build_mutant(w, m[1], m[2], m[3])
        r = err or results().get(i, "?")
        print("WITNESS %-36s unmutated %-4s mutant %s" % (name, base.get(i, "?")[:4], r[:150]), flush=True)


HUNT_SETS = ["childline", "grammar", "mut2", "cfg", "consecutive", "mut", "soup30", "literal", "g_quirks", "g_nest"]


def hunt(names, rounds):
    """for survivors: fresh random streams (other seeds, more generators) until the mutant differs; prints the shortest differing input"""
    from vlib import gen, build
    VH = os.path.join(ROOT, '.cache', 'target', 'release', 'vh')
    env = dict(os.environ, VH_CASE_TIMEOUT_MS="30000", VERIF_ALNUM=build.ALNUM)
    hw = int(os.environ.get('HUNT_W', '9'))     # several hunts side by side: HUNT_W=9, 10, ...
    w = prepare_worker(hw)
    for name, fname, old, new in MUTS:
        if name not in names: continue
        err = build_mutant(w, fname, old, new)
        if err: print("HUNT", name, err); continue
        found = None; tried = 0
        for r in range(1, rounds + 1):
            for cls in HUNT_SETS:
                rng = random.Random(r * 104729 + sum(map(ord, cls)))
                items = gen_class(cls, 1600, rng)
                wd = os.path.join(M, 'hunt%d' % hw); shutil.rmtree(wd, ignore_errors=True); os.makedirs(wd)
                cf = os.path.join(wd, "c.txt"); tf = os.path.join(wd, "t.trace")
                with open(cf, "w") as f:
                    for i, (t, cfg) in enumerate(items):
                        b = t.encode('utf-8', 'replace')
                        f.write("h%d %s - %s\n" % (i, gen.cfg_str(cfg), b.hex() if b else "-"))
                subprocess.run([VH, "trace", cf, tf], capture_output=True, env=env)
                q = sh([os.path.join(w, 'extract', 'driver'), "check", tf, "search"], w, 900)
                tried += len(items)
                bad = []
                for line in q.stdout.splitlines():
                    p = line.split(" ", 4)
                    if p[0] == "R" and p[3] != "OK": bad.append((int(p[1][1:]), p[4] if len(p) > 4 else ""))
                if q.returncode == 124: bad.append((-1, "TIMEOUT"))
                if bad:
                    bad.sort(key=lambda b: len(items[b[0]][0]) if b[0] >= 0 else 0)
                    i, d = bad[0]
                    found = (cls, r, len(bad), items[i] if i >= 0 else None, d); break
            if found: break
        if found:
            print("HUNT %-36s KILLED by %s (round %d, %d differing of 1600, %d inputs tried)\n     cfg %s input %r\n     %s" % (name, found[0], found[1], found[2], tried, found[3][1] if found[3] else "-", found[3][0] if found[3] else "-", found[4][:300]), flush=True)
        else:
            print("HUNT %-36s no difference in %d inputs" % (name, tried), flush=True)


def main():
    args = [a for a in sys.argv[1:]]
    if "--witnesses" in args:
        os.makedirs(M, exist_ok=True)
        return check_witnesses()
    if "--hunt" in args:
        i = args.index("--hunt")
        os.makedirs(M, exist_ok=True)
        return hunt(args[i + 1].split(","), int(args[i + 2]) if len(args) > i + 2 else 3)
    quick = "--quick" in args
    jobs = 4
    if "--jobs" in args:
        jobs = int(args[args.index("--jobs") + 1]); del args[args.index("--jobs"):args.index("--jobs") + 2]
    args = [a for a in args if a != "--quick"]
    classes = CLASSES_QUICK if quick else CLASSES_FULL
    if "--classes" in args:      # any set of tools/e2e_diff.py, e.g. findings (the witnesses of known_findings.json: slow, F34 reaches the iteration limit)
        i = args.index("--classes"); classes = args[i + 1].split(","); del args[i:i + 2]
    only = args[0].split(",") if args else None
    n = 300 if quick else 2000
    units = os.environ.get("UNITS", "search,e2e")
    os.makedirs(M, exist_ok=True)
    todo = []
    for name, fname, old, new in MUTS:
        if only and name not in only: continue
        hits = pattern(old).findall(open(os.path.join(MODEL, fname + ".v")).read())
        if len(hits) != 1:
            print("MUT %-40s SKIP (pattern matches %d times in %s.v)" % (name, len(hits), fname)); continue
        todo.append((name, fname, old, new))
    t0 = time.time()
    traces = make_traces(classes, n, int(os.environ.get('NP', '8')))
    # the unmutated model must agree everywhere: whatever differs here is not the mutant's doing
    w0 = prepare_worker(0)
    err = build_mutant(w0, None, None, None)
    if err: raise SystemExit("baseline: " + err)
    base = run_mutant(w0, traces, classes, units)
    print("BASELINE " + " ".join("%s:%d/%d" % (c, base[c][1], base[c][0] + base[c][1]) for c in classes) + "  (DIFF/cases, both units)", flush=True)
    for c in classes:
        if base[c][1]: print("   baseline DIFF in %s: %s" % (c, base[c][2]))
    results = []

    def work(k):
        w = w0 if k == 0 else prepare_worker(k)
        out = []
        for name, fname, old, new in todo[k::jobs]:
            t1 = time.time()
            err = build_mutant(w, fname, old, new)
            if err:
                print("MUT %-40s %-13s %s" % (name, fname, err), flush=True); out.append((name, fname, "ERROR", None, {})); continue
            tb = time.time() - t1
            r = run_mutant(w, traces, classes, units)
            killed = [c for c in classes if r[c][1] > base[c][1]]
            first = killed[0] if killed else None
            print("MUT %-40s %-13s %-8s first=%-11s [%s] build %.0fs run %.0fs %s" % (
                name, fname, "KILLED" if killed else "SURVIVED", first or "-", " ".join("%s:%d" % (c, r[c][1]) for c in classes if r[c][1]), tb, time.time() - t1 - tb,
                (r[first][2] if first else "")), flush=True)
            out.append((name, fname, "KILLED" if killed else "SURVIVED", first, {c: r[c][1] for c in classes}))
        return out
    with ThreadPoolExecutor(max_workers=jobs) as ex:
        for out in ex.map(work, range(jobs)): results += out
    order = {m[0]: i for i, m in enumerate(MUTS)}
    results.sort(key=lambda r: order[r[0]])
    json.dump(results, open(os.path.join(M, 'results.json' if not only and classes in (CLASSES_FULL, CLASSES_QUICK) else 'results_partial.json'), "w"), indent=1)
    k = sum(1 for r in results if r[2] == "KILLED"); s = [r[0] for r in results if r[2] == "SURVIVED"]
    print("TOTAL mutants %d killed %d survived %d errors %d  (%.0f s)" % (len(results), k, len(s), sum(1 for r in results if r[2] == "ERROR"), time.time() - t0))
    firsts = {}
    for r in results:
        if r[3]: firsts[r[3]] = firsts.get(r[3], 0) + 1
    print("first killing class: " + " ".join("%s:%d" % (c, firsts.get(c, 0)) for c in classes))
    print("survivors: " + " ".join(s))


if __name__ == "__main__":
    main()
