#!/usr/bin/env python3
"""mkseedprompt.py — development helper: the prompt for a seeding sub-agent (property text, anchors, and the mechanisms of the
changes already kept for that property, so that a new one differs).  usage: mkseedprompt.py <Cxx> <worktree> ["focus sentence"]"""
import glob, json, os, sys
ROOT = os.path.dirname(os.path.dirname(os.path.abspath(__file__)))
pid, wt = sys.argv[1], sys.argv[2]
focus = sys.argv[3] if len(sys.argv) > 3 else ""
prop = next(json.loads(l) for l in open(os.path.join(ROOT, "properties.jsonl")) if json.loads(l)["id"] == pid)
where = "; ".join("%s (%s)" % (m["name"], m["where"]) for m in prop["anchors"]["mechanism"])
used = []
for d in sorted(glob.glob(os.path.join(ROOT, "seeded", "*"))):
    m = json.load(open(os.path.join(d, "meta.json")))
    if m.get("property") == pid:
        used.append(" - " + str(m.get("summary", ""))[:230].replace("\n", " "))
print(f"""You are helping to evaluate a verification tool. You are given a scratch git worktree of the Rust project `pasfmt` (an opinionated Delphi/Pascal source formatter: a lexer, a logical-line parser, an optimising line-wrapping formatter and a reconstructor; crates `core`, `orchestrator`, `front-end`) at {wt} . Work ONLY inside {wt}; do not read or write /repo, /verif or any other directory outside it (reading the Rust toolchain / cargo registry is fine). There is no network; use `cargo ... --offline` and set `CARGO_TARGET_DIR={wt}/target`.

Here is a semantic property that users of pasfmt rely on (id {pid}: {prop['title']}):

\"\"\"{prop['statement']}\"\"\"

Where the property lives in the code: {where}

YOUR TASK: make ONE realistic change to the pasfmt sources (the kind of plausible refactoring, optimisation or "simplification" slip a maintainer could make and a reviewer could wave through) that BREAKS this property, while
 (a) the project still compiles without new warnings being necessary to notice,
 (b) the whole existing test suite still passes, unedited: `cargo test --workspace --no-fail-fast --offline` (3212 tests) — you must not edit, delete or add tests or test data, and
 (c) the breakage needs something SPECIFIC to manifest — an unusual but legitimate input, a particular configuration, a multi-step sequence, a particular interleaving or failure at a particular point, or two cooperating sites that each look fine alone — not something ordinary use would expose at once. Prefer a change whose effect is narrow (a small input class) but unquestionably a violation of the property as worded.
{focus}
These mechanisms have been used before — do NOT reuse them or close variants:
""" + "\n".join(used) + f"""

Deliverables, all inside {wt}/SEEDED/ (create the directory):
 1. `patch.diff` — `git -C {wt} diff` of your source change (sources only; it must apply to a clean checkout with `git apply`; do not include SEEDED/ or target/).
 2. `demo.sh` — a bash script, run as `bash SEEDED/demo.sh` from the worktree root, that builds what it needs (`cargo build --offline -q -p pasfmt`, binary at `target/debug/pasfmt`; or a small program of your own placed under SEEDED/) and exits 0 when the property holds on your demonstration input(s) and non-zero when it is violated. It must therefore FAIL (non-zero) with your change applied and PASS (0) on the original sources. When running the binary always pass an explicit `--config-file <some file you create>` so that no stray pasfmt.toml is picked up; use temp dirs and clean them up.
 3. `meta.json` — {{"property": "{pid}", "summary": "<what you changed and why it breaks the property>", "needs": "<exactly what is needed for the breakage to manifest>", "files_changed": [...]}}.
Leave your change APPLIED in the worktree when you finish. Before finishing, verify yourself: the full test suite passes with the change; demo.sh fails with it; after `git apply -R SEEDED/patch.diff` demo.sh passes; then re-apply it with `git apply SEEDED/patch.diff`. Never use `git stash`, `git commit`, `git checkout` or any other git command that writes to the shared repository or discards changes; only `git diff`, `git status` and `git apply`.

Final message: a short description of the change, what it needs to manifest, and the results of those three verifications. If while exploring you notice that the UNMODIFIED sources already violate the property on some input, say so at the end (with the input), but do not use that input in your demo.""")
