#!/usr/bin/env python3
"""Differential runs of the driver unit `grammar` (Model/ParserGrammar.v against the real parser) on generated case sets.
usage: python3 tools/grammar_diff.py <set>[,<set>...] [n] [seed]
sets: fragment special quirks quirks2 portab singles seeds seedsdir pairs pairsfull triples soup soup30 ctxsoup mut mut2 mutdir dirheavy grammar gmut gdir nest asm bytes
needs `python3 tools/vpcheck.py --setup` first; env: DRIVER, RUNDIR, NP, SHOW, KEEP, CASE_MS"""
import sys, os, random, subprocess, time, itertools, shutil
ROOT = os.path.dirname(os.path.dirname(os.path.abspath(__file__)))
sys.path.insert(0, os.path.join(ROOT, 'tools'))
from vlib import gen
from concurrent.futures import ThreadPoolExecutor
VH = os.path.join(ROOT, '.cache', 'target', 'release', 'vh')
DRV = os.environ.get('DRIVER', os.path.join(ROOT, '.cache', 'extract', 'driver'))
CFG='120,0,1,0,2,2,0'
NP=int(os.environ.get('NP','8'))

SMALL = """begin end if then else while do for to repeat until case of try except finally raise with
label var const type class record object interface procedure function constructor property unit program
library uses implementation initialization array packed not and in as on out
private public strict abstract forward external default read index absolute name deprecated helper reference operator
exports asm
; : := = < > ( ) [ ] . , ^
Foo 1 'str'
//c\n {c} {$IFDEF A} {$ELSE} {$ENDIF} {$R *.res}""".split()
SMALL = [a.replace("\\n", "\n") for a in SMALL]

def wrap_directives(text, rng):
    toks = gen.tokenize(text)
    if not toks: return text
    k = rng.randrange(1, 4)
    for _ in range(k):
        i = rng.randrange(len(toks)+1); j = rng.randrange(i, min(len(toks), i+40)+1)
        form = rng.randrange(4)
        if form == 0:
            ins = [(i, "{$IFDEF A}"), (j, "{$ENDIF}")]
        elif form == 1:
            m = rng.randrange(i, j+1)
            ins = [(i, "{$IFDEF A}"), (m, "{$ELSE}"), (j, "{$ENDIF}")]
        elif form == 2:
            m = rng.randrange(i, j+1)
            ins = [(i, "{$IF X}"), (m, "{$ELSEIF Y}"), (j, "{$IFEND}")]
        else:
            ins = [(i, rng.choice(["{$ENDIF}", "{$ELSE}", "{$IFDEF Q}", "{$R x}", "{$D+}"]))]
        for pos, s in sorted(ins, key=lambda x: -x[0]):
            toks.insert(pos, ("dir", " " + s + rng.choice([" ", "\n"])))
    return "".join(t for _, t in toks)

def directive_heavy(rng, n):
    out = []; depth = 0
    for _ in range(n):
        c = rng.random()
        if c < 0.3: out.append("{$IFDEF %s}" % rng.choice("ABC")); depth += 1
        elif c < 0.45 and depth: out.append(rng.choice(["{$ELSE}", "{$ELSEIF X}"]))
        elif c < 0.7 and depth: out.append(rng.choice(["{$ENDIF}", "{$IFEND}"])); depth -= 1
        elif c < 0.75: out.append(rng.choice(["{$ENDIF}", "{$ELSE}"]))
        else: out.append(rng.choice(["Foo;", "begin", "end;", "X := 1;", "if A then", "procedure P;", "var", "A: B;", "case X of", "1: Y;", "{$R x}", "// c", "type T = class", "public", "function F(a: b): c;", "asm", "mov ax, 1", "uses", "A,", "B;"]))
    return rng.choice(["\n", " "]).join(out) + "\n"


STMTS = ["x := 1;", "Foo;", "Foo(a, b);", "a.b := c[d];", "inherited;", "raise e;", "exit", ";", "goto l;", "l:", "x := procedure begin y; end;", "var z := 1;", "{c}", "//c\n", "{$D+}"]
def nest(rng, d):
    if d > 4: return rng.choice(STMTS)
    c = rng.randrange(16)
    sub = lambda: nest(rng, d + 1)
    many = lambda: " ".join(sub() for _ in range(rng.randrange(0, 4)))
    drop = lambda s: "" if rng.random() < 0.15 else s
    if c == 0: return drop("begin ") + many() + drop(" end") + drop(";")
    if c == 1: return drop("if ") + "a " + drop("then ") + sub() + (drop(" else ") + sub() if rng.random() < 0.5 else "")
    if c == 2: return drop("while ") + "a " + drop("do ") + sub()
    if c == 3: return drop("for ") + "i := 1 " + drop("to ") + "2 " + drop("do ") + sub()
    if c == 4: return drop("repeat ") + many() + drop(" until ") + "a" + drop(";")
    if c == 5: return drop("try ") + many() + drop(rng.choice([" except ", " finally "])) + many() + drop(" end") + drop(";")
    if c == 6: return drop("case ") + "a " + drop("of ") + " ".join("%d: %s" % (i, sub()) for i in range(rng.randrange(0, 3))) + (drop(" else ") + many() if rng.random() < 0.4 else "") + drop(" end") + drop(";")
    if c == 7: return drop("procedure ") + "P" + drop("(a: b)") + drop("; ") + (drop("var ") + "v: t; " if rng.random() < 0.5 else "") + (sub() if rng.random() < 0.3 else "") + drop("begin ") + many() + drop(" end") + drop(";")
    if c == 8: return drop("type ") + "T " + drop("= ") + drop(rng.choice(["class ", "record ", "interface ", "object ", "class(A) "])) + " ".join(rng.choice(["a: b;", "procedure p;", "public", "strict private", "property q: r read s;", "case x of 1: (y: z);", "function f: g; virtual;", "class var c: d;", "type u = v;", "const k = 1;", sub()]) for _ in range(rng.randrange(0, 5))) + drop(" end") + drop(";")
    if c == 9: return drop("with ") + "a " + drop("do ") + sub()
    if c == 10: return rng.choice(["var ", "const ", "label ", "threadvar ", "resourcestring "]) + " ".join(rng.choice(["a: b;", "c = d;", "e: f = g;", "h, i: j;", "k;"]) for _ in range(rng.randrange(0, 3)))
    if c == 11: return drop("try ") + many() + drop(" except ") + " ".join(drop("on ") + "e: x " + drop("do ") + sub() for _ in range(rng.randrange(0, 3))) + drop(" end") + drop(";")
    if c == 12: return drop("asm ") + rng.choice(["mov ax, bx\n ret", "", "nop;", "\n"]) + drop(" end") + drop(";")
    if c == 13: return rng.choice(["unit U;", "interface", "implementation", "initialization", "finalization", "end.", "uses a, b;", "program P;", "library L;", "exports a;"])
    if c == 14: return "Foo(" + drop("function") + drop("(a: b)") + ": c " + drop("begin ") + many() + drop(" end") + drop(")") + drop(";")
    return rng.choice(STMTS)


def frag_stmt(rng, depth, closed=False):
    """a random statement of the fragment of Model/Fragment.v (without its `;`):
    ('s',) | ('a',) | ('b', stmts) | ('r', stmts) | ('t', stmts, stmts) | ('x', stmts, stmts) | ('i', stmt) | ('e', stmt, stmt)
    | ('w', stmt) | ('c', [stmt...], None | stmts) | ('h', stmts, [stmt...]) (try/except with `on` handlers); closed: must not end in an if without else"""
    c = rng.randrange(18)
    deep = depth >= 6
    if c == 0 and not deep: return ('b', frag_tree(rng, depth + 1))
    if c == 1 and not deep: return ('r', frag_tree(rng, depth + 1))
    if c == 2 and not deep: return ('t', frag_tree(rng, depth + 1), frag_tree(rng, depth + 1))
    if c == 3 and not deep: return ('x', frag_tree(rng, depth + 1), frag_tree(rng, depth + 1))
    if c == 4: return ('a',)
    if c == 5 and not deep and not closed: return ('i', frag_stmt(rng, depth + 1))
    if c == 6 and not deep: return ('e', frag_stmt(rng, depth + 1, True), frag_stmt(rng, depth + 1, closed))
    if c == 7 and not deep: return ('w', frag_stmt(rng, depth + 1, closed))
    if c == 8 and not deep:
        return ('c', [frag_stmt(rng, depth + 1) for _ in range(rng.randrange(0, 4))], None if rng.randrange(2) else frag_tree(rng, depth + 1))
    if c == 9 and not deep: return ('h', frag_tree(rng, depth + 1), [frag_stmt(rng, depth + 1) for _ in range(rng.randrange(0, 3))])
    return ('s',)
def frag_tree(rng, depth=0):
    return [frag_stmt(rng, depth) for _ in range(rng.randrange(0, 5 if depth < 3 else 2))]
def frag_stmt_text(t, rng, ind):
    sp = lambda: rng.choice(["\n", " "])
    pad = rng.choice(["  " * ind, "", " "])
    k = t[0]
    if k == 's': return rng.choice(["Foo", "x", "Bar1"])
    if k == 'a': return "x" + rng.choice([" := ", ":="]) + "y"
    if k == 'b': return "begin" + sp() + frag_text(t[1], rng, ind + 1) + sp() + pad + "end"
    if k == 'r': return "repeat" + sp() + frag_text(t[1], rng, ind + 1) + sp() + pad + "until Done"
    if k in ('t', 'x'):
        return ("try" + sp() + frag_text(t[1], rng, ind + 1) + sp() + pad + ("finally" if k == 't' else "except") + sp()
                + frag_text(t[2], rng, ind + 1) + sp() + pad + "end")
    if k == 'h':
        txt = "try" + sp() + frag_text(t[1], rng, ind + 1) + sp() + pad + "except" + sp()
        for b in t[2]: txt += pad + "on E" + rng.choice([":", " :", ": "]) + " Exception do" + sp() + frag_stmt_text(b, rng, ind + 1) + ";" + sp()
        return txt + pad + "end"
    if k == 'i': return "if Cond then" + sp() + frag_stmt_text(t[1], rng, ind + 1)
    if k == 'e': return "if Cond then" + sp() + frag_stmt_text(t[1], rng, ind + 1) + sp() + pad + "else" + sp() + frag_stmt_text(t[2], rng, ind + 1)
    if k == 'w': return "while Cond do" + sp() + frag_stmt_text(t[1], rng, ind + 1)
    txt = "case Sel of" + sp()
    for b in t[1]: txt += pad + rng.choice(["A", "B1"]) + rng.choice([":", " :", ": "]) + sp() + frag_stmt_text(b, rng, ind + 1) + ";" + sp()
    if t[2] is not None: txt += pad + "else" + sp() + frag_text(t[2], rng, ind + 1) + sp()
    return txt + pad + "end"
def frag_text(tree, rng, ind=1):
    parts = [rng.choice(["  " * ind, "", " "]) + frag_stmt_text(t, rng, ind) + rng.choice([";", " ;"]) for t in tree]
    return rng.choice(["\n", " ", "\n\n"]).join(parts)
def frag_stmt_len(t):
    k = t[0]
    if k == 's': return 1
    if k == 'a': return 3
    if k == 'b': return 2 + frag_len(t[1])
    if k == 'r': return 3 + frag_len(t[1])
    if k in ('t', 'x'): return 3 + frag_len(t[1]) + frag_len(t[2])
    if k == 'h': return 3 + frag_len(t[1]) + sum(6 + frag_stmt_len(b) for b in t[2])
    if k in ('i', 'w'): return 3 + frag_stmt_len(t[1])
    if k == 'e': return 4 + frag_stmt_len(t[1]) + frag_stmt_len(t[2])
    return 4 + sum(3 + frag_stmt_len(b) for b in t[1]) + (0 if t[2] is None else 1 + frag_len(t[2]))
def frag_len(tree):
    return sum(frag_stmt_len(t) + 1 for t in tree)
def frag_stmt_expected(t, d, k, sm, out, par):
    """appends the expected lines (level, parent, tokens) of parse_file for the statement t from token k on (sm: the
    index of the `;` that joins its last line, as a list) — written directly for the final lines (no empty lines,
    parents as final line indices); returns the next token index (after the statement, before its `;`)"""
    lv = lambda x: min(x, 65535)
    kd = t[0]
    if kd == 's': out.append((lv(d), par, [k] + sm)); return k + 1
    if kd == 'a': out.append((lv(d), par, [k, k + 1, k + 2] + sm)); return k + 3
    if kd == 'b':
        out.append((lv(d), par, [k])); k = frag_expected(t[1], d + 1, k + 1, out, par)
        out.append((lv(d), par, [k] + sm)); return k + 1
    if kd == 'r':
        out.append((lv(d), par, [k])); k = frag_expected(t[1], d + 1, k + 1, out, par)
        out.append((lv(d), par, [k, k + 1] + sm)); return k + 2
    if kd in ('t', 'x'):
        out.append((lv(d), par, [k])); k = frag_expected(t[1], d + 1, k + 1, out, par)
        out.append((lv(d), par, [k])); k = frag_expected(t[2], d + 1, k + 1, out, par)
        out.append((lv(d), par, [k] + sm)); return k + 1
    if kd == 'h':
        out.append((lv(d), par, [k])); k = frag_expected(t[1], d + 1, k + 1, out, par)
        out.append((lv(d), par, [k])); k += 1
        for b in t[2]:
            h = len(out); out.append((lv(d + 1), par, [k, k + 1, k + 2, k + 3, k + 4]))
            e = k + 5 + frag_stmt_len(b)
            frag_stmt_expected(b, 1, k + 5, [e], out, (h, k + 4)); k = e + 1
        out.append((lv(d), par, [k] + sm)); return k + 1
    if kd in ('i', 'w'):
        h = len(out); out.append((lv(d), par, [k, k + 1, k + 2]))
        return frag_stmt_expected(t[1], 1, k + 3, sm, out, (h, k + 2))
    if kd == 'e':
        h = len(out); el = k + 3 + frag_stmt_len(t[1])
        out.append((lv(d), par, [k, k + 1, k + 2, el]))
        frag_stmt_expected(t[1], 1, k + 3, [], out, (h, k + 2))
        return frag_stmt_expected(t[2], 1, el + 1, sm, out, (h, el))
    # case: the child lines of an arm come after the line that follows the arm line
    out.append((lv(d), par, [k, k + 1, k + 2])); k += 3; pending = None
    for b in t[1]:
        idx = len(out); out.append((lv(d + 1), par, [k, k + 1]))
        if pending: frag_stmt_expected(*pending)
        e = k + 2 + frag_stmt_len(b); pending = (b, 1, k + 2, [e], out, (idx, k + 1)); k = e + 1
    if t[2] is None:
        out.append((lv(d), par, [k] + sm))
        if pending: frag_stmt_expected(*pending)
        return k + 1
    out.append((lv(d), par, [k]))
    if pending: frag_stmt_expected(*pending)
    k = frag_expected(t[2], d + 1, k + 1, out, par)
    out.append((lv(d), par, [k] + sm)); return k + 1
def frag_expected(tree, d, k, out, par=None):
    for t in tree:
        e = k + frag_stmt_len(t)
        frag_stmt_expected(t, d, k, [e], out, par); k = e + 1
    return k
def frag_program(rng):
    """a program of the fragment; in half of the cases a unit: `var`/`const`/`type` sections (Model/Fragment.v
    render_unit2) in front of the main block — the section keyword on a line of level 0, every member on its line
    of level 1; the fields of a record or class at level 2, its visibility keywords and `end ;` at level 1"""
    tree = frag_tree(rng)
    sep = lambda: rng.choice(["\n", " "])
    st = {"head": "", "k": 0}; out = []
    def emit(words, level, ntok):
        st["head"] += words + sep(); out.append((level, None, list(range(st["k"], st["k"] + ntok)))); st["k"] += ntok
    def field(level):
        emit(rng.choice(["x", "y1", "Foo"]) + ": " + rng.choice(["T", "u", "Bar"]) + ";", level, 4)
    if rng.random() < 0.5:
        for _ in range(rng.randrange(1, 4)):
            kind = rng.choice(["var", "const", "type"]); emit(kind, 0, 1)
            for _ in range(rng.randrange(0, 4)):
                if kind == "var": field(1)
                elif kind == "const": emit(rng.choice(["x", "y1", "Foo"]) + " = " + rng.choice(["T", "u", "Bar"]) + ";", 1, 4)
                else:
                    cls = rng.random() < 0.5
                    emit(rng.choice(["TA", "tb", "Rec"]) + " = " + ("class" if cls else "record"), 1, 3)
                    for _ in range(rng.randrange(0, 3)): field(2)
                    if cls:
                        for _ in range(rng.randrange(0, 3)):
                            emit(rng.choice(["private", "public"]), 1, 1)
                            for _ in range(rng.randrange(0, 3)): field(2)
                    emit("end;", 1, 2)
    k = st["k"]
    text = st["head"] + "begin" + sep() + frag_text(tree, rng) + sep() + "end."
    out.append((0, None, [k]))
    k = frag_expected(tree, 1, k + 1, out)
    return text, out + [(0, None, [k, k + 1]), (0, None, [k + 2])]

def gen_set(name, n, rng):
    texts = [s["text"] for s in gen.seeds()]
    if name == "seeds": return texts
    if name == "seedsdir": return [wrap_directives(t, rng) for t in texts for _ in range(max(1, n // len(texts)))]
    if name == "mut": return [gen.mutate(rng.choice(texts), rng, texts) for _ in range(n)]
    if name == "mut2":
        out = []
        for _ in range(n):
            t = rng.choice(texts)
            for _ in range(rng.randrange(2, 6)): t = gen.mutate(t, rng, texts)
            out.append(t)
        return out
    if name == "mutdir": return [wrap_directives(gen.mutate(rng.choice(texts), rng, texts), rng) for _ in range(n)]
    if name == "soup": return [gen.soup(rng, 1, 12) for _ in range(n)]
    if name == "soup30": return [gen.soup(rng, 10, 30) for _ in range(n)]
    if name == "singles": return list(gen.ALPHABET)
    if name == "pairs": return [" ".join(t) for t in itertools.product(SMALL, repeat=2)]
    if name == "pairsfull": return [" ".join(t) for t in itertools.product(gen.ALPHABET, repeat=2)]
    if name == "triples": return [" ".join(rng.choice(gen.ALPHABET) for _ in range(3)) for _ in range(n)]
    if name == "dirheavy": return [directive_heavy(rng, rng.randrange(2, 30)) for _ in range(n)]
    if name == "grammar": return [gen.grammar_program(rng).text() for _ in range(n)]
    if name == "bytes": return [gen.random_bytes_text(rng, rng.randrange(1, 60)) for _ in range(n)]
    if name == "ctxsoup":
        # soups inside typical contexts
        pre = ["type T = class ", "type T = record case x of 1: (", "begin ", "procedure P; ", "try ", "case x of 1: ", "unit U; interface ", "var ", "const ",
               "function F(", "property P: ", "type T = ", "begin x := procedure ", "uses ", "exports ", "asm ", "package P; requires ", "type T = class public ", "repeat ", "begin try except on "]
        return [rng.choice(pre) + gen.soup(rng, 1, 10) for _ in range(n)]

    if name == "gmut":
        out = []
        for _ in range(n):
            t = gen.grammar_program(rng).text()
            ts = [t] + texts[:50]
            for _ in range(rng.randrange(1, 5)): t = gen.mutate(t, rng, ts)
            out.append(t)
        return out
    if name == "gdir": return [wrap_directives(gen.grammar_program(rng).text(), rng) for _ in range(n)]
    if name == "nest":
        return [nest(rng, 0) for _ in range(n)]
    if name == "asm":
        al = ["asm", "end", ";", "mov", "ax", ",", "bx", "@lbl:", "\n", "\n", "\r\n", "//c\n", "{c}", "'s'", "begin", "procedure", "P", "[", "]", "(", ")", "{$IFDEF A}", "{$ENDIF}", "{$ELSE}", "end;", "end.", "db", "$FF"]
        return [" ".join(rng.choice(al) for _ in range(rng.randrange(1, 25))).replace(" \n ", "\n") for _ in range(n)]
    if name == "quirks":
        return ["type t = record case x end;", "type t = record case x of 1: (a: b) end; var x: y;", "type t = class strict {c} private a: b; end;", "type t = class strict //c\n private a: b; end;",
                "{$IFDEF A}{$D+}{$ENDIF}", "{$D+}", "a {$D+} b", "{$IFDEF A} {$D+} x {$ENDIF}", "{$IFDEF A} x {$D+} {$ENDIF}", "x {$IFDEF A} {$D+} {$ELSE} {$R y} {$ENDIF} z",
                "[Attr] procedure Foo;", "[Attr]\n[B(1)] type T = class [C] a: b; end;", "begin lbl: x; 1: y; end", "if a then ; ;", "if a then else ; ;", "while a do ;;; b", "case a of 1: ; 2: ;; else ; end",
                "raise", "exports", "property", "function", "procedure (", "procedure ((", "function f(a: b = c; d: e = f): g; overload; begin end;", "type t = class procedure a; virtual; abstract; property b: c read d; default; end;",
                "unit a deprecated 'x' platform; interface", "library a; {c} unit b;", "//c\nunit a;", "x; unit a;", "package p; requires a, b; contains c in 'd';", "program p; requires a;",
                "type a = class of b; c = class; d = class(e); f = class(g) end; h = class abstract(i) end; j = class sealed: k; end;", "type a = record helper for b end; c = class helper (d) for e procedure f; end;",
                "var a: b absolute c; d absolute: e; absolute: f;", "var a: procedure(b: c) of object; d: function: e; f: reference to function(g: h): i;", "const a: array[1..2] of const = (1, 2); b = c;",
                "type a = array of const; b = set of (c, d); e = (f = 1, g = (2));", "for var a := 1 to 2 do for b in c do with d, e do while f do repeat until g",
                "try a; except on b: c do d; on e do f; else g; end; try finally end; try except end else", "begin asm end; asm end end", "begin a := procedure begin b end; c(function: d begin end, e); end",
                "a := b(procedure var c: d; const e = f; type g = h; label i; procedure j; begin end; function k: l; var m: n; begin end; begin end)", "a<b>.c<d, e>(f); g := h < i > j;", "type a<b: class> = class(c<b>) end; d = e<f>.g;",
                "function a: b; external 'c' name 'd' delayed; function e: f; external; function g: h; external name 'i'; procedure j; forward; procedure k; message 1; deprecated;",
                "procedure a; var b: c; procedure d; begin end; const e = f; begin end; procedure g; asm mov ax, 1 end;", "type a = class public type b = c; const d = e; var f: g; class var h: i; class function j: k; static; class operator in(l: m): n; strict protected end",
                "interface uses a; type b = interface ['{x}'] function c: d; property e: f read c; end; implementation initialization a; finalization b; end.", "begin end. begin end; x",
                "const a = 1 deprecated; b = c deprecated 'x'; d: e = (f) platform; g = [h] library; i = j experimental deprecated;", "var a: b deprecated; c: d = e platform; f, g: h; library: i;",
                "case a of b: c; d, e: begin end; f..g: if h then i else j; else k; l; end;", "case a of 1: case b of 2: c; end; else end", "type a = record b: c; case d: e of f: (g: h); i: (j: k; case l of m: (n: o)); end;",
                "if a then if b then c else d else e; if f then begin end else begin end; if g then else;", "if a then begin b; end else if c then begin d; end else begin e; end;", "uses a, b in 'c', {$IFDEF d} e, {$ENDIF} f;", "exports a, b name 'c', d index 1, e resident, f(g: h) name 'i';",
                "label a, b; begin goto a; a: b: c; end", "threadvar a: b; resourcestring c = 'd'; e = 'f';", "type a = type b; c = type of d; e = ^f; g = packed record end; h = packed class end; i = interface end; j = dispinterface ['k'] end;",
                "var a: b; begin var c := d; const e = f; var g: h := i; for var j in k do; end;", "property a[b: c]: d read e write f; default; property g: h index 1 read i stored j default k nodefault; property l: m implements n, o; property p: ^q read r;",
                "procedure a(b: c; const d: e; var f; out g: h; i: array of const; j: k = l; [m] n: o);", "procedure a(out: b; const: c; var out: d);", "function a.b<c>.d(e: f): g<h>; function operator.implicit(a: b): c; class operator a.implicit(b: c): d;", "procedure a.b = c; function d.e = f.g;",
                ]
    if name == "quirks2":
        return ["case a of 1: x; ^b: y; end", "case a of 1: ^b; 2: c^ := d; end", "case a of 1: begin end ^x", "case a of 1: ; ^", "type t = class a: ^b; c: class of d; e: procedure(f: ^g); end;",
                "[a < b] procedure c;", "[a < b]\nprocedure c; begin end;", "raise (a < b) c;", "raise [a < b] c; d;", "exports a(b < c) d, e;", "type a = b<c; d = e;", "type a<b = c>d; e = f;", "function a<b(c < d): e; begin end;", "x(a < b, c > d); y[a < b]; z<a>(b);",
                "property a[read, write: b]: c read d;", "x = class case y; end; case z; end a b c;", "x = record\n  case y;\nend;\ncase z;\nend\nprocedure Foo;\nbegin\n  Bar;\nend;\n", "begin repeat a; until x of y; z; end; w;", "property a[stored] b;", "property a b [stored] c;", "property a: b c [read d, write] write e; f [default];", "property a[b, read]: c; d[write];", "property a[default] read b[nodefault, index];", "property a[b: c; default: d]: e read f default;", "property a[index: b]: c index 1 read d;", "property a: b read c[read] write d[e, write]; default;", "property a[b: c]: d read e; default; f: g;",
                "asm\n  mov ax, bx\n  ret ; x\n\n  @l: nop end;", "asm mov\r\nax end", "begin asm\nend; x end", "asm //c\n mov {c} ax\n{$D+}\n end",
                "procedure a(b: array of const; c: d); procedure e(f: array of const);", "procedure a(b: c) (d: e); begin end;", "procedure a(b: c; const d; var e: f = (1)); begin end", "procedure a(b: c = (d)); procedure a(;); procedure a();",
                "type t = record case a of 1: (b: c); 2: (lbl: d; e: (f, g)); end;", "type t = record case integer of 0: (a: b;); 1: (); end; var x: y;", "type t = record case a of (b: c) end;",
                "begin end. {$IFDEF A} x {$ENDIF}", "x; {$IFDEF A}{$ELSE}{$ENDIF}", "{$IFDEF A} unit a; {$ELSE} program b; {$ENDIF} uses c;", "{$IFDEF A} procedure a; {$ELSE} function a: b; {$ENDIF} begin end;",
                "{$IFDEF A} if a then {$ELSE} if b then {$ENDIF} c else d;", "begin {$IFDEF A} a {$ELSE} b {$ENDIF} ; c end", "type t = class {$IFDEF A} private {$ELSE} public {$ENDIF} a: b; end;",
                "begin\n  x;\n  {$IFDEF B}{$ENDIF}\n  {$D+}\n  y;\nend.", "begin\n  x;\n  {$IFDEF B}\n  {$D+}\n  {$ENDIF}\n  y;\nend."]
    if name == "portab":
        return ["const Foo = 1 deprecated; // comment", "const Foo = 1 deprecated; {c} // comment", "var a: b platform; {c}", "var a: b platform {c}; //d", "type t = class a: b deprecated; //c\n c: d library; end;",
                "const a = 1 deprecated //c\n;", "a: ; //c", "var a: b; //c", "var a: b = c experimental; //c\n d: e platform;{x}{y}", "const a = b deprecated 'x'; //c", "var a: b //c\n deprecated; //d",
                "{c} const {d} a = 1 {e} deprecated {f}; {g}", "const a = (1) deprecated; //x\n b = [2] platform; //y", "type t = record a: b; //c\n end deprecated; //d", "unit a deprecated; //c"]
    if name == "fragment": return [frag_program(rng)[0] for _ in range(n)]
    if name == "special":
        return ["if begin", "function ^", "procedure Foo()();", ":", "object for end var do ; case write except function", "(((", ")))", "end. foo bar;", "begin end. x := 1;",
                "a := b;", "", " ", "//x", "{$R x}", "{$IFDEF A}{$ENDIF}", "[", "]", "<", "a<b>c", "type a<b = c;", "case", "case of", "case x of", "of", "then", "else", "do",
                "class operator in", "class operator In(a: b): c;", "x: y absolute z;", "raise x at y;", "raise at", "property", "property a: b read c write d; default;",
                "exports a name 'b' index 1 resident, c(d);", "uses a in 'b', c;", "asm mov ax, bx\n  ret\nend;", "asm ; ; end", "type t = (a = 1, b = 2);",
                "procedure a.b = c;", "function a: b; external 'c' name 'd'; deprecated 'x';", "var a: b = c deprecated;", "const a = 1 platform; b = (2) library;",
                "label a; begin a: x; end", "try except on e: x do y; else z; end;", "for var i in x do y", "for i := 1 to 2 do ;", "repeat until", "with a do;",
                "type t = class helper(a) for b end;", "type t = class abstract; t2 = class sealed(x) end;", "type t = record case a: b of 1: (c: d; case e of 2: (f: g)); end;",
                "type t = interface ['{guid}'] procedure a; end;", "type t = reference to procedure; t2 = procedure of object; t3 = type of x; t4 = ^x; t5 = type x;",
                "x := function(a: b; const c; var d: e = f): g begin end;", "x(procedure begin end, function: a var b: c; const d = 1; type e = f; label g; procedure h; begin end; begin end);"]
    raise SystemExit("unknown set " + name)

def run(name, texts, keep=False):
    wd = os.path.join(os.environ.get('RUNDIR', os.path.join(ROOT, '.cache', 'run', 'grammar_diff')), name)
    shutil.rmtree(wd, ignore_errors=True); os.makedirs(wd)
    cases = []
    for i, t in enumerate(texts):
        b = t.encode('utf-8', 'replace')
        cases.append("%s%d %s - %s\n" % (name, i, CFG, b.hex() if b else "-"))
    nsh = max(1, min(NP, len(cases) // 8 + 1))
    def one(k):
        mine = cases[k::nsh]
        outs = []; errs = ""; th = td = 0.0; rcs = 0; qrc_all = 0; part = 0
        while mine:
            cf = os.path.join(wd, "c%d_%d.txt" % (k, part)); tf = os.path.join(wd, "t%d_%d.trace" % (k, part))
            with open(cf, "w") as f: f.writelines(mine)
            t0 = time.time()
            p = subprocess.run([VH, "trace", cf, tf], capture_output=True, env=dict(os.environ, VH_CASE_TIMEOUT_MS=os.environ.get("CASE_MS", "30000")))
            t1 = time.time()
            q = subprocess.run([DRV, "check", tf, "grammar"], capture_output=True)
            t2 = time.time()
            th += t1 - t0; td += t2 - t1
            outs.append(q.stdout.decode('utf-8', 'replace')); errs += q.stderr.decode('utf-8', 'replace')[-300:]
            if q.returncode != 0: qrc_all = q.returncode
            nxt = []
            if p.returncode != 0:
                rcs += 1
                last = None; ended = set()
                with open(tf, "rb") as f:
                    for line in f:
                        if line.startswith(b"BEGIN "): last = line.split()[1].decode()
                        elif line.startswith(b"END "): ended.add(line.split()[1].decode())
                ids = [c.split(" ", 1)[0] for c in mine]
                if last is not None and last not in ended and last in ids:
                    nxt = mine[ids.index(last) + 1:]
            if not keep:
                try: os.remove(tf)
                except OSError: pass
            mine = nxt; part += 1
        return rcs, qrc_all, "".join(outs), errs, th, td
    ok = 0; diffs = []; xs = []; dt = 0.0; crashed = 0
    with ThreadPoolExecutor(max_workers=nsh) as ex:
        for rc, qrc, out, err, th, td in ex.map(one, range(nsh)):
            dt += td
            crashed += rc
            if qrc != 0: diffs.append(("<driver>", "exit %d %s" % (qrc, err)))
            for line in out.splitlines():
                p = line.split(" ", 4)
                if p[0] == "R":
                    if p[3] == "OK": ok += 1
                    else: diffs.append((p[1], p[4] if len(p) > 4 else ""))
                elif p[0] == "X": xs.append(line)
    return ok, diffs, xs, dt, crashed

if __name__ == "__main__":
    sets = sys.argv[1].split(",")
    n = int(sys.argv[2]) if len(sys.argv) > 2 else 1000
    seed = int(sys.argv[3]) if len(sys.argv) > 3 else 1
    show = int(os.environ.get("SHOW", "5"))
    for name in sets:
        rng = random.Random(seed * 7919 + hash(name) % 1000)
        texts = gen_set(name, n, rng)
        t0 = time.time()
        ok, diffs, xs, dt, crashed = run(name, texts, keep=bool(os.environ.get("KEEP")))
        print("SET %-10s cases %6d ok %6d DIFF %5d X %4d harness-restarts %d driver %.1fs (%.1f ms/case) wall %.1fs" % (name, len(texts), ok, len(diffs), len(xs), crashed, dt, 1000 * dt / max(1, ok + len(diffs)), time.time() - t0))
        for x in xs[:3]: print("   ", x[:300])
        # sort by input length to show the smallest diffs
        idx = {("%s%d" % (name, i)): t for i, t in enumerate(texts)}
        diffs.sort(key=lambda d: len(idx.get(d[0], "")))
        for cid, d in diffs[:show]:
            print("  DIFF", cid, repr(idx.get(cid, "?"))[:300]); print("      ", d[:1200])
