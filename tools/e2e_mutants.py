#!/usr/bin/env python3
"""Mutation testing of the GLUE of the composed model: each mutant is a one-point change of coq/theories/Model/Format.v
(what one stage hands to the next: which marks, which lines, which token types, the order of two stages); the extracted
mutant is run through the driver unit `e2e` on the case sets of tools/e2e_diff.py.  A mutant that produces no DIFF
("SURVIVED") is observationally equivalent or shows a gap in the generators.
Result when written: 23 mutants, 18 killed, 5 survive:
  void_without_any_marked        equivalent: with nothing marked only a line without tokens (already voided) has "all tokens marked"
  conddir_before_generics_types  equivalent: the consolidator's is_allowed_token does not mention chevrons
  order_generics_after_conddir   equivalent: the two stages read and write disjoint things
  conddir_first_match_search     equivalent on parser output (at most one directive line per first token: unique_first_tokens)
  wrap_iteration_max             2 000 instead of 20 000: no generated line needs more than 185 iterations (587 k searches seen);
                                 the limit is only reached through the nesting blow-up (F34), where both limits are exceeded
(order_asm_before_toggler is killed only because the stage comparison `pre` sits after the asm stage: the marks are a set.)
usage: python3 tools/e2e_mutants.py [name,name,...]      (needs vpcheck --setup; works in .cache/e2e_mutants)"""
import os, subprocess, sys, time, re, shutil
ROOT = os.path.dirname(os.path.dirname(os.path.abspath(__file__)))
M = os.path.join(ROOT, '.cache', 'e2e_mutants')
SRC = open(os.path.join(ROOT, 'coq', 'theories', 'Model', 'Format.v')).read()
MUTS = [
 ("no_voiding", "  S_fmt (void_llines marks lines)\n", "  S_fmt lines\n"),
 ("void_without_any_marked", "  if existsb (fun b => b) marks then\n    map (fun l => if forallb (fun i => nth i marks false) (ll_toks l) then void_line l else l) lines\n  else lines.",
  "    map (fun l => if forallb (fun i => nth i marks false) (ll_toks l) then void_line l else l) lines."),
 ("void_drops_level", "then void_line l else l) lines\n  else lines.", "then mkLine LLT_Voided 0 (ll_parent l) [] else l) lines\n  else lines."),
 ("marks_not_into_fmt", "(fst tm, fmt_of_ws (t_ws (fst tm)) (snd tm))", "(fst tm, fmt_of_ws (t_ws (fst tm)) false)"),
 ("asm_marks_dropped", "inl (S_parsed toks lines (or_marks marks (asm_marks toks (map line_view lines))))", "inl (S_parsed toks lines marks)"),
 ("toggle_marks_dropped", "inl (S_parsed toks lines (or_marks marks (toggle_marks false toks)))", "inl (S_parsed toks lines marks)"),
 ("marks_and_instead_of_or", "map (fun ab : bool * bool => fst ab || snd ab) (combine a b)", "map (fun ab : bool * bool => fst ab && snd ab) (combine a b)"),
 ("asm_marks_on_raw_lines", "(asm_marks toks (map line_view lines))", "(asm_marks toks (map line_view (map (fun l => mkLine (ll_type l) (ll_level l) (ll_parent l) (firstn 1 (ll_toks l))) lines)))"),
 ("eofnl_unconditional", "fold_left (fun l ln => if ll_type ln IS LLT_Eof then eof_newline_once l else l) lines l.", "eof_newline_once l."),
 ("no_generics", "          | G_Ok tys => inl (S_parsed (retype toks tys) lines marks)", "          | G_Ok tys => inl (S_parsed toks lines marks)"),
 ("conddir_before_generics_types", "inl (S_parsed toks (conddir_consolidate_std (map t_ty toks) lines) marks)", "inl (S_parsed toks (conddir_consolidate_std (map (fun t => match t with TT_Op (OK_LessThan _) => TT_Op (OK_LessThan ChK_Comp) | TT_Op (OK_GreaterThan _) => TT_Op (OK_GreaterThan ChK_Comp) | t => t end) (map t_ty toks)) lines) marks)"),
 ("conddir_first_match_search", "conddir_consolidate_std (map t_ty toks) lines", "conddir_consolidate (map t_ty toks) lines"),
 ("no_deindent", "      | S_parsed toks lines marks => inl (S_parsed toks (deindent_package (map t_ty toks) lines) marks)", "      | S_parsed toks lines marks => inl (S_parsed toks lines marks)"),
 ("parser_wsnl_lf_only", "Definition seg_wsnl (p : seg) : bool := has_break (seg_ws p).", "Definition seg_wsnl (p : seg) : bool := contains_byte 10 (seg_ws p)."),
 ("raw_types_not_retyped", "Definition token_of_seg (p : seg) (ty : RawTokenType) : token := mkToken (seg_ws p) (seg_content p) (tt_of_raw ty).", "Definition token_of_seg (p : seg) (ty : RawTokenType) : token := mkToken (seg_ws p) (seg_content p) (tt_of_raw (seg_ty p))."),
 ("wrap_iteration_max", "Definition cfg_iteration_max : N := 20000.", "Definition cfg_iteration_max : N := 2000."),
 ("wrap_ignores_begin_style", "wsettings_of (cfg_rs c) (c_wrap c) cfg_iteration_max (c_begin_always c)", "wsettings_of (cfg_rs c) (c_wrap c) cfg_iteration_max false"),
 ("wrap_fms_always", "olf_model (cfg_rs cfg) (cfg_ws cfg) (c_fms cfg) lines l", "olf_model (cfg_rs cfg) (cfg_ws cfg) true lines l"),
 ("order_wrap_before_eofnl", "   K_Spacing; K_Lower; K_Comment; K_EofNewline; K_Wrap; K_Recon].", "   K_Spacing; K_Lower; K_Comment; K_Wrap; K_EofNewline; K_Recon]."),
 ("order_lower_before_spacing", "   K_Spacing; K_Lower; K_Comment; K_EofNewline; K_Wrap; K_Recon].", "   K_Lower; K_Spacing; K_Comment; K_EofNewline; K_Wrap; K_Recon]."),
 ("order_asm_before_toggler", "  [K_Lexer; K_Parser; K_Generics; K_CondDir; K_Deindent; K_Toggler; K_IgnoreAsm;", "  [K_Lexer; K_Parser; K_Generics; K_CondDir; K_Deindent; K_IgnoreAsm; K_Toggler;"),
 ("order_deindent_before_conddir", "  [K_Lexer; K_Parser; K_Generics; K_CondDir; K_Deindent; K_Toggler; K_IgnoreAsm;", "  [K_Lexer; K_Parser; K_Generics; K_Deindent; K_CondDir; K_Toggler; K_IgnoreAsm;"),
 ("order_generics_after_conddir", "  [K_Lexer; K_Parser; K_Generics; K_CondDir; K_Deindent; K_Toggler; K_IgnoreAsm;", "  [K_Lexer; K_Parser; K_CondDir; K_Generics; K_Deindent; K_Toggler; K_IgnoreAsm;"),
]
def pattern(old):
    return re.compile(r"\s+".join(re.escape(p) for p in old.split()))
def main():
    only = sys.argv[1].split(",") if len(sys.argv) > 1 else None
    SETS = os.environ.get("SETS", "seeds,seeds30,matrix,literal,soup,mut,toggles,asm,crlf,cfg,g_quirks,g_quirks2,g_dirheavy,g_seedsdir")
    N = os.environ.get("N", "1500")
    shutil.rmtree(M, ignore_errors=True)
    shutil.copytree(os.path.join(ROOT, 'coq', 'theories'), os.path.join(M, 'theories'))
    os.makedirs(os.path.join(M, 'extract'))
    for f in os.listdir(os.path.join(ROOT, 'driver')):
        if f.endswith('.ml'): shutil.copy(os.path.join(ROOT, 'driver', f), os.path.join(M, 'extract', f))
    env = dict(os.environ, DRIVER=os.path.join(M, 'extract', 'driver'), RUNDIR=os.path.join(M, 'run'), PYTHONHASHSEED="0", SHOW="1", UNITS="e2e")
    srcs = ["gen_names.ml", "util.ml", "trace.ml", "common.ml"] + sorted((f for f in os.listdir(os.path.join(M, 'extract')) if f.startswith("u_")), key=lambda f: (f == "u_e2e.ml", f)) + ["main.ml"]
    def sh(cmd, cwd): return subprocess.run(cmd, cwd=cwd, stdout=subprocess.PIPE, stderr=subprocess.STDOUT, text=True)
    for name, old, new in MUTS:
        if only and name not in only: continue
        hits = pattern(old).findall(SRC)
        if len(hits) != 1:
            print("MUT %-32s SKIP (pattern matches %d times)" % (name, len(hits))); continue
        open(os.path.join(M, 'theories', 'Model', 'Format.v'), "w").write(pattern(old).sub(lambda _: new, SRC))
        t0 = time.time()
        p = sh(["coqc", "-Q", "theories", "PasfmtVerif", "theories/Model/Format.v"], M)
        if p.returncode != 0:
            print("MUT %-32s COQ-ERROR %s" % (name, p.stdout[-300:])); continue
        p = sh(["coqc", "-Q", os.path.join(M, 'theories'), "PasfmtVerif", "-o", os.path.join(M, 'extract', 'Extract.vo'), os.path.join(M, 'theories', 'Extract', 'Extract.v')], os.path.join(M, 'extract'))
        if p.returncode != 0:
            print("MUT %-32s EXTRACT-ERROR %s" % (name, p.stdout[-300:])); continue
        p = sh(["ocamlfind", "ocamlopt", "-O2", "-w", "-a", "-package", "unix", "-linkpkg", "-o", "driver", "model.mli", "model.ml"] + srcs, os.path.join(M, 'extract'))
        if p.returncode != 0:
            print("MUT %-32s OCAML-ERROR %s" % (name, p.stdout[-300:])); continue
        q = subprocess.run([sys.executable, os.path.join(ROOT, 'tools', 'e2e_diff.py'), SETS, N, "5"], env=env, stdout=subprocess.PIPE, stderr=subprocess.STDOUT, text=True)
        tot = 0; per = []; first = ""
        for line in q.stdout.splitlines():
            m = re.match(r"SET (\S+)\s+cases\s+(\d+) ok\s+(\d+) DIFF\s+(\d+)", line)
            if m:
                d = int(m.group(4)); tot += d
                if d: per.append("%s:%d" % (m.group(1), d))
            elif line.strip().startswith("first differing stage") and not first: first = line.strip()[:110]
            elif line.strip().startswith("model error") and not first: first = line.strip()[:110]
        print("MUT %-32s %s diffs=%d [%s] %.0fs %s" % (name, "KILLED" if tot else "SURVIVED", tot, " ".join(per), time.time() - t0, first)); sys.stdout.flush()
if __name__ == "__main__":
    main()
