#!/usr/bin/env python3
"""Mutation testing of the grammar model: each mutant is a one-point semantic change of
coq/theories/Model/ParserGrammar.v; the extracted mutant is run through the unit `grammar` on the case
sets of tools/grammar_diff.py.  A mutant that produces no DIFF ("SURVIVED") is either observationally
equivalent or shows a gap in the generators.  Known equivalent: idx_prev_past_end, param_of_const,
label_ctx_variantdecl, mark_off_by_one, case_else_finish.
usage: python3 tools/grammar_mutants.py [name,name,...]      (needs vpcheck --setup; works in .cache/mutants)"""
import os, subprocess, sys, time, re, shutil
ROOT = os.path.dirname(os.path.dirname(os.path.abspath(__file__)))
M = os.path.join(ROOT, '.cache', 'mutants')
SRC = open(os.path.join(ROOT, 'coq', 'theories', 'Model', 'ParserGrammar.v')).read()
MUTS = [
 ("end_dot", "loop (if o_dot (cur_tt s) then next_token s else s)", "loop s"),
 ("top_semicolon_routineheader", "| P_top_semicolon => o_semicolon (cur_tt s) && negb (llt_is (cur_type s) LLT_RoutineHeader)", "| P_top_semicolon => o_semicolon (cur_tt s)"),
 ("idx_prev_past_end", "if pidx s <? length pass then find (filt_at s) (rev (firstn (pidx s) pass)) else None", "find (filt_at s) (rev (firstn (pidx s) pass))"),
 ("prev_keyword_filtered", "  match pidx s with\n  | O => s\n  | S p => match nth_error pass p with", "  match pidx s with\n  | O => s\n  | S p => match idx_prev s with"),
 ("variant_record_pop", "        else s      (* sic: returns without popping the VariantRecord context *)", "        else pop_ctx s"),
 ("class_of_break", "              | Some (RTT_Keyword KK_Of) => next_token s\n              | Some (RTT_Op OK_Semicolon) => s", "              | Some (RTT_Keyword KK_Of) => t_loop (next_token s)\n              | Some (RTT_Op OK_Semicolon) => s"),
 ("unfinished_always", "    let s := if ps_cur_unfinished s then s\n             else set_unfinished", "    let s := if false then s\n             else set_unfinished"),
 ("expr_head_none", "  | _ => let s1 := next_token s in parse_expression_go (remaining s1 + 2) s1\n  end.", "  | None => s\n  | _ => let s1 := next_token s in parse_expression_go (remaining s1 + 2) s1\n  end."),
 ("casearm_caret", "loop (consolidate_current_caret_to_type (R (C_case_arm parent) (finish_logical_line s)))", "loop (R (C_case_arm parent) (finish_logical_line s))"),
 ("separators_line_was_empty", "    let s := if line_was_empty then finish_logical_line s else s in", "    let s := s in"),
 ("if_is_ended", "                  | Some false, Some KK_Else => true", "                  | Some _, Some KK_Else => true"),
 ("dir_before_fix", "  dir_before_go s (skipn (S (pidx s)) pass) (pidx s).", "  dir_before_go s (skipn (S (pidx s)) pass) (match cur_index s with Some i => i | None => pidx s end)."),
 ("portability_prev_operator", "              | Some t => is_operator t\n              | None => false end then s", "              | Some t => false\n              | None => false end then s"),
 ("external_name", "          if match k, cur_kk s1 with KK_External, Some KK_Name => true | _, _ => false end then (s1, true)", "          if false then (s1, true)"),
 ("param_of_const", "  else if match c, n with Some (RTT_Keyword KK_Of), Some (RTT_Keyword (KK_Const _)) => true | _, _ => false end\n  then next_token s", "  else if false\n  then next_token s"),
 ("anon_label_block", "let ct := match k with KK_Type => CT_TypeBlock | KK_Label => CT_LabelBlock | _ => CT_DeclarationBlock end in", "let ct := match k with KK_Type => CT_TypeBlock | _ => CT_DeclarationBlock end in"),
 ("label_ctx_variantdecl", "          | CT_VariantDeclarationBlock | CT_TypeDeclaration) => true", "          | CT_TypeDeclaration) => true"),
 ("inline_decl_kind", "loop (next_token (set_current_decl_kind DK_Inline (set_line_type LLT_InlineDeclaration s)))", "loop (next_token (set_line_type LLT_InlineDeclaration s))"),
 ("for_var_inline", "                                | Some (RTT_Keyword KK_For) => set_current_decl_kind DK_Inline s", "                                | Some (RTT_Keyword KK_For) => s"),
 ("fix_next_eq_start", "Definition fix_next_eq (s : pstate) : pstate := fix_next_eq_go s (skipn (S (pidx s)) pass).", "Definition fix_next_eq (s : pstate) : pstate := fix_next_eq_go s (skipn (S (S (pidx s))) pass)."),
 ("no_attribution", "                if existsb (Nat.eqb i) (ps_attr s) then s else set_attr (i :: ps_attr s) s", "                s"),
 ("directive_else_level", "                 mkLine LLT_ConditionalDirective (N.pred level) None [i] :: directive_lines r (S i) attr level\n", "                 mkLine LLT_ConditionalDirective level None [i] :: directive_lines r (S i) attr level\n"),
 ("no_parent_remap", "                    | Some (pl, pt) => match nth_error mapped pl with Some (Some li) => Some (li, pt) | _ => None end", "                    | Some (pl, pt) => Some (pl, pt)"),
 ("no_cement", "          let toks := fold_left (fun ts p => upd_nth p cement ts) pass (ps_toks pass s) in", "          let toks := ps_toks pass s in"),
 ("routine_fwd_ctx", "                   || any_ctype (fun t => match t with CT_Interface | CT_TypeDeclaration => true | _ => false end) s in", "                   || any_ctype (fun t => match t with CT_Interface => true | _ => false end) s in"),
 ("on_consolidate", "| Some (CT_Statement SK_Except) => s_loop (R (C_do false) (consolidate_current_keyword s))", "| Some (CT_Statement SK_Except) => s_loop (R (C_do false) s)"),
 ("skip_pair_chevron", "  let chev := match cur_tt s with Some (RTT_Op (OK_LessThan _)) => true | _ => false end in", "  let chev := true in"),
 ("asm_newline", "        | Some _ => if nth i wsnl false then", "        | Some _ => if negb (nth i wsnl false) then"),
 ("opaque_ignored", "      else if c_opaque c then None\n", "      else if false then None\n"),
 ("mark_off_by_one", "      if ended then Some (S depth)\n", "      if ended then Some depth\n"),
 ("stmt_list_ending", "        if is_ending s || match cur_tt s with None => true | Some _ => false end then s", "        if match cur_tt s with None => true | Some _ => false end then s"),
 ("property_brack", "           if KeywordKind_is_property_directive k && (ps_brack s =? 0)%N then", "           if KeywordKind_is_property_directive k then"),
 ("section_interface_equal", "      | Some (RTT_Keyword KK_Interface) => negb (match prev_tt s with Some (RTT_Op (OK_Equal _)) => true | _ => false end)", "      | Some (RTT_Keyword KK_Interface) => true"),
 ("declsection_class", "  | Some (RTT_Op (OK_Equal _) | RTT_Keyword KK_Packed), Some (RTT_Keyword KK_Class) => false", "  | Some (RTT_Op (OK_Equal _)), Some (RTT_Keyword KK_Class) => false"),
 ("equal_assign", "(fun t => match t with RTT_Op (OK_Equal EK_Decl | OK_Assign) => true | _ => false end)", "(fun t => match t with RTT_Op (OK_Equal EK_Decl) => true | _ => false end)"),
 ("in_forloop_once", "                          && negb (existsb (fun t => match t with RTT_Keyword (KK_In IK_ForLoop) => true | _ => false end)\n                                           (cur_line_tts s))", "                          && true"),
 ("case_else_finish", "then stmt_block (CT_StatementBlock BK_Else) P_end (L 1) SK_Normal (finish_logical_line (next_token s))", "then stmt_block (CT_StatementBlock BK_Else) P_end (L 1) SK_Normal (next_token s)"),
 ("comment_in_statement", "  if is_in_statement s then finish_logical_line s else make_unfinished_line s.", "  make_unfinished_line s."),
 ("raise_at", "                      | Some KK_At => parse_expression (consolidate_current_keyword s)", "                      | Some KK_At => s"),
 ("class_operator_in", "                      | Some KK_Operator => consolidate_class_op_in (consolidate_current_keyword s)", "                      | Some KK_Operator => consolidate_current_keyword s"),
 ("helper_for", "                         let s := match cur_kk s with Some KK_For => next_token s | _ => s end in\n                         parse_expression s", "                         parse_expression s"),
 ("abstract_colon", "                           next_token (if o_colon (next_tt s) then s else consolidate_current_keyword s)", "                           next_token (consolidate_current_keyword s)"),
 ("guid", "                  let s := if match cur_tt s, next_tt s with\n                              | Some (RTT_Op OK_LBrack), Some (RTT_TextLiteral _) => true", "                  let s := if match cur_tt s, next_tt s with\n                              | Some (RTT_Op OK_LBrack), Some _ => true"),
 ("of_const", "                        | Some (RTT_Keyword (KK_Const _)) => next_token (set_current_token_type (RTT_Keyword (KK_Const DK_Other)) s)", "                        | Some (RTT_Keyword (KK_Const _)) => next_token s"),
 ("variant_delta", "                     | Some c0 => match c_level c0 with CL_Parent _ _ => 0%Z | CL_Level _ => (-1)%Z end", "                     | Some c0 => (-1)%Z"),
 ("reduce_level", "                    let reduce := match last_ctype s with Some CT_SubRoutine => true | _ => false end in", "                    let reduce := false in"),
 ("program_head_prev", "  let s := match prev_tt s with\n           | None =>\n               let s := consolidate_current_keyword s in", "  let s := match (None : option RawTokenType) with\n           | None =>\n               let s := consolidate_current_keyword s in"),
 ("exports_expression", "                let s := parse_expression s in\n                let s := simple_op_until after_semicolon parse_exports_op s in", "                let s := simple_op_until after_semicolon parse_exports_op s in"),
 ("import_in", "              | Some (RTT_Keyword (KK_In _)) => set_current_token_type (RTT_Keyword (KK_In IK_Import)) s", "              | Some (RTT_Keyword (KK_In _)) => s"),
 ("enum_eq", "              | Some (RTT_Op (OK_Equal EK_Comp)) => set_current_token_type (RTT_Op (OK_Equal EK_Decl)) s\n              | _ => s end).\nDefinition import_op", "              | Some (RTT_Op (OK_Equal EK_Comp)) => s\n              | _ => s end).\nDefinition import_op"),
 ("routine_semicolon_break", "      (s1, match cur_kk s1 with Some k => is_routine_directive k | None => false end)", "      (s1, true)"),
 ("routine_directive_comma", "        if match next_tt s with Some (RTT_Op (OK_Comma | OK_Colon)) => true | _ => false end then (s, false)", "        if match next_tt s with Some (RTT_Op OK_Colon) => true | _ => false end then (s, false)"),
 ("kc_level0", "                 | Some p => p_emit KC (mkLM (Some p) 0%N LLT_Unknown) s", "                 | Some p => p_emit KC (mkLM (Some p) 1%N LLT_Unknown) s"),
 ("finish_empty_type_reset", "  if at_start s then set_line_type LLT_Unknown s\n  else", "  if at_start s then s\n  else"),
]
def pattern(old):
    return re.compile(r"\s+".join(re.escape(p) for p in old.split()))
def main():
    only = sys.argv[1].split(",") if len(sys.argv) > 1 else None
    SETS = os.environ.get("SETS", "special,quirks,quirks2,portab,singles,seeds,pairs,soup,soup30,mut,ctxsoup,nest,asm,dirheavy,seedsdir")
    N = os.environ.get("N", "2500")
    shutil.rmtree(M, ignore_errors=True)
    shutil.copytree(os.path.join(ROOT, 'coq', 'theories'), os.path.join(M, 'theories'))
    os.makedirs(os.path.join(M, 'extract'))
    for f in os.listdir(os.path.join(ROOT, 'driver')):
        if f.endswith('.ml'): shutil.copy(os.path.join(ROOT, 'driver', f), os.path.join(M, 'extract', f))
    env = dict(os.environ, DRIVER=os.path.join(M, 'extract', 'driver'), RUNDIR=os.path.join(M, 'run'), PYTHONHASHSEED="0", SHOW="1")
    srcs = ["gen_names.ml", "util.ml", "trace.ml", "common.ml"] + sorted(f for f in os.listdir(os.path.join(M, 'extract')) if f.startswith("u_")) + ["main.ml"]
    def sh(cmd, cwd): return subprocess.run(cmd, cwd=cwd, stdout=subprocess.PIPE, stderr=subprocess.STDOUT, text=True)
    for name, old, new in MUTS:
        if only and name not in only: continue
        hits = pattern(old).findall(SRC)
        if len(hits) != 1:
            print("MUT %-28s SKIP (pattern matches %d times)" % (name, len(hits))); continue
        open(os.path.join(M, 'theories', 'Model', 'ParserGrammar.v'), "w").write(pattern(old).sub(lambda _: new, SRC))
        t0 = time.time()
        p = sh(["coqc", "-Q", "theories", "PasfmtVerif", "theories/Model/ParserGrammar.v"], M)
        if p.returncode != 0:
            print("MUT %-28s COQ-ERROR %s" % (name, p.stdout[-300:])); continue
        p = sh(["coqc", "-Q", os.path.join(M, 'theories'), "PasfmtVerif", "-o", os.path.join(M, 'extract', 'Extract.vo'), os.path.join(M, 'theories', 'Extract', 'Extract.v')], os.path.join(M, 'extract'))
        if p.returncode != 0:
            print("MUT %-28s EXTRACT-ERROR %s" % (name, p.stdout[-300:])); continue
        p = sh(["ocamlfind", "ocamlopt", "-O2", "-w", "-a", "-package", "unix", "-linkpkg", "-o", "driver", "model.mli", "model.ml"] + srcs, os.path.join(M, 'extract'))
        if p.returncode != 0:
            print("MUT %-28s OCAML-ERROR %s" % (name, p.stdout[-300:])); continue
        q = subprocess.run([sys.executable, os.path.join(ROOT, 'tools', 'grammar_diff.py'), SETS, N, "5"], env=env, stdout=subprocess.PIPE, stderr=subprocess.STDOUT, text=True)
        tot = 0; per = []; first = ""
        for line in q.stdout.splitlines():
            m = re.match(r"SET (\S+)\s+cases\s+(\d+) ok\s+(\d+) DIFF\s+(\d+)", line)
            if m:
                d = int(m.group(4)); tot += d
                if d: per.append("%s:%d" % (m.group(1), d))
            elif line.startswith("  DIFF") and not first: first = line.strip()[:160]
        print("MUT %-28s %s diffs=%d [%s] %.0fs %s" % (name, "KILLED" if tot else "SURVIVED", tot, " ".join(per), time.time() - t0, first)); sys.stdout.flush()
if __name__ == "__main__":
    main()
