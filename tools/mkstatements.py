#!/usr/bin/env python3
"""mkstatements.py — development helper: print `Theorem <new> : <statement of lemma>. Proof. exact <lemma>. Qed.`
blocks for the Properties files, the statement being what Coq's `Check` prints (so it is the lemma's, verbatim).
usage: mkstatements.py '<Require line>' new1=lemma1 new2=lemma2 ...   (run inside /verif/coq after a build)"""
import subprocess, sys, tempfile, os, re
req = sys.argv[1]
pairs = [a.split("=") for a in sys.argv[2:]]
with tempfile.TemporaryDirectory() as d:
    f = os.path.join(d, "q.v")
    open(f, "w").write(req + "\nSet Printing Width 100.\n" + "\n".join("Check %s." % l for _, l in pairs) + "\n")
    out = subprocess.run(["coqc", "-Q", "theories", "PasfmtVerif", f], capture_output=True, text=True, cwd=os.path.join(os.path.dirname(os.path.abspath(__file__)), "..", "coq"))
    if out.returncode:
        sys.exit(out.stderr)
    blocks = re.split(r"^(?=\S)", out.stdout, flags=re.M)
    types = {}
    for b in blocks:
        m = re.match(r"(\S+)\n\s+: (.*)", b, re.S)
        if m:
            types[m.group(1)] = m.group(2).rstrip()
    for new, l in pairs:
        t = types[l]
        t = "\n".join("  " + x[7:] if x.startswith("       ") else "  " + x for x in t.split("\n"))
        print("Theorem %s :\n%s.\nProof. exact %s. Qed.\n" % (new, t, l))
