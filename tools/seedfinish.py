#!/usr/bin/env python3
"""seedfinish.py <name> <round> <first_run text> [worktree]: record round / first-run outcome in the seed's meta.json and remove its scratch worktree"""
import json, os, subprocess, sys
ROOT = os.path.dirname(os.path.dirname(os.path.abspath(__file__)))
name, rnd, first = sys.argv[1], int(sys.argv[2]), sys.argv[3]
mp = os.path.join(ROOT, "seeded", name, "meta.json")
m = json.load(open(mp))
m["round"] = rnd
m["first_run"] = first
json.dump(m, open(mp, "w"), indent=1)
if len(sys.argv) > 4:
    subprocess.run(["git", "-C", "/repo", "worktree", "remove", "--force", sys.argv[4]])
    subprocess.run(["git", "-C", "/repo", "worktree", "prune"])
print("ok", {k: v.get("caught") for k, v in m.get("checks_run", {}).items()})
