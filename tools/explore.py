#!/usr/bin/env python3
"""ad-hoc: run the standard streams through all driver units and print diff summary"""
import sys, os, collections
sys.path.insert(0, os.path.dirname(os.path.abspath(__file__)))
from vlib import build, runner, gen, props
ctx = props.Ctx("X", sys.argv[2] if len(sys.argv) > 2 else "quick", int(sys.argv[1]) if len(sys.argv) > 1 else 0)
cases = props.standard_streams(ctx, n_seed_cfgs=2, n_mut=1000, n_soup=1000, n_bytes=300, n_gram=300)
units = sys.argv[3].split(",") if len(sys.argv) > 3 else None
ctx.run_stream(cases, units=units, panics_are_failures=True)
print(ctx.corr_counts)
by = collections.Counter((d[1]) for d in ctx.corr_diffs)
print(by)
seen = collections.Counter()
for d in ctx.corr_diffs:
    seen[d[1]] += 1
    if seen[d[1]] <= 4:
        print(d[0], d[1], d[2][:700])
print("failures", len(ctx.failures))
for f in ctx.failures[:5]:
    print(f["kind"], f.get("site"), f["detail"][:200], bytes.fromhex(f["input_hex"])[:200])
ctx.cleanup()
