#!/usr/bin/env python3
"""Extract seed programs from the repository's data tests into corpus/seeds.jsonl.gz (committed).
Run by hand when the repository's data tests change; the checks only read the committed file."""
import os, re, sys, json, gzip
ROOT = os.path.dirname(os.path.dirname(os.path.abspath(__file__)))
GEN = "/repo/core/datatests/generated"
SEP = "!#################################!"

def trim_string(s):
    lines = s.split("\n")
    if not lines or lines[0].strip("\r") != "":
        return s
    body = lines[1:]
    first = next((l for l in body if l.strip()), body[0] if body else "")
    lead = first[:len(first) - len(first.lstrip())]
    out = []
    for l in body:
        if l.startswith(lead):
            out.append(l[len(lead):])
        elif not l.strip():
            out.append(l.strip())
        else:
            return None
    return "\n".join(out)

def olf(path, rel, seeds):
    s = open(path, encoding="utf-8").read()
    m = re.search(r"// wrap_column=(\d+)", s)
    wrap = int(m.group(1)) if m else 30
    parts = s.split(SEP, 1)
    for k, part in enumerate(parts):
        t = trim_string(part)
        if t is None:
            continue
        seeds.append({"name": f"olf/{rel}#{'in' if k == 0 else 'out'}", "wrap": wrap, "text": t, "kind": "olf"})

def lll(path, rel, seeds):
    s = open(path, encoding="utf-8").read()
    lines = [l.strip() for l in s.split("\n")]
    lines = [l for l in lines if l]
    out = []
    for l in lines:
        if l == "---":
            break
        if "|" in l:
            meta, content = l.split("|", 1)
            out.append(content)
        else:
            out.append(l)
    t = "\n".join(out)
    t = re.sub(r"\{\d+\}", "", t)
    seeds.append({"name": f"lll/{rel}", "wrap": 120, "text": t, "kind": "lll"})

def main():
    seeds = []
    for sub, fn in (("optimising_line_formatter", olf), ("logical_line_test", lll)):
        base = os.path.join(GEN, sub)
        for d, _, files in sorted(os.walk(base)):
            for f in sorted(files):
                p = os.path.join(d, f)
                fn(p, os.path.relpath(p, base), seeds)
    seen = set()
    uniq = []
    for s in seeds:
        if s["text"] in seen or not s["text"].strip():
            continue
        seen.add(s["text"])
        uniq.append(s)
    with gzip.open(os.path.join(ROOT, "corpus", "seeds.jsonl.gz"), "wt", encoding="utf-8") as f:
        for s in uniq:
            f.write(json.dumps(s) + "\n")
    print(len(seeds), len(uniq), sum(len(s["text"]) for s in uniq))

main()
