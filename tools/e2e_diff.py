#!/usr/bin/env python3
"""Differential runs of the driver unit `e2e` (Model/Format.v: the composed model, from the input bytes and the
configuration alone, against the implementation's output and every stage dump) on generated case sets.
usage: python3 tools/e2e_diff.py <set>[,<set>...] [n] [seed]
sets: seeds seeds30 seeds60 seeds120 grammar childline matrix literal soup soup30 mut mut2 bytes cfg toggles asm crlf findings g_<set of grammar_diff.py> all
needs `python3 tools/vpcheck.py --setup` first; env: DRIVER, RUNDIR, NP, SHOW, KEEP, CASE_MS, UNITS (default e2e)"""
import sys, os, random, subprocess, time, shutil
ROOT = os.path.dirname(os.path.dirname(os.path.abspath(__file__)))
sys.path.insert(0, os.path.join(ROOT, 'tools'))
from vlib import gen, build
from concurrent.futures import ThreadPoolExecutor
VH = os.path.join(ROOT, '.cache', 'target', 'release', 'vh')
DRV = os.environ.get('DRIVER', os.path.join(ROOT, '.cache', 'extract', 'driver'))
NP = int(os.environ.get('NP', '8'))
UNITS = os.environ.get('UNITS', 'e2e,e2e_panic')
DEFAULT = gen.DEFAULT_CFG
VTAGS = {}   # oracle-violation tag -> case ids of the last run (the measurement units eofhyp / crlfhyp / idemhyp report through V lines)
ALL = "seeds seeds30 seeds60 seeds120 grammar childline matrix literal soup soup30 mut mut2 bytes cfg toggles asm crlf".split()


def with_width(w):
    return (w,) + tuple(DEFAULT[1:])


def toggled(text, rng):
    """pasfmt off/on comments at random token gaps"""
    toks = gen.tokenize(text)
    if not toks:
        return text
    for _ in range(rng.randrange(1, 4)):
        i = rng.randrange(len(toks) + 1)
        c = rng.choice(["// pasfmt off\n", "{pasfmt off}", "{ pasfmt on }", "// pasfmt on\n", "(* pasfmt off *)", "//pasfmt off x\n", "{ PASFMT OFF }"])
        toks.insert(i, ("c", rng.choice(["", " ", "\n"]) + c + rng.choice(["", " ", "\n"])))
    return "".join(t for _, t in toks)


def gen_set(name, n, rng):
    """list of (text, cfg)"""
    S = gen.seeds()
    texts = [s["text"] for s in S]
    if name == "seeds": return [(s["text"], with_width(s["wrap"])) for s in S]
    if name in ("seeds30", "seeds60", "seeds120"): return [(t, with_width(int(name[5:]))) for t in texts]
    if name == "grammar": return [(gen.grammar_program(rng).text(), DEFAULT if rng.random() < 0.5 else with_width(rng.choice([30, 45, 60, 80]))) for _ in range(n)]
    if name == "childline": return [(gen.child_line_program(rng), with_width(rng.choice([30, 40, 60, 80, 120]))) for _ in range(n)]
    if name == "matrix":
        out = []
        for t, _ in gen.child_placement_matrix():
            out.append((t, DEFAULT)); out.append((t, with_width(30)))
        return out
    if name == "literal":
        from vlib import props
        return [(props.literal_text(rng), gen.random_cfg(rng)) for _ in range(n)]
    if name == "soup": return [(gen.soup(rng, 1, 12), DEFAULT) for _ in range(n)]
    if name == "soup30": return [(gen.soup(rng, 10, 30), with_width(rng.choice([20, 40, 120]))) for _ in range(n)]
    if name == "mut": return [(gen.mutate(rng.choice(texts), rng, texts), DEFAULT) for _ in range(n)]
    if name == "mut2":
        out = []
        for _ in range(n):
            t = rng.choice(texts)
            for _ in range(rng.randrange(2, 6)): t = gen.mutate(t, rng, texts)
            out.append((t, with_width(rng.choice([30, 60, 120]))))
        return out
    if name == "bytes": return [(gen.random_bytes_text(rng, rng.randrange(1, 60)), DEFAULT) for _ in range(n)]
    if name == "cfg":
        out = []
        for _ in range(n):
            c = rng.random()
            t = rng.choice(texts) if c < 0.5 else gen.grammar_program(rng).text() if c < 0.7 else gen.child_line_program(rng) if c < 0.8 else gen.soup(rng, 1, 20)
            out.append((t, gen.random_cfg(rng)))
        return out
    if name == "toggles": return [(toggled(rng.choice(texts), rng), gen.random_cfg(rng)) for _ in range(n)]
    if name == "asm":
        al = ["asm", "end", ";", "mov", "ax", ",", "bx", "@lbl:", "\n", "\n", "\r\n", "\r", "//c\n", "{c}", "'s'", "begin", "procedure", "P", "[", "]", "(", ")", "{$IFDEF A}", "{$ENDIF}", "{$ELSE}", "end;", "end.", "db", "$FF", "// pasfmt off\n", "{pasfmt on}"]
        return [(" ".join(rng.choice(al) for _ in range(rng.randrange(1, 25))).replace(" \n ", "\n"), gen.random_cfg(rng)) for _ in range(n)]
    if name == "crlf": return [(gen.to_crlf(rng.choice(texts)), gen.random_cfg(rng)) for _ in range(n)]
    if name == "findings":
        # the witnesses of known_findings.json (fixed ones are regression inputs, known ones must still agree with the model)
        import json
        out = []
        for f in json.load(open(os.path.join(ROOT, "known_findings.json")))["findings"]:
            for w in ([f["witness"]] if "witness" in f else []) + f.get("witnesses", []):
                if isinstance(w, dict) and isinstance(w.get("input"), str):
                    out.append((w["input"], tuple(w.get("cfg", DEFAULT))))
        return out
    if name.startswith("g_"):
        # the sets of tools/grammar_diff.py (special quirks quirks2 portab pairs triples ctxsoup dirheavy gdir gmut nest seedsdir mutdir ...)
        import grammar_diff
        return [(t, gen.random_cfg(rng) if rng.random() < 0.5 else DEFAULT) for t in grammar_diff.gen_set(name[2:], n, rng)]
    raise SystemExit("unknown set " + name)


def run(name, items, keep=False):
    wd = os.path.join(os.environ.get('RUNDIR', os.path.join(ROOT, '.cache', 'run', 'e2e_diff')), name)
    shutil.rmtree(wd, ignore_errors=True); os.makedirs(wd)
    cases = []
    for i, (t, cfg) in enumerate(items):
        b = t.encode('utf-8', 'replace')
        cases.append("%s%d %s - %s\n" % (name, i, gen.cfg_str(cfg), b.hex() if b else "-"))
    nsh = max(1, min(NP, len(cases) // 8 + 1))
    env = dict(os.environ, VH_CASE_TIMEOUT_MS=os.environ.get("CASE_MS", "30000"), VERIF_ALNUM=build.ALNUM)

    def one(k):
        mine = cases[k::nsh]
        outs = []; errs = ""; th = td = 0.0; rcs = 0; qrc_all = 0; part = 0
        while mine:
            cf = os.path.join(wd, "c%d_%d.txt" % (k, part)); tf = os.path.join(wd, "t%d_%d.trace" % (k, part))
            with open(cf, "w") as f: f.writelines(mine)
            t0 = time.time()
            p = subprocess.run([VH, "trace", cf, tf], capture_output=True, env=env)
            t1 = time.time()
            q = subprocess.run([DRV, "check", tf, UNITS], capture_output=True, env=env)
            t2 = time.time()
            th += t1 - t0; td += t2 - t1
            outs.append(q.stdout.decode('utf-8', 'replace')); errs += q.stderr.decode('utf-8', 'replace')[-300:]
            if q.returncode != 0: qrc_all = q.returncode
            nxt = []
            if p.returncode != 0:
                rcs += 1
                last = None; ended = set()
                with open(tf, "rb") as f:
                    for line in f:
                        if line.startswith(b"BEGIN "): last = line.split()[1].decode()
                        elif line.startswith(b"END "): ended.add(line.split()[1].decode())
                ids = [c.split(" ", 1)[0] for c in mine]
                if last is not None and last not in ended and last in ids:
                    nxt = mine[ids.index(last) + 1:]
            if not keep:
                try: os.remove(tf)
                except OSError: pass
            mine = nxt; part += 1
        return rcs, qrc_all, "".join(outs), errs, th, td
    ok = 0; diffs = []; xs = []; skipped = []; dt = 0.0; crashed = 0; viols = 0; VTAGS.clear()
    with ThreadPoolExecutor(max_workers=nsh) as ex:
        for rc, qrc, out, err, th, td in ex.map(one, range(nsh)):
            dt += td
            crashed += rc
            if qrc != 0: diffs.append(("<driver>", "exit %d %s" % (qrc, err)))
            for line in out.splitlines():
                p = line.split(" ", 4)
                if p[0] == "R":
                    if p[3] == "OK": ok += 1
                    else: diffs.append((p[1], p[4] if len(p) > 4 else ""))
                elif p[0] == "K": skipped.append(line)
                elif p[0] == "V":
                    viols += 1
                    if len(p) > 3: VTAGS.setdefault(p[3], []).append(p[1])
                elif p[0] == "X": xs.append(line)
    return ok, diffs, xs, skipped, dt, crashed, viols


if __name__ == "__main__":
    sets = sys.argv[1].split(",")
    if sets == ["all"]: sets = ALL
    n = int(sys.argv[2]) if len(sys.argv) > 2 else 1000
    seed = int(sys.argv[3]) if len(sys.argv) > 3 else 1
    show = int(os.environ.get("SHOW", "5"))
    tot = [0, 0, 0, 0]
    for name in sets:
        rng = random.Random(seed * 7919 + sum(map(ord, name)))
        items = gen_set(name, n, rng)
        t0 = time.time()
        ok, diffs, xs, skipped, dt, crashed, viols = run(name, items, keep=bool(os.environ.get("KEEP")))
        print("SET %-10s cases %6d ok %6d DIFF %5d skipped %4d X %4d harness-restarts %d driver %.1fs (%.0f ms per 1000 cases) wall %.1fs%s"
              % (name, len(items), ok, len(diffs), len(skipped), len(xs), crashed, dt, 1e6 * dt / max(1, ok + len(diffs)), time.time() - t0,
                 (" oracle-V %d" % viols) if viols else ""), flush=True)
        tot[0] += len(items); tot[1] += ok; tot[2] += len(diffs); tot[3] += len(skipped)
        for tag in sorted(VTAGS): print("    V %-60s %6d  e.g. %s" % (tag, len(VTAGS[tag]), " ".join(VTAGS[tag][:3])))
        for x in xs[:3]: print("   ", x[:300])
        for x in skipped[:3]: print("   ", x[:300])
        idx = {("%s%d" % (name, i)): t for i, t in enumerate(items)}
        diffs.sort(key=lambda d: len(idx.get(d[0], ("", 0))[0]))
        for cid, d in diffs[:show]:
            print("  DIFF", cid, repr(idx.get(cid, "?"))[:400]); print("      ", d[:1500])
    print("TOTAL cases %d ok %d DIFF %d skipped %d" % tuple(tot))
