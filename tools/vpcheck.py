#!/usr/bin/env python3
"""vpcheck.py — the only entry point of the verification machinery (DESIGN.md §3.5).

  python3 tools/vpcheck.py --setup
  python3 tools/vpcheck.py --property C01 --tier quick|thorough
  python3 tools/vpcheck.py --property C01 --replay <file>

Exit 0: every obligation discharged, correspondence clean, oracle clean (known findings are printed
as KNOWN-FINDING lines).  Exit 1 with `VIOLATION property=<id> replay=<path>` otherwise.
"""
import argparse, json, os, sys, time, random, traceback

sys.path.insert(0, os.path.dirname(os.path.abspath(__file__)))
from vlib import build, runner, gen, props, findings  # noqa: E402

ROOT = build.ROOT


def write_evidence(prop, ev):
    # (runs against a seeded change - tools/seedcheck.py - write their evidence elsewhere: /verif/evidence only ever
    # holds what the checks found on /repo itself)
    d = os.environ.get("VERIF_EVIDENCE_DIR") or os.path.join(ROOT, "evidence")
    os.makedirs(d, exist_ok=True)
    tmp = os.path.join(d, prop + ".json.tmp%d" % os.getpid())
    with open(tmp, "w") as f:
        json.dump(ev, f, indent=1, ensure_ascii=False)
    os.replace(tmp, os.path.join(d, prop + ".json"))


def write_replay(prop, payload):
    d = os.path.join(ROOT, "replays")
    os.makedirs(d, exist_ok=True)
    path = os.path.join(d, "%s_%d_%d.json" % (prop, int(time.time()), os.getpid()))
    with open(path, "w") as f:
        json.dump(payload, f, indent=1, ensure_ascii=False)
    return path


def check(prop, tier, seed, replay=None):
    t0 = time.time()
    spec = props.PROPS[prop]
    ctx = props.Ctx(prop, tier, seed)
    broken = []  # broken ties: (kind, name, detail)
    # the obligations are the theorems PINNED for this property (coq/theorems.pin.json, committed) plus
    # any further theorem of Properties/Cxx.v; a pinned theorem that disappears is a broken obligation
    pins = json.load(open(os.path.join(ROOT, "coq", "theorems.pin.json"))).get(prop, [])
    import re as _re
    try:
        in_file = _re.findall(r"^Theorem (\w+)", open(os.path.join(ROOT, "coq", "theories", "Properties", prop + ".v")).read(), _re.M)
    except OSError:
        in_file = []
    spec.theorems = list(dict.fromkeys(list(pins) + in_file))
    obligations = list(spec.theorems)
    discharged = 0
    assumptions = {}
    trusted_axioms = set()
    translator_report = None
    coqchk_report = None

    # 1. model side: regenerate, prove, audit
    with build.Lock("build"):
        try:
            translator_report = build.translate()
        except build.BuildError as e:
            broken.append(("translator", "gen/rs2v.py", e.detail))
        targets = list(spec.coq_targets)
        try:
            res = build.coq_make_each(targets)
        except build.BuildError as e:
            res = {t: e.detail for t in targets}
        failed_targets = {t: d for t, d in res.items() if d is not None}
        for t, d in failed_targets.items():
            broken.append(("proof", t, props.coq_error_summary(d)))
        if not failed_targets and spec.theorems:
            try:
                assumptions = build.print_assumptions(spec.module, spec.theorems)
                for th, a in assumptions.items():
                    if a == "closed":
                        discharged += 1
                    else:
                        bad = [x for x in a if x not in props.AXIOM_ALLOWLIST]
                        if bad:
                            broken.append(("axioms", th, "depends on non-allowlisted axioms: " + ", ".join(bad)))
                        else:
                            discharged += 1
                            trusted_axioms.update(a)
            except build.BuildError as e:
                broken.append(("proof", spec.module, props.coq_error_summary(e.detail)))
        coqchk_report = None
        if tier == "thorough" and not failed_targets and not replay:
            try:
                ok, coqchk_report = build.coqchk(spec.module)
                if not ok:
                    broken.append(("axioms", "coqchk " + spec.module, json.dumps(coqchk_report)[:1500]))
            except build.BuildError as e:
                broken.append(("axioms", "coqchk " + spec.module, e.detail[-1500:]))
        hits = build.forbidden_scan()
        if hits:
            broken.append(("audit", "forbidden construct", "; ".join(hits[:10])))
        # 2. implementation side
        try:
            build.build_driver()
        except build.BuildError as e:
            broken.append(("model-build", e.stage, props.coq_error_summary(e.detail)))
        try:
            build.build_harness(plain=spec.needs_plain and tier == "thorough")
        except build.BuildError as e:
            # the implementation does not build: nothing can be checked
            ev = base_evidence(prop, tier, seed, spec, t0)
            ev["coverage"].update({"obligations": len(obligations), "discharged": discharged,
                                   "explanation": "cargo build of /repo failed: " + e.detail[-1500:]})
            ev["violations"] = 1
            write_evidence(prop, ev)
            path = write_replay(prop, {"property": prop, "kind": "build", "detail": e.detail[-4000:]})
            print(f"VIOLATION property={prop} replay={path} no-failing-input-found")
            return 1

    # 3./4. correspondence and oracle search
    if replay:
        ctx.replay = json.load(open(replay))
    # thorough tier: several rounds of the property's streams, each from a PRNG derived from the seed
    # (round 0 is the quick/thorough-sized run of the given seed; later rounds re-draw every random choice)
    rounds = 1 if tier != "thorough" or replay else max(1, int(os.environ.get("VERIF_ROUNDS") or getattr(spec, "thorough_rounds", 6)))
    try:
        for r in range(rounds):
            if r:
                ctx.rng = random.Random("%s/%d/%d" % (prop, seed, r))
            spec.run(ctx)
            if ctx.failures and any(findings.match(findings.load(), prop, f) is None for f in ctx.failures):
                break
    except Exception:
        broken.append(("machinery", "exception", traceback.format_exc()[-3000:]))
    for d in ctx.corr_diffs[:50]:
        broken.append(("correspondence", d[1], "case %s: %s" % (d[0], d[2][:300])))

    # 5. decide
    kf = findings.load()
    violations = []
    known_lines = []
    for fail in ctx.failures:
        k = findings.match(kf, prop, fail)
        if k is not None:
            line = "KNOWN-FINDING: property=%s %s (%s)" % (prop, k["what_fails"], k["id"])
            if line not in known_lines:
                known_lines.append(line)
        else:
            violations.append(fail)
    for line in known_lines:
        print(line)
    rc = 0
    replay_paths = []
    # group violations by kind to avoid a flood
    seen_kinds = set()
    for v in violations:
        key = (v.get("kind"), v.get("site", ""))
        if key in seen_kinds:
            continue
        seen_kinds.add(key)
        payload = dict(v)
        payload["property"] = prop
        payload["broken_ties"] = [list(b) for b in broken[:10]]
        path = write_replay(prop, payload)
        replay_paths.append(path)
        print(f"VIOLATION property={prop} replay={path}")
        rc = 1
        if len(replay_paths) >= 5:
            break
    if broken and not violations:
        payload = {"property": prop, "kind": "obligation" if broken[0][0] in ("proof", "axioms", "audit", "translator") else broken[0][0],
                   "broken": [{"kind": b[0], "name": b[1], "detail": b[2][:3000]} for b in broken[:20]],
                   "searched": ctx.search_summary()}
        path = write_replay(prop, payload)
        replay_paths.append(path)
        print(f"VIOLATION property={prop} replay={path} no-failing-input-found")
        rc = 1

    # 6. evidence
    ev = base_evidence(prop, tier, seed, spec, t0)
    cov = ev["coverage"]
    cov.update({
        "obligations": len(obligations) + ctx.extra_obligations,
        "discharged": discharged + ctx.extra_discharged,
        "theorems": {t: (assumptions.get(t) if assumptions.get(t) is not None else "not checked") for t in obligations},
        "axioms_used": sorted(trusted_axioms),
        "coqchk": coqchk_report if coqchk_report is not None else "thorough tier only (coqchk -o -silent on the property module and all its dependencies)",
        "evaluations": ctx.evaluations,
        "distinct_nontrivial": ctx.distinct_nontrivial(),
        "rule": spec.rule,
        "samples": ctx.samples[:8] or ["<none>"],
        "traces_validated_against_impl": ctx.traces_validated,
        "correspondence": ctx.corr_counts,
        "correspondence_diffs": len(ctx.corr_diffs),
        "oracle": ctx.oracle_counts,
        "input_distribution": ctx.distribution(),
        "translator": translator_report,
        "known_findings_hit": known_lines,
        "broken_ties": [list(b[:2]) for b in broken],
        "hypotheses_monitored": ctx.hypotheses,
        "rounds": rounds,
    })
    ev["violations"] = len(replay_paths)
    ev["wall_s"] = round(time.time() - t0, 2)
    write_evidence(prop, ev)
    ctx.cleanup()
    return rc


def base_evidence(prop, tier, seed, spec, t0):
    return {
        "property_id": prop, "tier": tier, "seed": seed, "level": "proof",
        "coverage": {
            "checker_cmd": "coq_makefile -f _CoqProject -o Makefile && make -j16 (coqc 8.16.1, full .vo) ; coqc Print Assumptions per theorem ; extracted model vs implementation traces",
            "trusted_base": props.TRUSTED_BASE + spec.trusted_extra,
            "explanation": spec.explanation,
        },
        "assumptions": spec.assumptions,
        "wall_s": round(time.time() - t0, 2),
        "violations": 0,
    }


def main():
    ap = argparse.ArgumentParser()
    ap.add_argument("--setup", action="store_true")
    ap.add_argument("--property")
    ap.add_argument("--tier", default=os.environ.get("VERIF_TIER", "quick"))
    ap.add_argument("--replay")
    a = ap.parse_args()
    if a.setup:
        try:
            rep = build.setup()
            print(json.dumps(rep))
            return 0
        except build.BuildError as e:
            print("SETUP FAILED", e.stage)
            print(e.detail[-6000:])
            return 1
    seed = int(os.environ.get("VERIF_SEED", "0") or 0)
    tier = a.tier if a.tier in ("quick", "thorough") else "quick"
    return check(a.property, tier, seed, a.replay)


if __name__ == "__main__":
    sys.exit(main())
