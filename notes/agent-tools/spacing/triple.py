import binascii,subprocess,itertools
reps=["foo","e5","&b","begin","'a'","#13","#$0A","1","1.5","1e","1e+","$F","%1","{c}","(*c*)","{$R+}","!","&","\"",
 "+","-","*","/",":=",",",";",":","=","<>","<","<=",">",">=","[","(.","]",".)","(",")","^","@",".",".."]
def run(cases,tag):
    with open(tag+'.txt','w') as f:
        for i,s in enumerate(cases):
            f.write("c%d 120,0,1,0,2,2,0 - %s\n"%(i,binascii.hexlify(s.encode()).decode()))
    subprocess.run(['/verif/.cache/target/release/vh','trace',tag+'.txt',tag+'.out'])
    raw=[];on=False
    for line in open(tag+'.out'):
        if line.startswith('BEGIN '): raw.append([]); on=False
        elif line.startswith('RAW '): on=True
        elif line.startswith('r ') and on: p=line.split(); raw[-1].append((int(p[2]),p[3]))
        elif line.startswith('PARSED'): on=False
    return raw
pairs=list(itertools.product(reps,reps))
sp=run(["; %s %s"%p for p in pairs],'p_s'); gp=run(["; %s%s"%p for p in pairs],'p_g')
safe={p for p,s,g in zip(pairs,sp,gp) if s==g}
print(len(safe),'safe pairs of',len(pairs))
tr=[t for t in itertools.product(reps,reps,reps) if (t[0],t[1]) in safe and (t[1],t[2]) in safe]
print(len(tr),'triples')
st=run(["; %s %s %s"%t for t in tr],'t_s'); gt=run(["; %s%s%s"%t for t in tr],'t_g')
bad=[t for t,s,g in zip(tr,st,gt) if s!=g]
print(len(bad),'bad triples'); print(bad[:40])
