import re,sys
PFX={'Op':'OK_','Keyword':'KK_','TextLiteral':'TK_','NumberLiteral':'NK_','ConditionalDirective':'CDK_','Comment':'CoK_',
     'Equal':'EK_','LessThan':'ChK_','GreaterThan':'ChK_','Caret':'CaK_','Const':'DK_','Var':'DK_','In':'IK_'}
def conv(s,pfx='TT_'):
    m=re.match(r'^(\w+)\((.*)\)$',s)
    if m:
        return '(%s%s %s)'%(pfx,m.group(1),conv(m.group(2),PFX[m.group(1)]))
    return pfx+s
def parse(path):
    cases=[];cur=None;state=None
    for line in open(path):
        line=line.rstrip('\n')
        if line.startswith('BEGIN '): cur={'id':line[6:],'pre':[],'spacing':[]};state=None
        elif line.startswith('END '): cases.append(cur);cur=None
        elif line.startswith('STATE '): state=line.split()[1]
        elif line.startswith('k ') and state in ('pre','spacing'):
            p=line.split()
            cur[state].append((int(p[1]),int(p[2]),int(p[3]),int(p[4]),int(p[5]),p[6]))
        elif not line.startswith('k '): 
            if not line.startswith('STATE'): state=None if line.split()[0] in ('OUT','LINES') else state
    return cases
def main():
    cases=parse(sys.argv[1])
    out=open(sys.argv[2],'w')
    out.write("From PasfmtVerif Require Import Model.Spacing.\n")
    out.write("Definition mk (ig : bool) (nl ind cont sp : N) (ty : TokenType) : ftoken := (mkToken [] [] ty, mkFmt ig nl ind cont sp).\n")
    n=0
    for c in cases:
        if not c['pre']: continue
        def lst(st):
            return '['+';\n  '.join('mk %s %d %d %d %d %s'%('true' if t[0] else 'false',t[1],t[2],t[3],t[4],conv(t[5])) for t in st)+']'
        out.write("Example val_%s : token_spacing\n %s\n = %s.\nProof. vm_compute. reflexivity. Qed.\n"%(c['id'],lst(c['pre']),lst(c['spacing'])))
        n+=1
    print(n,"cases")
if __name__=='__main__': main()
