import sys, re, binascii
def hexlist(h):
    if h == '-' : return "[]"
    b = binascii.unhexlify(h)
    return "[" + ";".join(str(x) for x in b) + "]"
def rawty(s):
    if s == "TextLiteral(MultiLine)": return "(RTT_TextLiteral TK_MultiLine)"
    if s == "Comment(MultilineBlock)": return "(RTT_Comment CoK_MultilineBlock)"
    return "RTT_Unknown"
def ty(s):
    m = re.match(r"Comment\((\w+)\)", s)
    if m: return "(TT_Comment CoK_%s)" % m.group(1)
    if s == "Eof": return "TT_Eof"
    return "TT_Unknown"
def main(trace, out):
    lines = open(trace).read().split("\n")
    i = 0
    res = ["From PasfmtVerif Require Import Model.Cursor.", "Open Scope N_scope.", ""]
    cases = []
    cur = None
    section = None
    for ln in lines:
        w = ln.split(" ")
        if w[0] == "BEGIN":
            cur = {"id": w[1], "raw": [], "final": [], "panic": False}
            section = None
        elif cur is None: continue
        elif w[0] == "INPUT": cur["input"] = binascii.unhexlify(w[1]) if len(w) > 1 else b""
        elif w[0] == "CURSORS": cur["cursors"] = w[1] if len(w) > 1 else ""
        elif w[0] == "RS": cur["rs"] = w[1:4]
        elif w[0] == "RAW": section = "raw"
        elif w[0] == "STATE": section = "final" if w[1] == "final" else None
        elif w[0] in ("PARSED","LINES","GENERICS"): section = None
        elif w[0] == "r" and section == "raw": cur["raw"].append((int(w[1]), int(w[2]), " ".join(w[3:])))
        elif w[0] == "k" and section == "final":
            cur["final"].append((w[1], w[2], w[3], w[4], w[5], " ".join(w[6:-2]), w[-2], w[-1]))
        elif w[0] == "OUT": cur["out"] = w[1] if len(w) > 1 else "-"
        elif w[0] == "OUTCURSORS": cur["outcursors"] = w[1] if len(w) > 1 else ""
        elif w[0].startswith("PANIC"): cur["panic"] = ln
        elif w[0] == "END":
            cases.append(cur); cur = None
    for c in cases:
        inp = c["input"]; pos = 0; raws = []
        for (wl, cl, t) in c["raw"]:
            ws = inp[pos:pos+wl]; pos += wl
            ct = inp[pos:pos+cl]; pos += cl
            raws.append("(%s, %s, %s)" % (hexlist(binascii.hexlify(ws).decode() or '-'), hexlist(binascii.hexlify(ct).decode() or '-'), rawty(t)))
        assert pos == len(inp), (c["id"], pos, len(inp))
        if c["panic"] or "outcursors" not in c:
            id = c["id"]
            res.append("Definition raw_%s : list rtok := [%s]." % (id, "; ".join(raws)))
            res.append("Example p_%s : forallb (process_cursor_ok raw_%s) [%s] = false." % (id, id, c["cursors"].replace(",", ";")))
            res.append("Proof. vm_compute. reflexivity. Qed.")
            continue
        finals = []
        for (ig, nl, ind, cont, sp, t, ws, ct) in c["final"]:
            finals.append("(mkToken %s %s %s, mkFmt %s %s %s %s %s)" % (hexlist(ws), hexlist(ct), ty(t), "true" if ig == "1" else "false", nl, ind, cont, sp))
        rs = "(mkRS %s %s %s)" % tuple(hexlist(x) for x in c["rs"])
        id = c["id"]
        res.append("Definition raw_%s : list rtok := [%s]." % (id, "; ".join(raws)))
        res.append("Definition fin_%s : list ftoken := [%s]." % (id, "; ".join(finals)))
        res.append("Example t_%s : map (track_cursor_u32 %s raw_%s fin_%s) [%s] = [%s] /\\ recon %s false fin_%s = %s /\\ forallb (process_cursor_ok raw_%s) [%s] = true." % (
            id, rs, id, id, c["cursors"].replace(",", ";"), c["outcursors"].replace(",", ";"), rs, id, hexlist(c["out"]), id, c["cursors"].replace(",", ";")))
        res.append("Proof. vm_compute. repeat split; reflexivity. Qed.")
        res.append("")
    open(out, "w").write("\n".join(res))
main(sys.argv[1], sys.argv[2])
