import random, sys
from difflib_lx import *
seed=int(sys.argv[1]); n=int(sys.argv[2]); mode=sys.argv[3]
random.seed(seed)
if mode=='asm':
    frags=["asm ","asm\n"," end","end ","END;","a","e","ax","0","1","9","10b","0FFh","7o","12O","1H","b","B","h","o","_","@","@@a","@1@","\"","\\","\\\"","'","''","#1","$","%","&","&e","&1","{","}","{$","(*","*)",".",",",";",":","[","]","+","-","*","/","//","\n","\r"," ","\t","　","é","x.","end.","asm","End","ASM","mov","f","F","1e5","1.5"]
elif mode=='dir':
    frags=["{$","(*$","{","}","(*","*)","IF","if ","ifdef ","ELSEIF ","else","endif","ifend","ifopt","ifndef","I ","x","'","''","'''","\n","\r\n"," ","//","/","*",")","(","$","　","é","defined(x)","and","}}","'}'","{}","(**)"," \t "]
elif mode=='str':
    frags=["'","''","'''","'''''","''''","'''''''","#","#1","#$","#$F","#%","#%1","#_","#9_","$","%","1","a","g","_","\n","\r","\r\n"," ","x","é","　",";","#1'a'","'a'#1","&","\""]
elif mode=='num':
    frags=["0","1","9","_",".","..","e","E","+","-","$","%","&","&&","a","f","F","g","x"," ","1e","e+","e-","_1","1_","h","b","o","é",";"]
elif mode=='bytes':
    frags=None
def gen():
    if frags is None:
        k=random.randint(1,10)
        # random code points biased to small/tricky
        cps=[]
        for _ in range(k):
            r=random.random()
            if r<0.6: cps.append(random.randint(0,0x7f))
            elif r<0.7: cps.append(0x3000)
            elif r<0.8: cps.append(random.randint(0x80,0x7ff))
            elif r<0.9:
                c=random.randint(0x800,0xffff)
                if 0xd800<=c<=0xdfff: c=0x3001
                cps.append(c)
            else: cps.append(random.randint(0x10000,0x10ffff))
        return "".join(chr(c) for c in cps)
    k=random.randint(1,14)
    return "".join(random.choice(frags) for _ in range(k))
cases=set()
while len(cases)<n:
    s=gen()
    if s: cases.add(s)
cases=sorted(cases)
bad=compare([list(c.encode()) for c in cases],f'fz2_{mode}_{seed}')
