import subprocess, re, os, sys
ROOT='/root/agents/lexer'
VH='/verif/.cache/target/release/vh'
_names=None
def coq_eval(body, tag='t'):
    path=f'/tmp/lx/t/{tag}.v'
    open(path,'w').write(body)
    r=subprocess.run(['coqc','-Q',ROOT+'/theories','PasfmtVerif',path],capture_output=True,text=True,timeout=3000,cwd='/tmp/lx/t')
    if r.returncode!=0:
        raise RuntimeError(r.stderr[:3000])
    return r.stdout
def names():
    global _names
    if _names is None:
        out=coq_eval('From PasfmtVerif Require Import Model.Lexer.\nSet Printing Width 1000000.\nEval vm_compute in all_RawTokenType.\n','names')
        body=out[out.index('['):out.rindex(']')+1]
        items=body.strip()[1:-1].split(';')
        _names=[tuple(re.findall(r'\b[A-Za-z]+_(\w+)',it)) for it in items]
    return _names
def model_lex(inputs, tag='batch'):
    nm=names()
    lst=";\n".join("["+";".join(str(b) for b in s)+"]" for s in inputs)
    body=('From PasfmtVerif Require Import Model.Lexer.\nSet Printing Width 1000000.\nSet Printing Depth 1000000.\n'
      'Definition enc (r : option (list (nat*nat*RawTokenType))) := option_map (map (fun x => match x with (a,b,c) => (a,b,RawTokenType_idx c) end)) r.\n'
      'Open Scope nat_scope.\n'
      'Definition inputs : list (list N) := [\n'+lst+'\n]%N.\n'
      'Eval vm_compute in map (fun s => enc (lex s)) inputs.\n')
    out=coq_eval(body,tag)
    body=out[out.index('= [')+2:out.rindex(']')+1]
    body=body.replace(';',',').replace('Some','').replace('%nat','')
    body=re.sub(r':\s*list.*$','',body,flags=re.S)
    res=eval(body)
    out=[]
    for r in res:
        if r is None: out.append(None)
        else: out.append([(a,b,nm[c]) for (a,b,c) in r])
    return out
def rust_lex(inputs, tag='batch'):
    cf=f'/tmp/lx/t/{tag}.cases'; of=f'/tmp/lx/t/{tag}.out'
    with open(cf,'w') as f:
        for i,s in enumerate(inputs):
            f.write(f"{i} 120,0,1,0,2,2,0 - {bytes(s).hex() if s else ''}\n")
    r=subprocess.run([VH,'trace',cf,of],capture_output=True,text=True)
    res={}
    cur=None; inraw=False
    for line in open(of):
        line=line.rstrip('\n')
        if line.startswith('BEGIN '):
            cur=int(line.split()[1]); res[cur]=[]; inraw=False
        elif line.startswith('RAW '):
            inraw=True
        elif inraw and line.startswith('r '):
            p=line.split(' ',3)
            res[cur].append((int(p[1]),int(p[2]),tuple(re.findall(r'\w+',p[3]))))
        else:
            inraw=False
    return [res.get(i) for i in range(len(inputs))]
def compare(inputs, tag='batch', verbose=True):
    m=model_lex(inputs,tag); r=rust_lex(inputs,tag)
    bad=0
    for s,a,b in zip(inputs,m,r):
        if a!=b:
            bad+=1
            if verbose and bad<=10:
                print('MISMATCH', bytes(s))
                print('  model:',a); print('  rust :',b)
    print(f'{len(inputs)} cases, {bad} mismatches')
    return bad
