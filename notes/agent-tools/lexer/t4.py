from difflib_lx import *
import random,re
random.seed(3)
src="".join(open('/repo/core/src/defaults/lexer.rs').readlines()[323:447])
kws=re.findall(r'\("(\w+)", TT::',src)
cases=[]
for k in kws:
    cases += [k, k.upper(), k.capitalize(), "".join(random.choice([c.lower(),c.upper()]) for c in k), k+"s", k[:-1], k+"_", "_"+k, k+"é", "."+k, "&"+k, k[0]+k, k.replace(k[len(k)//2], chr(ord(k[len(k)//2])^1),1), k+"1"]
    # same hash-relevant chars (0,1,2,last,len) but different middle
    if len(k)>4:
        l=list(k); i=random.randrange(3,len(k)-1); l[i]=random.choice("abcdefghijklmnopqrstuvwxyz"); cases.append("".join(l))
    cases.append(k.replace('k','K').replace('s','ſ'))  # unicode case-fold lookalikes
cases=sorted(set(cases))
compare([list(c.encode()) for c in cases],'t4')
