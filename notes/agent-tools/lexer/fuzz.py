import random, sys
from difflib_lx import *
seed=int(sys.argv[1]); n=int(sys.argv[2]); maxfrag=int(sys.argv[3]) if len(sys.argv)>3 else 12
random.seed(seed)
frags=["begin","end","asm","END","Asm","if","IF","ifdef","IFDEF","elseif","else","endif","ifend","ifopt","ifndef","x","e","E","a","A","b","B","h","H","o","O","_","@","@@","\"","\\","'","''","'''","'''''","#","$","%","&","&&","{","}","{$","(*","*)","(*$","(",")","*","/","//",".","..",":",":=","<",">","=","<>","<=",">=","+","-",",",";","^","[","]","(.",".)","0","1","9","12","1e","e+","e-",".5","f","F","g","\n","\r","\r\n"," ","  ","\t","\x00","\x01","\x1f","\x7f","\u3000","é","\u00a0","\u2000","\u3001","\u4000","😀","\u0080","\u07ff","\u0800","\uffff","!","?","`","|","~","implementation","string","absolute","write","Const","var","in","defined","and","or","not"," ","\n"]
def gen():
    k=random.randint(0,maxfrag)
    return "".join(random.choice(frags) for _ in range(k))
cases=set()
while len(cases)<n:
    s=gen()
    if s: cases.add(s)
cases=sorted(cases)
bad=compare([list(c.encode()) for c in cases],f'fz{seed}')
sys.exit(1 if bad else 0)
