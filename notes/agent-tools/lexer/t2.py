from difflib_lx import *
import random
random.seed(5)
cases=["x. {c} begin", "x. //c\n begin end", "x.{$I a}begin", ". . begin", "x.&begin.begin", "asm &end end", "asm @end end", "asm e end", "asm\n//c\nend", "asm {$IFDEF x} end {$ENDIF} end x", "asm end asm end", "asm .end end", "Asm mov al, 'a' End; begin", "x.asm mov end"]
# long identifiers / avx2 paths
alph="abcXYZ019_"
for n in [30,31,32,33,34,63,64,65,96,100]:
    base="".join(random.choice(alph) for _ in range(n))
    cases += [base, base+".x", base+"é"+base, "é"+base, base[:n//2]+"　"+base[n//2:], base[:n-1]+"é", base+" "+base, "_"+base, "&"+base, "x"*n+"-"+"y"*n, base[:5]+"é"*20+base+"+"+base, "asm "+base+" e"+base+" end", "'"+base+"'", "//"+base*3, "{"+base*3+"}"]
    for k in range(5):
        l=list(base)
        i=random.randrange(n); l[i]=random.choice(["é","-"," ","　","😀",".","\n"])
        cases.append("".join(l))
        cases.append("ab"+"".join(l)+"".join(l))
compare([list(c.encode()) for c in cases],'t2')
