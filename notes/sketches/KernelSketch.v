(* Design-time sketch (not part of the verification machinery): the kernel invariant of DESIGN.md §5.1.
   Grammar code is an arbitrary program tree over primitives; `Peek` lets it branch on the whole state.
   Theorem run_inv: every program preserves "each line strictly increasing and every placed token is
   smaller than every unconsumed pass entry". *)
From Coq Require Import List Arith Lia Sorted.
Import ListNotations.

Record st := { lines : list (list nat); cur : nat; pos : nat }.

Inductive prim := Push | Skip | NewLine | SetCur (k:nat).

Inductive prog :=
| Ret
| Do (p:prim) (k:prog)
| Peek (k: st -> prog).

Section Run.
Variable pass : list nat.

Fixpoint upd (ls: list (list nat)) (i:nat) (x:nat) : list (list nat) :=
  match ls, i with
  | [], _ => []
  | l::t, O => (l ++ [x]) :: t
  | l::t, S j => l :: upd t j x
  end.

Definition step (p:prim) (s:st) : st :=
  match p with
  | Push => match nth_error pass (pos s) with
            | Some x => {| lines := upd (lines s) (cur s) x; cur := cur s; pos := S (pos s) |}
            | None => {| lines := lines s; cur := cur s; pos := S (pos s) |}
            end
  | Skip => {| lines := lines s; cur := cur s; pos := S (pos s) |}
  | NewLine => {| lines := lines s ++ [[]]; cur := length (lines s); pos := pos s |}
  | SetCur k => {| lines := lines s; cur := k; pos := pos s |}
  end.

Fixpoint run (p:prog) (s:st) : st :=
  match p with
  | Ret => s
  | Do a k => run k (step a s)
  | Peek k => run (k s) s
  end.

Definition incr (l:list nat) := StronglySorted lt l.

Definition below (s:st) (x:nat) := forall j y, pos s <= j -> nth_error pass j = Some y -> x < y.

Definition Inv (s:st) : Prop :=
  Forall incr (lines s) /\ Forall (Forall (below s)) (lines s).

Hypothesis pass_incr : incr pass.

Lemma incr_nth : forall l i j x y, incr l -> i < j -> nth_error l i = Some x -> nth_error l j = Some y -> x < y.
Proof.
  induction l as [|a l IH]; intros i j x y Hs Hij Hi Hj.
  - destruct i; discriminate.
  - inversion Hs as [|? ? Hs' Hall]; subst.
    destruct j as [|j]; [exfalso; inversion Hij|]. destruct i as [|i]; simpl in *.
    + inversion Hi; subst. rewrite Forall_forall in Hall. apply Hall. eapply nth_error_In; eauto.
    + apply (IH i j x y Hs' (proj2 (Nat.succ_lt_mono i j) Hij) Hi Hj).
Qed.

Lemma incr_snoc : forall l x, incr l -> Forall (fun a => a < x) l -> incr (l ++ [x]).
Proof.
  induction l as [|a l IH]; intros x Hs Hall; simpl.
  - constructor; constructor.
  - inversion Hs; subst. inversion Hall; subst. constructor.
    + apply IH; assumption.
    + apply Forall_app; split; [assumption| constructor; [assumption|constructor]].
Qed.

Lemma below_weaken : forall s s' l, pos s <= pos s' -> Forall (below s) l -> Forall (below s') l.
Proof.
  intros s s' l Hp Hl. eapply Forall_impl; [|exact Hl].
  intros a Ha j y Hj Hy. eapply Ha; [|exact Hy]. eapply Nat.le_trans; eassumption.
Qed.

Lemma step_inv : forall a s, Inv s -> Inv (step a s).
Proof.
  intros a s [H1 H2]. destruct a; unfold step.
  - destruct (nth_error pass (pos s)) as [x|] eqn:E; unfold Inv; simpl.
    + assert (Hlt: forall l, In l (lines s) -> Forall (fun a => a < x) l).
      { intros l Hl. rewrite Forall_forall in H2. specialize (H2 l Hl).
        eapply Forall_impl; [|exact H2]. intros a0 Ha. eapply Ha; [apply le_n|exact E]. }
      split.
      * clear H2. revert H1 Hlt. generalize (cur s). generalize (lines s). clear E.
        induction l as [|l t IH]; intros c H1 Hlt; simpl; [constructor|].
        inversion H1 as [|? ? Hl Ht]; subst. destruct c.
        -- constructor; [apply incr_snoc; [exact Hl| apply Hlt; left; reflexivity]| exact Ht].
        -- constructor; [exact Hl| apply IH; [exact Ht| intros l0 Hl0; apply Hlt; right; exact Hl0]].
      * clear H1 Hlt.
        set (s' := {| lines := upd (lines s) (cur s) x; cur := cur s; pos := S (pos s) |}).
        assert (Hw: forall l0, Forall (below s) l0 -> Forall (below s') l0).
        { intros l0. apply below_weaken. simpl. apply Nat.le_succ_diag_r. }
        assert (Hx: below s' x).
        { intros j y Hj Hy. eapply incr_nth; [exact pass_incr| |exact E|exact Hy]. exact Hj. }
        revert H2. generalize (cur s). generalize (lines s).
        induction l as [|l t IH]; intros c H2; simpl; [constructor|].
        inversion H2 as [|? ? Hl Ht]; subst. destruct c.
        -- constructor.
           ++ apply Forall_app; split; [apply Hw; exact Hl| constructor; [exact Hx|constructor]].
           ++ eapply Forall_impl; [|exact Ht]. intros l0 Hl0. apply Hw; exact Hl0.
        -- constructor; [apply Hw; exact Hl| apply IH; exact Ht].
    + split; simpl; [assumption|].
      eapply Forall_impl; [|exact H2]. intros l Hl. eapply below_weaken; [|exact Hl]. simpl. apply Nat.le_succ_diag_r.
  - unfold Inv; simpl. split; [assumption|].
    eapply Forall_impl; [|exact H2]. intros l Hl. eapply below_weaken; [|exact Hl]. simpl. apply Nat.le_succ_diag_r.
  - unfold Inv; simpl. split; apply Forall_app; split; try assumption; repeat constructor.
  - unfold Inv; simpl. split; assumption.
Qed.

Theorem run_inv : forall p s, Inv s -> Inv (run p s).
Proof.
  induction p as [|a k IH|k IH]; intros s H; simpl.
  - exact H.
  - apply IH. apply step_inv. exact H.
  - apply IH. exact H.
Qed.
End Run.
Print Assumptions run_inv.
