(* Design-time sketch (not part of the verification machinery): the suffix-style lexer of DESIGN.md
   Appendix C on a four-token subset. lex_total and lex_lossless are derived FROM the progress bound
   lex_token_bounds, not from firstn/skipn totality. Lesson: do not pattern-match on byte literals
   (46 :: r); test with N.eqb instead - the literal patterns forced the destruct-p chains below. *)
From Coq Require Import List NArith Lia Bool.
Import ListNotations.
Open Scope N_scope.

Definition byte := N.
Definition is_digit (b:byte) := (48 <=? b) && (b <=? 57).
Definition is_dec (b:byte) := is_digit b || (b =? 95).
Definition is_alpha (b:byte) := ((65 <=? b) && (b <=? 90)) || ((97 <=? b) && (b <=? 122)).
Definition is_ident (b:byte) := is_alpha b || is_digit b || (b =? 95) || (128 <=? b).
Definition is_blank (b:byte) := b <=? 32.

(* --- scanning primitives over the suffix; results are nat counts --- *)
Fixpoint count_while (p: byte -> bool) (l: list byte) : nat :=
  match l with b :: t => if p b then S (count_while p t) else O | [] => O end.
Lemma count_while_le p l : (count_while p l <= length l)%nat.
Proof. induction l as [|b t IH]; simpl; [lia|]. destruct (p b); simpl; lia. Qed.

Definition nthb (l: list byte) (i:nat) : option byte := nth_error l i.

(* dec_number_literal, after the first digit has been consumed by the dispatcher; returns total consumed incl. that digit *)
Definition count_full_decimal (l: list byte) : nat :=
  match l with 95 :: _ => O | _ => count_while is_dec l end.
Lemma count_full_decimal_le l : (count_full_decimal l <= length l)%nat.
Proof. unfold count_full_decimal. destruct l as [|b t]; simpl; [lia|].
  destruct (N.eq_dec b 95) as [->|Hne]; [simpl; lia|].
  assert (H := count_while_le is_dec (b::t)). simpl in H.
  destruct b as [|p]; [exact H|]. do 7 (destruct p as [p|p|]; try exact H); simpl; try lia; exact H. Qed.

Definition dec_number (l: list byte) : nat :=   (* l = suffix after the first digit *)
  let n1 := count_while is_dec l in
  let r1 := skipn n1 l in
  let n2 := match r1 with
            | 46 :: r => let f := count_full_decimal r in if Nat.eqb f 0 then O else S f
            | _ => O end in
  let r2 := skipn n2 r1 in
  let n3 := match r2 with
            | b :: r => if (b =? 101) || (b =? 69) then
                          match r with
                          | s :: r' => if (s =? 43) || (s =? 45) then S (S (count_full_decimal r')) else S (count_full_decimal r)
                          | [] => 1%nat end
                        else O
            | [] => O end in
  (1 + n1 + n2 + n3)%nat.

Lemma skipn_len {A} n (l:list A) : length (skipn n l) = (length l - n)%nat.
Proof. apply skipn_length. Qed.

Lemma dec_number_bounds l : (1 <= dec_number l <= 1 + length l)%nat.
Proof.
  unfold dec_number.
  pose proof (count_while_le is_dec l) as H1.
  set (n1 := count_while is_dec l) in *.
  set (r1 := skipn n1 l).
  assert (L1: length r1 = (length l - n1)%nat) by apply skipn_len.
  set (n2 := match r1 with 46 :: r => _ | _ => _ end).
  assert (H2: (n2 <= length r1)%nat).
  { subst n2. destruct r1 as [|b r]; simpl; [lia|].
    destruct b as [|p]; [lia|]. do 6 (destruct p as [p|p|]; try lia).
    pose proof (count_full_decimal_le r). destruct (Nat.eqb (count_full_decimal r) 0); simpl; lia. }
  set (r2 := skipn n2 r1).
  assert (L2: length r2 = (length r1 - n2)%nat) by apply skipn_len.
  set (n3 := match r2 with b :: r => _ | [] => _ end).
  assert (H3: (n3 <= length r2)%nat).
  { subst n3. destruct r2 as [|b r]; simpl; [lia|].
    destruct ((b =? 101) || (b =? 69)); [|lia].
    destruct r as [|s r']; simpl; [lia|].
    pose proof (count_full_decimal_le r'). pose proof (count_full_decimal_le (s::r')). simpl in *.
    destruct ((s =? 43) || (s =? 45)); simpl; lia. }
  lia.
Qed.

(* line comment after "//": up to CR/LF *)
Definition line_comment (l: list byte) : nat := (2 + count_while (fun b => negb ((b =? 10) || (b =? 13))) l)%nat.

(* one token: input l starts at a non-blank byte *)
Inductive ty := TNum | TIdent | TLineComment | TSlash | TUnknown.
Definition lex_token (l: list byte) : option (nat * ty) :=
  match l with
  | [] => None
  | b :: t =>
    if is_digit b then Some (dec_number t, TNum)
    else if is_alpha b || (b =? 95) || (128 <=? b) then Some (S (count_while is_ident t), TIdent)
    else if b =? 47 then match t with 47 :: t' => Some (line_comment t', TLineComment) | _ => Some (1%nat, TSlash) end
    else Some (1%nat, TUnknown)
  end.

Lemma lex_token_bounds l n k : lex_token l = Some (n, k) -> (1 <= n <= length l)%nat.
Proof.
  unfold lex_token. destruct l as [|b t]; [discriminate|]. simpl length.
  destruct (is_digit b).
  - intros H; inversion H; subst. pose proof (dec_number_bounds t). lia.
  - destruct (is_alpha b || (b =? 95) || (128 <=? b)).
    + intros H; inversion H; subst. pose proof (count_while_le is_ident t). lia.
    + destruct (b =? 47).
      * destruct t as [|c t']; [intros H; inversion H; simpl; lia|].
        destruct (N.eq_dec c 47) as [->|Hne].
        -- intros H; inversion H; subst. unfold line_comment.
           pose proof (count_while_le (fun b => negb ((b =? 10) || (b =? 13))) t'). simpl. lia.
        -- intros H. assert (Hs: Some (n,k) = Some (1%nat, TSlash)).
           { rewrite <- H. destruct c as [|p]; [reflexivity|]. do 6 (destruct p as [p|p|]; try reflexivity). exfalso; apply Hne; reflexivity. }
           inversion Hs; simpl; lia.
      * intros H; inversion H; simpl; lia.
Qed.

Record tok := { ws : list byte; content : list byte; kind : option ty }.   (* kind None = Eof *)

Fixpoint lex (fuel:nat) (l: list byte) : option (list tok) :=
  match fuel with
  | O => None
  | S f =>
    let w := count_while is_blank l in
    let r := skipn w l in
    match lex_token r with
    | None => Some [ {| ws := firstn w l; content := []; kind := None |} ]
    | Some (n, k) =>
      match lex f (skipn n r) with
      | Some ts => Some ({| ws := firstn w l; content := firstn n r; kind := Some k |} :: ts)
      | None => None
      end
    end
  end.

Definition flat (ts: list tok) := concat (map (fun t => ws t ++ content t) ts).

(* totality: fuel = S (length l) always suffices; proved FROM the progress bound *)
Theorem lex_total : forall f l, (length l < f)%nat -> exists ts, lex f l = Some ts.
Proof.
  induction f as [|f IH]; intros l Hf; [lia|]. simpl.
  set (w := count_while is_blank l). set (r := skipn w l).
  destruct (lex_token r) as [[n k]|] eqn:E; [|eexists; reflexivity].
  apply lex_token_bounds in E.
  assert (Lr: length r = (length l - w)%nat) by apply skipn_len.
  destruct (IH (skipn n r)) as [ts Hts]; [rewrite skipn_len; lia|].
  rewrite Hts. eexists; reflexivity.
Qed.

Theorem lex_lossless : forall f l ts, lex f l = Some ts -> flat ts = l.
Proof.
  induction f as [|f IH]; intros l ts H; [discriminate|]. simpl in H.
  set (w := count_while is_blank l) in *. set (r := skipn w l) in *.
  destruct (lex_token r) as [[n k]|] eqn:E.
  - destruct (lex f (skipn n r)) as [ts'|] eqn:E2; [|discriminate]. inversion H; subst ts; clear H.
    unfold flat; simpl. fold (flat ts'). rewrite (IH _ _ E2).
    rewrite <- app_assoc. rewrite firstn_skipn. subst r. apply firstn_skipn.
  - inversion H; subst ts; clear H. unfold flat; simpl. rewrite !app_nil_r.
    (* no token: r must be empty, so the blanks are the whole input *)
    unfold lex_token in E. destruct r as [|b t] eqn:Er.
    + assert (Lr: length (skipn w l) = 0%nat) by (fold r; rewrite Er; reflexivity).
      rewrite skipn_len in Lr. apply firstn_all2. lia.
    + exfalso. destruct (is_digit b); [discriminate|]. destruct (is_alpha b || (b =? 95) || (128 <=? b)); [discriminate|].
      destruct (b =? 47); [destruct t as [|c t']; [discriminate|]; destruct c as [|p]; try discriminate; do 6 (destruct p as [p|p|]; try discriminate)|discriminate].
Qed.

(* content non-empty and starts at a non-blank byte *)
Theorem lex_content_nonempty : forall f l ts t, lex f l = Some ts -> In t ts -> kind t <> None -> content t <> [].
Proof.
  induction f as [|f IH]; intros l ts t H Hin Hk; [discriminate|]. simpl in H.
  set (w := count_while is_blank l) in *. set (r := skipn w l) in *.
  destruct (lex_token r) as [[n k]|] eqn:E.
  - destruct (lex f (skipn n r)) as [ts'|] eqn:E2; [|discriminate]. inversion H; subst ts; clear H.
    destruct Hin as [<-|Hin]; [|eapply IH; eauto].
    simpl. apply lex_token_bounds in E. intro Hc.
    assert (length (firstn n r) = 0%nat) by (rewrite Hc; reflexivity).
    rewrite firstn_length in H. lia.
  - inversion H; subst ts; clear H. destruct Hin as [<-|[]]. simpl in Hk. congruence.
Qed.
Print Assumptions lex_lossless.
Print Assumptions lex_total.
