(* unit e2e: the COMPOSED model (Model/Format.v: format_model = the fold of the stage models over the generated
   stage list) run from the case's input bytes and configuration only, against
     (1) the implementation's final output, byte for byte (OUT), and
     (2) every stage dump of the trace, in stage order (RAW, PARSED, LINES parsed, GENERICS, LINES conddir,
         LINES deindent, STATE/LINES pre, STATE spacing, lower, comment, eofnl, final), reporting the FIRST stage
         whose state differs.
   Nothing of the trace but INPUT and CFG is given to the model.
   Cases with more than E2E_MAX_TOKENS raw tokens (default 6000) are not run: `K <id> e2e SKIP ...`. *)
open Model
open Util
open Trace
open Common

let max_tokens = (match Sys.getenv_opt "E2E_MAX_TOKENS" with Some s -> int_of_string s | None -> 6000)

let cfg_of c =
  match c.cfg with
  | [wrap; bg; fms; tabs; tw; ci; crlf] ->
    Some { c_wrap = n_of_int wrap; c_begin_always = (bg = 1); c_fms = (fms = 1); c_tabs = (tabs = 1);
           c_tab_width = n_of_int tw; c_cont = n_of_int ci; c_crlf = (crlf = 1) }
  | _ -> None

let kname = function
  | K_Lexer -> "lexer" | K_Parser -> "parser" | K_Generics -> "generics" | K_CondDir -> "conddir" | K_Deindent -> "deindent"
  | K_Toggler -> "toggler" | K_IgnoreAsm -> "ignoreasm" | K_Spacing -> "spacing" | K_Lower -> "lower" | K_Comment -> "comment"
  | K_EofNewline -> "eofnl" | K_Wrap -> "wrap" | K_Recon -> "recon"

let err_name = function
  | FE_lex_fuel -> "lex_fuel"
  | FE_parse e -> "parse:" ^ U_grammar.string_of_err e
  | FE_generics_fuel -> "generics_fuel" | FE_generics_panic -> "generics_panic"
  | FE_conddir_underflow -> "conddir_underflow"
  | FE_wrap_fuel -> "wrap_fuel"
  | FE_unknown_stage -> "unknown_stage"
  | FE_shape k -> "shape:" ^ kname k
  | FE_no_reconstructor -> "no_reconstructor"

let same_line (m : lline) (l : line) =
  name_of_llt m.ll_type = l.lty && int_of_n m.ll_level = l.level
  && (match m.ll_parent with None -> l.pline < 0 | Some (a, b) -> int_of_nat a = l.pline && int_of_nat b = l.ptok)
  && List.map int_of_nat m.ll_toks = l.toks

let cmp_lines lab (ml : lline list) (c : case) : string option =
  match List.assoc_opt lab c.lines with
  | None -> None    (* no dump to compare with *)
  | Some il ->
    let rec go i a b = match a, b with
      | [], [] -> None
      | m :: a', l :: b' -> if same_line m l then go (i + 1) a' b'
        else Some (Printf.sprintf "LINES %s: line %d: model %s impl %s" lab i (U_grammar.show_mline m) (U_grammar.show_iline l))
      | _, _ -> Some (Printf.sprintf "LINES %s: model %d lines, impl %d" lab (List.length ml) (List.length il)) in
    go 0 ml il

let cmp_types what (mt : tokenType list) (it : string list) : string option =
  let rec fd i a b = match a, b with
    | [], [] -> None
    | x :: a', y :: b' -> if name_of_tt x = y then fd (i + 1) a' b' else Some (Printf.sprintf "%s: token %d: model %s impl %s" what i (name_of_tt x) y)
    | _, _ -> Some (Printf.sprintf "%s: lengths %d/%d" what (List.length mt) (List.length it)) in
  fd 0 mt it

let cmp_state lab (ml : ftoken list) (c : case) : string option =
  match state c lab with
  | None -> None
  | Some st ->
    let impl = ftokens st in
    if ml = impl then None else Some (Printf.sprintf "STATE %s: %s" lab (U_rewriters.first_diff ml impl))

let ( >>= ) o f = match o with Some d -> Some d | None -> f ()

(* the comparison of the state after stage k with the dumps taken at that point *)
let check_stage (c : case) (k : kstage) (st : fstate) : string option =
  match k, st with
  | K_Lexer, S_raw segs ->
    let m = List.map (fun ((w, ct), ty) -> (List.length w, List.length ct, name_of_rtt ty)) segs in
    if m = c.raw then None else Some "RAW: token boundaries or types differ"
  | K_Parser, S_parsed (toks, lines, _) ->
    cmp_types "PARSED" (List.map (fun t -> t.t_ty) toks) c.parsed >>= fun () -> cmp_lines "parsed" lines c
  | K_Generics, S_parsed (toks, _, _) -> cmp_types "GENERICS" (List.map (fun t -> t.t_ty) toks) c.generics
  | K_CondDir, S_parsed (_, lines, _) -> cmp_lines "conddir" lines c
  | K_Deindent, S_parsed (_, lines, _) -> cmp_lines "deindent" lines c
  | K_Toggler, S_parsed _ -> None
  | K_IgnoreAsm, S_parsed _ ->
    (match to_fmt st with
     | S_fmt (lines, l) -> cmp_lines "pre" lines c >>= fun () -> cmp_state "pre" l c
     | _ -> Some "to_fmt did not give S_fmt")
  | K_Spacing, S_fmt (_, l) -> cmp_state "spacing" l c
  | K_Lower, S_fmt (_, l) -> cmp_state "lower" l c
  | K_Comment, S_fmt (_, l) -> cmp_state "comment" l c
  | K_EofNewline, S_fmt (_, l) -> cmp_state "eofnl" l c
  | K_Wrap, S_fmt (_, l) -> cmp_state "final" l c
  | K_Recon, S_out o ->
    (match c.out with
     | Some out -> let m = string_of_bytes o in if m = out then None else Some ("OUT: model " ^ hex m ^ " impl " ^ hex out)
     | None -> Some "no OUT in the trace")
  | _, _ -> Some "state of an unexpected shape"

let run_model c cfg = format_trace U_rewriters.alnum cfg (bytes_of_string c.input)

let u_e2e c =
  match cfg_of c with
  | None -> Skip
  | Some cfg ->
    let nraw = List.length c.raw in
    if nraw > max_tokens then Skipped (Printf.sprintf "%d raw tokens > %d" nraw max_tokens)
    else begin
      let (states, err) = run_model c cfg in
      let rec go ks sts = match ks, sts with
        | k :: kr, st :: sr ->
          (match check_stage c k st with
           | Some d -> Some (Printf.sprintf "first differing stage %s: %s" (kname k) d)
           | None -> go kr sr)
        | k :: _, [] ->
          (match err with Some e -> Some (Printf.sprintf "model error %s at stage %s" (err_name e) (kname k))
                        | None -> Some "trace shorter than the stage list")
        | [], [] -> None
        | [], _ -> Some "trace longer than the stage list" in
      match go make_formatter_kinds states with
      | Some d -> Diff d
      | None ->
        (* the states agreed all the way; the last one is the output, compared above *)
        (match c.out, List.rev states with
         | Some _, S_out _ :: _ -> Ok_
         | _ -> Diff "no output state")
    end

(* a case on which the implementation panicked: the model must stop with an error value too *)
let u_e2e_panic c =
  match cfg_of c with
  | None -> Skip
  | Some cfg ->
    if String.length c.input > 20000 then Skipped "input too long" else
    (match format_chain U_rewriters.alnum cfg (bytes_of_string c.input) with
     | Inr e -> Ok_
     | Inl _ -> Diff "the implementation panicked; the model returned an output")

(* how often the hypothesis of FormatEofProofs.format_ends_with_one_newline (eof_lines_ok: the Eof token only in parentless Eof
   lines [e] that are nobody's parent, an Eof line present, the Eof token not ignored) holds on the composed run; where it does, the
   output must end in exactly one configured line ending after the text of the last other token (a theorem; re-checked here) *)
let u_eofhyp c =
  match lex_segments (bytes_of_string c.input), c.out with
  | Some segs, Some out when List.length segs <= max_tokens ->
    if eof_lines_okb segs then begin
      let (nl, _, _) = c.rs in
      let n = String.length out and k = String.length nl in
      if n >= k && String.sub out (n - k) k = nl then Ok_ else Diff "hypothesis holds but the output does not end in the configured line ending"
    end else Viol ("eof_hypothesis_false", "eof_lines_ok does not hold on the composed run")
  | _ -> Skip

(* the lexer link of FormatCrlfProofs.format_crlf_input (lex_crlf_commutes): the lexer cuts the CRLF-ed input into the tokens of the
   input with CRLF-ed leading whitespace.  LexerCrlfProofs.lex_crlf proves it when crlf_link_okb holds (no LF or CR in a token text,
   directives terminated).  Measured here: how often crlf_link_okb holds; where it does the link must hold (a
   theorem, re-checked: DIFF otherwise); where it does not, whether the link holds anyway. *)
let u_crlfhyp c =
  match lex_segments (bytes_of_string c.input) with
  | Some segs when List.length segs <= max_tokens ->
    let to_crlf (s : string) = String.concat "\r\n" (String.split_on_char '\n' s) in
    let hyp = crlf_link_okb segs in
    let commutes =
      (match lex_segments (bytes_of_string (to_crlf c.input)) with
       | Some segs2 -> segs2 = List.map (fun ((w, ct), ty) -> ((bytes_of_string (to_crlf (string_of_bytes w)), ct), ty)) segs
       | None -> false) in
    if hyp then (if commutes then Ok_ else Diff "crlf_link_okb holds but the lexer cuts the CRLF-ed input differently")
    else begin
      let eol_in_text = List.exists (fun ((_, ct), _) -> let t = string_of_bytes ct in String.contains t '\n' || String.contains t '\r') segs in
      Viol (Printf.sprintf "crlf_link_false_%s_%s" (if eol_in_text then "line_break_in_a_token" else "unterminated_directive")
              (if commutes then "commutes" else "does_NOT_commute"), "crlf_link_okb does not hold")
    end
  | _ -> Skip

(* how often the hypothesis of FormatIdemProofs.format_idempotent_min (FormatIdemKindsProofs.format_idempotent_kinds: idem_hypb_kinds) holds on the composed run, and which of its checks
   fails first where it does not; in both cases the composed model is run again on its own output:
     hypothesis true  -> the second output must be the first (a theorem; re-checked here: DIFF otherwise)
     hypothesis false -> V idem_hyp_false_<first failing check>_<idempotent|NOT_idempotent> *)
let idem_check_names = [| "rescan_fuel"; "rescan_pieces"; "rescan_kinds_mod_flags"; "asm"; "ignored_first_run";
                          "ml_string"; "undecided_token"; "inline_comment_after_line_comment"; "spaces_read" |]
let u_idemhyp c =
  match cfg_of c with
  | None -> Skip
  | Some cfg ->
    (match lex_segments (bytes_of_string c.input) with
     | Some segs when List.length segs <= max_tokens ->
       (match format_chain U_rewriters.alnum cfg (bytes_of_string c.input) with
        | Inr _ -> Skip
        | Inl out ->
          let again = (match format_chain U_rewriters.alnum cfg out with Inl o2 -> o2 = out | Inr _ -> false) in
          let checks = idem_hyp_checks_kinds U_rewriters.alnum cfg segs in
          let rec first i = function [] -> -1 | b :: r -> if b then first (i + 1) r else i in
          let k = first 0 checks in
          if k < 0 then (if again then Ok_ else Diff "idem_hyp holds but the second run changes the output")
          else begin
            let detail =
              if k <> 8 then "" else
              (match lex_segments out with
               | Some segs2 ->
                 let a = fm_l4 U_rewriters.alnum segs and b = fm_l4 U_rewriters.alnum segs2 in
                 let rec go i prev x y = match x, y with
                   | (t, f) :: x', (_, g) :: y' ->
                     if f.f_sp = g.f_sp then go (i + 1) (Some t) x' y'
                     else Printf.sprintf " token %d %s(%s) after %s: first run spaces %d, second run %d (second run reads nl %d)" i (name_of_tt t.t_ty)
                            (String.escaped (string_of_bytes t.t_content))
                            (match prev with Some p -> name_of_tt p.t_ty | None -> "-") (int_of_n f.f_sp) (int_of_n g.f_sp) (int_of_n g.f_nl)
                   | _, _ -> "" in
                 go 0 None a b
               | None -> "") in
            Viol (Printf.sprintf "idem_hyp_false_%s_%s" idem_check_names.(k) (if again then "idempotent" else "NOT_idempotent"),
                  "idem_hyp does not hold on the composed run" ^ detail)
          end)
     | _ -> Skip)

let () = register [ ("e2e", u_e2e); ("eofhyp", u_eofhyp); ("crlfhyp", u_crlfhyp); ("idemhyp", u_idemhyp) ]; panic_units := !panic_units @ [ ("e2e_panic", u_e2e_panic) ]
