(* unit kernel: the parser's line-state kernel replayed from the hook's event log.
   (1) per pass: k_run(pass indices, events) = the lines the real pass produced (tie of the kernel);
   (2) side conditions of the coverage theorem (H-P3): the pass was consumed to its end, and only
       compiler-directive tokens were skipped;
   (3) parse_file: the set of token lists of the final lines = model consolidation of the pass lines
       plus the directive singletons. *)
open Model
open Util
open Trace
open Common

let kev_of = function 'T' -> KT | 'S' -> KS | 'L' -> KL | 'C' -> KC | 'c' -> Kc | 'R' -> KR | 'r' -> Kr | c -> failwith (Printf.sprintf "event %c" c)

let u_kernel c =
  match c.passes with
  | None -> Skip
  | Some passes ->
    let kp = List.rev c.kpasses in
    if List.length kp <> List.length passes then Diff (Printf.sprintf "%d passes but %d event logs" (List.length passes) (List.length kp))
    else begin
      let res = ref Ok_ in
      let raw = Array.of_list c.raw in
      let pass_results = ref [] in
      List.iter2 (fun pass (ev, lines_rev) ->
        if !res = Ok_ then begin
          let impl_lines = List.rev lines_rev in
          let evs = List.init (String.length ev) (fun i -> kev_of ev.[i]) in
          let npass = List.map nat_of_int pass in
          let st = k_run npass evs in
          let model_lines = List.map (List.map int_of_nat) st.k_lines in
          pass_results := List.map (List.map nat_of_int) impl_lines :: !pass_results;
          if model_lines <> impl_lines then
            res := Diff (Printf.sprintf "pass lines differ: model [%s] impl [%s] events %s"
                           (String.concat "|" (List.map (fun l -> String.concat "," (List.map string_of_int l)) model_lines))
                           (String.concat "|" (List.map (fun l -> String.concat "," (List.map string_of_int l)) impl_lines)) ev)
          else if int_of_nat st.k_pi < List.length pass then
            res := Viol ("pass_not_consumed", Printf.sprintf "pass of %d tokens ended at pass_index %d" (List.length pass) (int_of_nat st.k_pi))
          else begin
            let skips = List.map int_of_nat (k_skips evs O) in
            let parr = Array.of_list pass in
            List.iter (fun i ->
              if i < Array.length parr then begin
                let (_, _, ty) = raw.(parr.(i)) in
                if ty <> "CompilerDirective" && !res = Ok_ then
                  res := Viol ("non_directive_skipped", Printf.sprintf "skip_token on token %d of type %s" parr.(i) ty)
              end) skips
          end
        end) passes kp;
      if !res = Ok_ then begin
        match (try Some (List.assoc "parsed" c.lines) with Not_found -> None) with
        | Some final ->
          let is_dir i = let (_, _, ty) = raw.(int_of_nat i) in
            ty = "CompilerDirective" || (String.length ty > 20 && String.sub ty 0 20 = "ConditionalDirective") in
          let m = parse_file_lines is_dir (nat_of_int (Array.length raw)) (List.rev !pass_results) in
          let norm ls = List.sort_uniq compare ls in
          let ml = norm (List.map (List.map int_of_nat) m) and il = norm (List.map (fun l -> l.toks) final) in
          if ml <> il then res := Diff (Printf.sprintf "final lines differ: model %d lines, impl %d lines" (List.length ml) (List.length il))
        | None -> ()
      end;
      !res
    end

let () = register [ ("kernel", u_kernel) ]
