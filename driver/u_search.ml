(* unit search: the line wrapper's search (Model/WrapContexts.v, WrapSearch.v, WrapFormat.v: olf_model) run on the state
   before the wrapper (STATE eofnl, LINES pre, CFG, RS) against the hook log, in order:
     WD/WL (every decision reconstruct_solution applies, children included, with the measured length),
     WS (the outcome of every find_optimal_solution call that reaches its main loop: penalty, iterations, length),
     WPHASE (strings / reflow; the second phase re-runs the model on the state after the string stage),
   and the resulting token vector against STATE final. *)
open Model
open Util
open Trace
open Common

let max_tokens = ref 20000

let ev_lines (e : event) : string list list =
  match e with
  | Ev_S (l, o) ->
    let l = string_of_int (int_of_nat l) in
    (match o with
     | WS_ok (p, i, n) -> [["WS"; l; "ok"; string_of_int (int_of_n p); string_of_int (int_of_n i); string_of_int (int_of_n n)]]
     | WS_limit n -> [["WS"; l; "limit"; string_of_int (int_of_n n)]]
     | WS_none n -> [["WS"; l; "none"; string_of_int (int_of_n n)]])
  | Ev_D (t, d, lll, first) ->
    let t = string_of_int (int_of_n t) in
    (match d with
     | Some ((f, ind), cont) -> ["WD"; t; "B"; (if f then "1" else "0"); string_of_int (int_of_n ind); string_of_int (int_of_n cont)]
     | None -> ["WD"; t; "C"])
    :: [["WL"; t; string_of_int (int_of_n lll); (if first then "1" else "0")]]
  | Ev_Phase n -> [["WPHASE"; (if int_of_nat n = 1 then "strings" else "reflow")]]

let u_search c =
  match state c "eofnl", state c "final", List.assoc_opt "pre" c.lines with
  | Some a, Some b, Some ls when c.wevents <> [] ->
    if Array.length a > !max_tokens then Skip else begin
      let (wrap, bbb, fms) = (match c.cfg with [w; bg; f; _; _; _; _] -> (w, bg = 1, f = 1) | _ -> (120, false, true)) in
      let rs = rs_of c in
      let w = wsettings_of rs (n_of_int wrap) (n_of_int 20000) bbb in
      let lines = U_lines.mk_lines ls in
      let ((fin, evs), err) = olf_model rs w fms lines (ftokens a) in
      let m = List.concat_map ev_lines evs in
      let impl = List.rev c.wevents in
      let rec cmp i a b = match a, b with
        | [], [] -> None
        | x :: a', y :: b' -> if x = y then cmp (i + 1) a' b' else Some (i, String.concat " " x, String.concat " " y)
        | x :: _, [] -> Some (i, String.concat " " x, "<end>")
        | [], y :: _ -> Some (i, "<end>", String.concat " " y) in
      if err then Diff "model out of fuel"
      else match cmp 0 m impl with
        | Some (i, x, y) -> Diff (Printf.sprintf "event %d: model [%s] impl [%s]" i x y)
        | None ->
          let impl_fin = ftokens b in
          if fin = impl_fin then Ok_ else Diff ("final state: " ^ U_rewriters.first_diff fin impl_fin)
    end
  | _ -> Skip

let () = register [ ("search", u_search) ]
