(* units: mlstring (model of the re-indentation = implementation), wrapcontent (the wrapper changes
   no other content), mlvalue (C12 stated directly on the real tokens) *)
open Model
open Util
open Trace
open Common

let fms c = match c.cfg with [_; _; f; _; _; _; _] -> f = 1 | _ -> true
let is_ml ty = (ty = "TextLiteral(MultiLine)")

let u_mlstring c =
  match state c "eofnl", state c "final" with
  | Some a, Some b when Array.length a = Array.length b ->
    let rs = rs_of c in
    let res = ref Ok_ in
    Array.iteri (fun i k ->
      let k' = b.(i) in
      if !res = Ok_ then begin
        let expect =
          if is_ml k'.ty && not k'.ign && fms c then
            (match rewrite_ml_token rs (n_of_int k'.ind) (n_of_int k'.cont) (bytes_of_string k.content) with
             | Some c' -> string_of_bytes c' | None -> k.content)
          else k.content in
        if expect <> k'.content then
          res := Diff (Printf.sprintf "token %d (%s): model %s impl %s" i k'.ty (hex expect) (hex k'.content))
      end) a;
    !res
  | _ -> Skip

let is_blank_at_start (l : string) (i : int) : bool =
  (* is the byte at i (just after the expected indentation) another blank? *)
  i < String.length l && (Char.code l.[i] <= 0x20 || (i + 2 < String.length l && l.[i] = '\xe3' && l.[i+1] = '\x80' && l.[i+2] = '\x80'))


let lines_of_bytes l = List.map string_of_bytes l

let u_mlvalue c =
  match state c "pre", state c "final" with
  | Some a, Some b when Array.length a = Array.length b ->
    let rs = rs_of c in
    let res = ref Ok_ in
    let fail k d = if !res = Ok_ then res := Viol (k, d) in
    Array.iteri (fun i k ->
      let k' = b.(i) in
      if is_ml k'.ty then begin
        let c0 = bytes_of_string k.content and c1 = bytes_of_string k'.content in
        let elig = eligible c0 in
        if k'.ign || not (fms c) || not elig then begin
          if k.content <> k'.content then
            fail "mlstring_touched" (Printf.sprintf "token %d: literal %s (ignored=%b, format_multiline_strings=%b, eligible=%b) was changed to %s" i (hex k.content) k'.ign (fms c) elig (hex k'.content))
        end else begin
          if ml_value c1 <> ml_value c0 then
            fail "mlstring_value_changed" (Printf.sprintf "token %d: value of %s differs from value of %s" i (hex k.content) (hex k'.content));
          (* every line after the first: empty, or indented exactly like the literal's own line *)
          let indent = string_of_bytes (List.concat [nrepeat (n_of_int k'.ind) rs.rs_indent; nrepeat (n_of_int k'.cont) rs.rs_cont]) in
          let ls = lines_of_bytes (lines_custom c1) in
          let li = String.length indent in
          (* interior lines keep any indentation beyond the base (it belongs to the value); the closing
             line is the indentation followed by the quotes *)
          let ok_line l = l = "" || (String.length l > li && String.sub l 0 li = indent) in
          let rest = (match ls with _ :: r -> r | [] -> []) in
          let closing_ok = (match List.rev rest with cl :: _ -> String.length cl > li && String.sub cl 0 li = indent && not (is_blank_at_start cl li) | [] -> true) in
          if not (List.for_all ok_line rest && closing_ok) then begin
            (* the lone-CR class (F5): the last line terminator before the closing quotes is a lone CR *)
            let s = k.content in
            let j = (try String.rindex s '\r' with Not_found -> -1) in
            let after_cr = if j >= 0 then String.sub s (j + 1) (String.length s - j - 1) else "" in
            let lone_cr = j >= 0 && not (String.contains after_cr '\n') && (j + 1 >= String.length s || s.[j + 1] <> '\n') in
            fail ("mlstring_not_reindented:" ^ (if lone_cr then "cr" else "other"))
              (Printf.sprintf "token %d: eligible literal %s -> %s: a line is not indented like the literal's own line (%d indentations, %d continuations)" i (hex k.content) (hex k'.content) k'.ind k'.cont)
          end;
          (* terminators inside a rewritten literal are the configured newline *)
          if string_of_bytes (MLStringJoin.join rs.rs_newline (lines_custom c1)) <> k'.content then
            fail "mlstring_terminators" (Printf.sprintf "token %d: eligible literal %s has terminators other than the configured newline after formatting" i (hex k'.content))
        end
      end) a;
    !res
  | _ -> Skip
let () = register [ ("mlstring", u_mlstring); ("mlvalue", u_mlvalue) ]
