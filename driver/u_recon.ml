(* units: settings, recon *)
open Model
open Util
open Trace
open Common

let u_settings c =
  match c.cfg with
  | [_; _; _; tabs; tw; ci; crlf] ->
    let m = rs_of_config (crlf = 1) (tabs = 1) (n_of_int tw) (n_of_int ci) in
    let r = rs_of c in
    if m = r then Ok_ else Diff (Printf.sprintf "model rs = %s %s %s" (hex_of_bytes m.rs_newline) (hex_of_bytes m.rs_indent) (hex_of_bytes m.rs_cont))
  | _ -> Skip

let u_recon c =
  match state c "final", c.out with
  | Some st, Some out ->
    let m = string_of_bytes (reconstruct (rs_of c) (ftokens st)) in
    if m = out then Ok_ else Diff ("model out = " ^ hex m)
  | _ -> Skip

let () = register [ ("settings", u_settings); ("recon", u_recon) ]

(* settings grid: lines `SET tabs tw ci crlf nlhex indenthex conthex` *)
let settings_grid file =
  let ic = open_in file in
  let ok = ref 0 in
  (try while true do
     let l = input_line ic in
     match String.split_on_char ' ' l with
     | ["SET"; tabs; tw; ci; crlf; a; b; d] ->
       let m = rs_of_config (crlf = "1") (tabs = "1") (n_of_int (int_of_string tw)) (n_of_int (int_of_string ci)) in
       if hex_of_bytes m.rs_newline = a && hex_of_bytes m.rs_indent = b && hex_of_bytes m.rs_cont = d then incr ok
       else Printf.printf "GRID DIFF %s\n" l
     | _ -> ()
   done with End_of_file -> ());
  close_in ic;
  Printf.printf "GRID OK %d\n" !ok

let () = Common.commands := ("settings-grid", settings_grid) :: !Common.commands
