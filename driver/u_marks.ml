(* units: passes (DirectiveTree), ignore (toggle + asm marks, voided lines), canon (H-W1 monitors) *)
open Model
open Util
open Trace
open Common

let u_passes c =
  match c.passes with
  | Some impl ->
    let tys = List.map (fun (_, _, ty) -> rtt_of_name ty) c.raw in
    let m = List.map (List.map int_of_nat) (all_passes tys) in
    if m = impl then Ok_
    else Diff (Printf.sprintf "model passes = [%s]" (String.concat " | " (List.map (fun p -> String.concat "," (List.map string_of_int p)) m)))
  | None -> Skip

let lines_of c lab =
  try Some (List.assoc lab c.lines) with Not_found -> None

let u_ignore c =
  match state c "pre", lines_of c "deindent", lines_of c "pre" with
  | Some st, Some ls, Some ls_after ->
    let toks = List.map fst (ftokens st) in
    let mlines = List.map (fun l -> (llt_of_name l.lty, List.map nat_of_int l.toks)) ls in
    let marks = ignore_marks toks mlines in
    let impl = Array.to_list (Array.map (fun k -> k.ign) st) in
    if marks <> impl then
      Diff (Printf.sprintf "marks differ: model %s impl %s"
              (String.concat "" (List.map (fun b -> if b then "1" else "0") marks))
              (String.concat "" (List.map (fun b -> if b then "1" else "0") impl)))
    else begin
      let v = void_lines marks mlines in
      let impl_l = List.map (fun l -> (llt_of_name l.lty, List.map nat_of_int l.toks)) ls_after in
      if v = impl_l then Ok_ else Diff "voided lines differ"
    end
  | _ -> Skip

(* H-W1 monitor for C08: the final formatting data of decided tokens is canonical *)
let u_canon c =
  match state c "final" with
  | Some st ->
    let l = ftokens st in
    (match canon_first_bad true l O with
     | None -> Ok_
     | Some i -> let i = int_of_nat i in
       let k = st.(i) in
       Viol ("plan_not_canonical", Printf.sprintf "token %d (%s) nl=%d ind=%d cont=%d sp=%d: a line start carries spaces / a continuation carries indentation / more than one blank line" i k.ty k.nl k.ind k.cont k.sp))
  | None -> Skip

(* C08(d): no output line ends in blanks. A line ends where the next decided token breaks; what
   precedes the break is the previous token's content. Verbatim (ignored) neighbours are excluded. *)
let u_lineend c =
  match state c "final" with
  | Some st ->
    let n = Array.length st in
    let res = ref Ok_ in
    for i = 0 to n - 2 do
      let k = st.(i) and nx = st.(i + 1) in
      let breaks = nx.nl > 0 || (k.ty = "Comment(InlineLine)" || k.ty = "Comment(IndividualLine)") in
      if !res = Ok_ && not k.ign && not nx.ign && breaks && k.content <> ""
         && not (ends_nonblank (bytes_of_string k.content)) then begin
        let cls =
          if k.ty = "Comment(InlineLine)" || k.ty = "Comment(IndividualLine)" then "line_comment_exotic_blank"
          else if k.ty = "TextLiteral(Unterminated)" then "unterminated_literal"
          else "other:" ^ k.ty in
        res := Viol ("trailing_blank:" ^ cls, Printf.sprintf "token %d (%s) content %s ends in a blank before a line break" i k.ty (hex k.content))
      end
    done; !res
  | None -> Skip

let () = register [ ("passes", u_passes); ("ignore", u_ignore); ("canon", u_canon); ("lineend", u_lineend) ]
