(* unit: levels — C05's plan hypothesis: the first token of every top-level logical line starts a
   physical line at `level` indentations with no continuation *)
open Model
open Util
open Trace
open Common

let u_levels c =
  match state c "final", (try Some (List.assoc "pre" c.lines) with Not_found -> None) with
  | Some st, Some ls ->
    let res = ref Ok_ in
    List.iter (fun l ->
      match l.toks with
      | t :: _ when l.pline < 0 && l.lty <> "Voided" && t < Array.length st ->
        let k = st.(t) in
        if !res = Ok_ && not k.ign && t > 0 then begin
          let prev = st.(t - 1) in
          let after_inline = (k.ty = "Comment(InlineBlock)" || k.ty = "Comment(InlineLine)") in
          if not after_inline && not (k.nl > 0 && k.ind = l.level && k.cont = 0 && k.sp = 0) then
            res := Viol ("line_start_not_at_level", Printf.sprintf "line %s level %d: first token %d (%s) has nl=%d ind=%d cont=%d sp=%d (prev token %s)" l.lty l.level t k.ty k.nl k.ind k.cont k.sp prev.ty)
        end
      | _ -> ()) ls;
    !res
  | _ -> Skip

let () = register [ ("levels", u_levels) ]
