(* command fileio: the file-layer model (Encoding.v + FileIO.v) on concrete byte contents.
   input lines:  <enc> <content hex> <path hex> <formatter input utf8 hex> <formatter output utf8 hex>
   The abstract `format` is instantiated by the single pair the implementation's formatter produced
   for this case (identity elsewhere); legacy code pages are not instantiated (decode = malformed). *)
open Model
open Util
open Common

let enc_of = function "utf8" -> Utf8 | "utf16le" -> Utf16le | "utf16be" -> Utf16be | s -> failwith ("enc " ^ s)
let legacy_decode _ _ = None
let legacy_encode _ _ = None
let b2h b = hex_of_bytes b
let flag b = if b then "1" else "0"

let fileio file =
  let ic = open_in file in
  let i = ref 0 in
  (try while true do
     let l = input_line ic in
     (match String.split_on_char ' ' l with
      | [e; ch; ph; fi; fo] ->
        let cfg = enc_of e and content = bytes_of_hex ch and path = bytes_of_hex ph in
        let tin = utf8_decode (bytes_of_hex fi) and tout = utf8_decode (bytes_of_hex fo) in
        let format t = (match tin, tout with Some a, Some b when a = t -> b | _ -> t) in
        let ((ff, _), fe) = files_mode legacy_decode legacy_encode format cfg content in
        let (so, se) = stdin_mode legacy_decode legacy_encode format false cfg content in
        let ((cf, _), ce) = check_files_mode legacy_decode format cfg content in
        let ((pf, po), pe) = files_to_stdout_mode legacy_decode format path cfg content in
        let dec = (match decode_file legacy_decode cfg content with
            | Some ((bom, _), t) -> "ok:" ^ (match bom with Some b -> b2h b | None -> "-") ^ ":" ^ b2h (utf8_encode t)
            | None -> "reject") in
        Printf.printf "FIO %d dec=%s files=%s files_err=%s stdin=%s stdin_err=%s check_file=%s check_err=%s stdout_file=%s stdout=%s stdout_err=%s\n"
          !i dec (b2h ff) (flag fe) (b2h so) (flag se) (b2h cf) (flag ce) (b2h pf) (b2h po) (flag pe)
      | _ -> ());
     incr i
   done with End_of_file -> ());
  close_in ic

let () = commands := ("fileio", fileio) :: !commands
