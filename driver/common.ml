(* shared by all unit files *)
open Model
open Util
open Trace

(* Diff = model and implementation disagree (broken tie); Viol = a property oracle evaluated on the
   implementation's trace failed: (kind, detail) *)
type result = Ok_ | Diff of string | Skip | Viol of string * string
  | Skipped of string   (* not run on purpose (size limit): reported as `K <id> <unit> SKIP <why>`, never silent *)

let units : (string * (case -> result)) list ref = ref []
let register l = units := !units @ l
(* units run on the cases the implementation PANICKED on (only CFG / INPUT / PANIC of the trace are meaningful) *)
let panic_units : (string * (case -> result)) list ref = ref []
let commands : (string * (string -> unit)) list ref = ref []

let state c lab = try Some (List.assoc lab c.states) with Not_found -> None
let ftokens (st : tokstate array) : ftoken list =
  Array.to_list st |> List.map (fun k ->
    ({ t_ws = bytes_of_string k.ws; t_content = bytes_of_string k.content; t_ty = tt_of_name k.ty },
     { f_ignored = k.ign; f_nl = n_of_int k.nl; f_ind = n_of_int k.ind; f_cont = n_of_int k.cont; f_sp = n_of_int k.sp }))
let rs_of c = let (a, b, d) = c.rs in { rs_newline = bytes_of_string a; rs_indent = bytes_of_string b; rs_cont = bytes_of_string d }
