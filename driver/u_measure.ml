(* unit measure: the wrapper's measured line length of every decided token (hook: WL <token> <len> <first>)
   (1) equals the model of get_token_line_length / the first-token formulas (measure_ok), decision by decision,
       with the previous logged length as the line length so far;
   (2) equals the column the reconstructor reaches after that token (rendered_cols on the real final state), in
       cases without conditional directives, ignored tokens or a reflow (where every token is decided exactly once
       and the theorem measure_is_rendered_col applies to every token). *)
open Model
open Util
open Trace
open Common

let u_measure c =
  match state c "eofnl", state c "final" with
  | Some a, Some b when c.wevents <> [] ->
    let evs = List.rev c.wevents in
    let rs = rs_of c in
    let pre = Array.of_list (ftokens a) and fin = Array.of_list (ftokens b) in
    let phase = ref 0 and prev = ref N0 and pending = ref None and res = ref Ok_ in
    let last = Hashtbl.create 64 and reflow = ref false and checked = ref 0 in
    List.iter (fun e ->
      if !res = Ok_ then
      match e with
      | ["WPHASE"; "strings"] -> phase := 1; prev := N0
      | ["WPHASE"; "reflow"] -> phase := 2; prev := N0
      | "WD" :: idx :: "C" :: _ -> pending := Some (int_of_string idx, DContinue)
      | ["WD"; idx; "B"; first; ind; cont] ->
        pending := Some (int_of_string idx, DBreak (first = "1", n_of_int (int_of_string ind), n_of_int (int_of_string cont)))
      | ["WL"; idx; len; first] ->
        (match !pending with
         | Some (i, d) when i = int_of_string idx && i < Array.length pre && i < Array.length fin ->
           let logged = n_of_int (int_of_string len) in
           let sp = (snd pre.(i)).f_sp in
           let ok tok = measure_ok rs !prev d (first = "1") tok sp logged in
           if !phase = 2 then reflow := true;
           incr checked;
           if not (ok (fst pre.(i)) || (!phase = 2 && ok (fst fin.(i)))) then
             res := Diff (Printf.sprintf "token %d (%s) phase %d: logged length %d, previous %d, model %d" i
                            (name_of_tt (fst pre.(i)).t_ty) !phase (int_of_string len) (int_of_n !prev)
                            (int_of_n (token_line_length rs !prev d (fst pre.(i)) sp)));
           Hashtbl.replace last i logged;
           prev := logged
         | _ -> ());
        pending := None
      | _ -> ()) evs;
    if !res <> Ok_ then !res
    else begin
      let has_dir = List.exists (fun (_, _, ty) -> String.length ty > 20 && String.sub ty 0 20 = "ConditionalDirective") c.raw in
      let any_ignored = Array.exists (fun (_, f) -> f.f_ignored) fin in
      let fl = Array.to_list fin in
      if has_dir || any_ignored || !reflow || not (rs_measurable rs) || not (breaks_after_sl false fl) then (if !checked > 0 then Ok_ else Skip)
      else begin
        let cols = Array.of_list (rendered_cols rs false N0 fl) in
        let bad = ref None in
        Hashtbl.iter (fun i logged ->
          if !bad = None && i < Array.length cols && tok_measurable fin.(i) && cols.(i) <> logged then
            bad := Some (i, int_of_n logged, int_of_n cols.(i))) last;
        match !bad with
        | Some (i, l, r) -> Diff (Printf.sprintf "token %d (%s): measured line length %d but the rendered line is %d bytes long after it" i (name_of_tt (fst fin.(i)).t_ty) l r)
        | None -> Ok_
      end
    end
  | _ -> Skip

let () = register [ ("measure", u_measure) ]
