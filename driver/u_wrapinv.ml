(* units: generics (DistinguishGenericTypeParamsConsolidator on token types),
   invariants (C02/C08 oracle: the final layout respects get_formatting_invariant on every line) *)
open Model
open Util
open Trace
open Common

let u_generics c =
  if c.parsed = [] then Skip else begin
    let m = List.map name_of_tt (generics_consolidate (List.map tt_of_name c.parsed)) in
    if m = c.generics then Ok_
    else begin
      let rec first i a b = match a, b with
        | x :: a', y :: b' -> if x = y then first (i + 1) a' b' else Printf.sprintf "token %d: model %s impl %s" i x y
        | _ -> "length" in
      Diff (first 0 m c.generics)
    end
  end

let u_invariants c =
  match state c "final", (try Some (List.assoc "pre" c.lines) with Not_found -> None) with
  | Some st, Some ls ->
    let types = Array.to_list (Array.map (fun k -> tt_of_name k.ty) st) in
    let brks = Array.to_list (Array.map (fun k -> k.nl > 0) st) in
    (* lines the wrapper handled: not voided, no ignored token *)
    let lines = List.filter_map (fun l ->
        if l.lty = "Voided" || l.lty = "Eof" || l.toks = [] || List.exists (fun i -> i < Array.length st && st.(i).ign) l.toks then None
        else Some (List.map nat_of_int l.toks)) ls in
    (match lines_violations types brks lines with
     | [] -> Ok_
     | i :: _ -> let i = int_of_nat i in
       Viol ("layout_violates_invariant", Printf.sprintf "token %d (%s, nl=%d) after %s: the layout breaks a must-break / must-not-break invariant" i st.(i).ty st.(i).nl (if i > 0 then st.(i-1).ty else "-")))
  | _ -> Skip

let () = register [ ("generics", u_generics); ("invariants", u_invariants) ]
