(* unit grammar: the executable model of the whole grammar of parser.rs (Model/ParserGrammar.v)
   against the real parser:
   (1) per conditional-directive pass: the model's event string = the hook's event log (KPASS) and
       the model's pass lines (token lists) = the real ones (KPL);
   (2) the consolidated token types (PARSED) and the final logical lines (LINES parsed: type,
       level, parent, tokens), in order;
   (3) the passes computed by the DirectiveTree model = the real ones (so that parse_file_model is
       a closed function of the lexer output). *)
open Model
open Util
open Trace
open Common

let max_tokens = 4000

(* shared unary naturals: nat_tbl.(i) = S nat_tbl.(i-1) *)
let nat_tbl = let t = Array.make (max_tokens + 2) O in
  for i = 1 to max_tokens + 1 do t.(i) <- S t.(i - 1) done; t
let nat i = if i >= 0 && i <= max_tokens + 1 then nat_tbl.(i) else nat_of_int i

let char_of_kev = function KT -> 'T' | KS -> 'S' | KL -> 'L' | KC -> 'C' | Kc -> 'c' | KR -> 'R' | Kr -> 'r'
let string_of_evs evs = let b = Buffer.create 64 in List.iter (fun e -> Buffer.add_char b (char_of_kev e)) evs; Buffer.contents b
let show_toks l = String.concat "," (List.map string_of_int l)
let show_tl ls = String.concat "|" (List.map show_toks ls)
let string_of_err = function
  | E_fuel -> "E_fuel"
  | E_panic s -> "E_panic " ^ (match s with
      | PS_line_parent_unwrap -> "line_parent_unwrap" | PS_anon_routine_unwrap -> "anon_routine_unwrap"
      | PS_dir_before_sub -> "dir_before_sub" | PS_dir_after_sub -> "dir_after_sub" | PS_dir_after_index0 -> "dir_after_index0"
      | PS_portability_sub -> "portability_sub" | PS_line_ref -> "line_ref")

let show_mline (l : lline) =
  Printf.sprintf "%s/%d/%s[%s]" (name_of_llt l.ll_type) (int_of_n l.ll_level)
    (match l.ll_parent with None -> "-" | Some (a, b) -> Printf.sprintf "%d:%d" (int_of_nat a) (int_of_nat b))
    (show_toks (List.map int_of_nat l.ll_toks))
let show_iline (l : line) =
  Printf.sprintf "%s/%d/%s[%s]" l.lty l.level (if l.pline < 0 then "-" else Printf.sprintf "%d:%d" l.pline l.ptok) (show_toks l.toks)

let first_diff a b =
  let n = min (String.length a) (String.length b) in
  let rec go i = if i < n && a.[i] = b.[i] then go (i + 1) else i in go 0

let u_grammar c =
  match c.passes with
  | None -> Skip
  | Some passes ->
    let nraw = List.length c.raw in
    if nraw > max_tokens then Skip else begin
      let toks = List.map (fun (_, _, ty) -> rtt_of_name ty) c.raw in
      (* leading whitespace of each token contains CR or LF *)
      let wsnl =
        let off = ref 0 in
        List.map (fun (w, l, _) ->
          let ws = (try String.sub c.input !off w with _ -> "") in
          off := !off + w + l;
          String.contains ws '\n' || String.contains ws '\r') c.raw in
      let npasses = List.map (List.map nat) passes in
      let r = parse_file_with toks wsnl npasses in
      let kp = List.rev c.kpasses in
      let names = String.concat " " (List.mapi (fun i (_, _, ty) -> Printf.sprintf "%d:%s" i ty) c.raw) in
      let res = ref Ok_ in
      let diff s = if !res = Ok_ then res := Diff (s ^ " ;; tokens " ^ names) in
      (* (3) passes *)
      let mp = List.map (List.map int_of_nat) (all_passes toks) in
      if mp <> passes then diff "passes of the DirectiveTree model differ";
      (* (1) per pass *)
      let rec go i ms is =
        match ms, is with
        | [], [] -> ()
        | m :: mr, (ev, lines_rev) :: ir ->
          let mev = string_of_evs m.pr_events in
          let ml = List.map (fun l -> List.map int_of_nat l.ll_toks) m.pr_lines in
          let il = List.rev lines_rev in
          if mev <> ev then begin
            let k = first_diff mev ev in
            diff (Printf.sprintf "pass %d events differ at %d: model %s impl %s (model lines %s; impl lines %s)" i k mev ev (show_tl ml) (show_tl il))
          end else if ml <> il then diff (Printf.sprintf "pass %d lines differ: model %s impl %s" i (show_tl ml) (show_tl il));
          go (i + 1) mr ir
        | _, _ -> diff (Printf.sprintf "model ran %d passes, impl %d" (List.length r.r_passes) (List.length kp))
      in
      go 0 r.r_passes kp;
      (match r.r_err with
       | Some e -> diff ("model error " ^ string_of_err e)
       | None -> ());
      (* (2) final token types and lines *)
      if !res = Ok_ then begin
        let mt = parsed_token_types r in
        let it = List.map tt_of_name c.parsed in
        if mt <> it then begin
          let rec fd i a b = match a, b with
            | x :: a', y :: b' -> if x = y then fd (i + 1) a' b' else Printf.sprintf "token %d: model %s impl %s" i (name_of_tt x) (name_of_tt y)
            | _, _ -> Printf.sprintf "lengths %d/%d" (List.length mt) (List.length it) in
          diff ("final token types differ: " ^ fd 0 mt it)
        end;
        match (try Some (List.assoc "parsed" c.lines) with Not_found -> None) with
        | None -> diff "no parsed lines in the trace"
        | Some il ->
          let ml = r.r_lines in
          let same (m : lline) (l : line) =
            name_of_llt m.ll_type = l.lty && int_of_n m.ll_level = l.level
            && (match m.ll_parent with None -> l.pline < 0 | Some (a, b) -> int_of_nat a = l.pline && int_of_nat b = l.ptok)
            && List.map int_of_nat m.ll_toks = l.toks in
          let rec cmp i a b = match a, b with
            | [], [] -> ()
            | m :: a', l :: b' -> if same m l then cmp (i + 1) a' b' else diff (Printf.sprintf "final line %d differs: model %s impl %s" i (show_mline m) (show_iline l))
            | _, _ -> diff (Printf.sprintf "final lines: model %d impl %d" (List.length ml) (List.length il)) in
          cmp 0 ml il
      end;
      !res
    end

let () = register [ ("grammar", u_grammar) ]
