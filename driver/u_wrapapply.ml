(* unit wrapapply: the effect of the OptimisingLineFormatter given the search's decisions (hook):
   olf_effect(decisions) applied to the state before the wrapper = the state after it *)
open Model
open Util
open Trace
open Common

let u_wrapapply c =
  match state c "eofnl", state c "final" with
  | Some a, Some b ->
    let evs = List.rev c.wevents in
    let plan1 = ref [] and plan2 = ref [] and phase = ref 0 and reflowed = ref false in
    List.iter (fun e -> match e with
      | ["WPHASE"; "strings"] -> phase := 1
      | ["WPHASE"; "reflow"] -> phase := 2
      | "WD" :: idx :: "C" :: _ ->
        let d = (nat_of_int (int_of_string idx), DContinue) in
        if !phase = 0 then plan1 := d :: !plan1 else begin plan2 := d :: !plan2; reflowed := true end
      | ["WD"; idx; "B"; first; ind; cont] ->
        let d = (nat_of_int (int_of_string idx), DBreak (first = "1", n_of_int (int_of_string ind), n_of_int (int_of_string cont))) in
        if !phase = 0 then plan1 := d :: !plan1 else begin plan2 := d :: !plan2; reflowed := true end
      | _ -> ()) evs;
    let fms = (match c.cfg with [_; _; f; _; _; _; _] -> f = 1 | _ -> true) in
    (match List.assoc_opt "pre" c.lines with
     | None -> Skip
     | Some ls ->
       let visits = List.concat_map (fun (ln : Trace.line) -> List.map nat_of_int ln.toks) ls in
       let m = olf_effect (rs_of c) fms visits (List.rev !plan1) (List.rev !plan2) (ftokens a) in
       let impl = ftokens b in
       (* decisions after the reflow marker without any string change = broken tie *)
       if m = impl then Ok_ else Diff (U_rewriters.first_diff m impl))
  | _ -> Skip

let () = register [ ("wrapapply", u_wrapapply) ]
