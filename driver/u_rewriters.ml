(* units: tokok, r01, lower, comment, eofnl *)
open Model
open Util
open Trace
open Common

(* char::is_alphanumeric instance: ranges dumped from Rust by `vh unit alnum` (file in $VERIF_ALNUM) *)
let alnum_ranges : (int * int) array Lazy.t = lazy (
  match Sys.getenv_opt "VERIF_ALNUM" with
  | None -> [||]
  | Some f ->
    let ic = open_in f in
    let acc = ref [] in
    (try while true do
       let l = input_line ic in
       Scanf.sscanf l "%d %d" (fun a b -> acc := (a, b) :: !acc)
     done with End_of_file -> ());
    close_in ic; Array.of_list (List.rev !acc))

let codepoint_of_bytes (l : n list) : int =
  match List.map int_of_n l with
  | [a] -> a
  | [a; b] -> ((a land 0x1f) lsl 6) lor (b land 0x3f)
  | [a; b; c] -> ((a land 0x0f) lsl 12) lor ((b land 0x3f) lsl 6) lor (c land 0x3f)
  | [a; b; c; d] -> ((a land 0x07) lsl 18) lor ((b land 0x3f) lsl 12) lor ((c land 0x3f) lsl 6) lor (d land 0x3f)
  | _ -> -1

let alnum (l : n list) : bool =
  let cp = codepoint_of_bytes l in
  let r = Lazy.force alnum_ranges in
  let lo = ref 0 and hi = ref (Array.length r - 1) and found = ref false in
  while not !found && !lo <= !hi do
    let m = (!lo + !hi) / 2 in
    let (a, b) = r.(m) in
    if cp < a then hi := m - 1 else if cp > b then lo := m + 1 else found := true
  done; !found

let show_ft (l : ftoken list) =
  String.concat " " (List.map (fun (t, f) -> Printf.sprintf "[%s|%s|%d,%d,%d,%d]" (hex_of_bytes t.t_ws) (hex_of_bytes t.t_content)
     (int_of_n f.f_nl) (int_of_n f.f_ind) (int_of_n f.f_cont) (int_of_n f.f_sp)) l)

let first_diff (a : ftoken list) (b : ftoken list) =
  let rec go i a b = match a, b with
    | [], [] -> "none"
    | x :: a', y :: b' -> if x = y then go (i + 1) a' b' else Printf.sprintf "token %d: model %s impl %s" i (show_ft [x]) (show_ft [y])
    | _ -> Printf.sprintf "length differs at %d" i in
  go 0 a b

let step_unit from_lab to_lab (f : case -> ftoken list -> ftoken list) c =
  match state c from_lab, state c to_lab with
  | Some a, Some b ->
    let m = f c (ftokens a) in
    let impl = ftokens b in
    if m = impl then Ok_ else Diff (first_diff m impl)
  | _ -> Skip

let u_lower = step_unit "spacing" "lower" (fun _ l -> lowercase_keywords l)
let u_comment = step_unit "lower" "comment" (fun _ l -> comment_formatter alnum l)
let has_eof_line c =
  match (try Some (List.assoc "pre" c.lines) with Not_found -> None) with
  | Some ls -> List.exists (fun l -> l.lty = "Eof") ls
  | None -> false
let u_eofnl = step_unit "comment" "eofnl" (fun c l -> if has_eof_line c then eof_newline_once l else l)

(* every raw token: blank leading whitespace, content not starting inside a U+3000 *)
let u_tokok c =
  match state c "pre" with
  | Some st ->
    let bad = ref None in
    Array.iteri (fun i k -> if !bad = None && not (tok_ok_b (bytes_of_string k.ws) (bytes_of_string k.content)) then bad := Some i) st;
    (match !bad with None -> Ok_ | Some i -> Viol ("token_not_ok", Printf.sprintf "token %d violates tok_ok (blank leading whitespace, content not starting inside U+3000)" i))
  | None -> Skip

(* the content relation R01 between the lexer's tokens and the final tokens *)
let u_r01 c =
  match state c "pre", state c "final" with
  | Some a, Some b when Array.length a = Array.length b ->
    let bad = ref None in
    Array.iteri (fun i k ->
      let k' = b.(i) in
      if !bad = None && not (r01_b (tt_of_name k'.ty) (bytes_of_string k.content) (bytes_of_string k'.content)) then bad := Some i) a;
    (* an acceptance predicate on the implementation's own tokens: its failure is a violation of C01 with this input, not a broken tie *)
    (match !bad with None -> Ok_ | Some i -> Viol ("content_not_related", Printf.sprintf "token %d (%s): %s -> %s not related by R01 (exact; lower-cased keyword; directive with case changes within its name only; line comment / multi-line literal equal up to blanks)" i b.(i).ty (hex a.(i).content) (hex b.(i).content)))
  | Some _, Some _ -> Viol ("content_not_related", "token count changed between pre and final")
  | _ -> Skip

let () = register [ ("tokok", u_tokok); ("r01", u_r01); ("lower", u_lower); ("comment", u_comment); ("eofnl", u_eofnl) ]
