(* units: spacing (TokenSpacing), fmtdata (FormattingData::from), relex (C02 oracle) *)
open Model
open Util
open Trace
open Common

let u_spacing = U_rewriters.step_unit "pre" "spacing" (fun _ l -> token_spacing l)

let u_fmtdata c =
  match state c "pre" with
  | Some st ->
    let res = ref Ok_ in
    Array.iteri (fun i k ->
      if !res = Ok_ then begin
        let f = fmt_of_ws (bytes_of_string k.ws) k.ign in
        if int_of_n f.f_nl <> k.nl || int_of_n f.f_sp <> k.sp || k.ind <> 0 || k.cont <> 0 || f.f_ignored <> k.ign then
          res := Diff (Printf.sprintf "token %d ws %s: model nl=%d sp=%d impl nl=%d sp=%d" i (hex k.ws) (int_of_n f.f_nl) (int_of_n f.f_sp) k.nl k.sp)
      end) st;
    !res
  | None -> Skip

(* C02: every final token re-scans as itself — same raw kind as in the input's scan, same text —
   by the verified model lexer and by the real lexer *)
let u_relex c =
  match state c "final", c.out with
  | Some st, Some out ->
    let expect = List.map2 (fun (_, _, rty) k -> (rty, k.content)) c.raw (Array.to_list st) in
    let cut (s : string) (toks : (int * int * string) list) =
      let pos = ref 0 in
      List.map (fun (w, n, ty) -> let ct = String.sub s (!pos + w) n in pos := !pos + w + n; (ty, ct)) toks in
    (* a lone CR ends a `//` comment but is no line break for the comment kinds (finding F28): what follows
       is typed Inline in the input and re-scans as Individual after the reconstructor's safety-net newline.
       Only in inputs with a lone CR, Inline/Individual of the same comment form count as the same kind. *)
    let lone_cr =
      let n = String.length c.input in
      let rec go i = i < n && ((c.input.[i] = '\r' && (i + 1 = n || c.input.[i + 1] <> '\n')) || go (i + 1)) in go 0 in
    let kind_eq t t' =
      t = t' || (lone_cr && ((t = "Comment(InlineLine)" && t' = "Comment(IndividualLine)") || (t = "Comment(IndividualLine)" && t' = "Comment(InlineLine)")
                             || (t = "Comment(InlineBlock)" && t' = "Comment(IndividualBlock)") || (t = "Comment(IndividualBlock)" && t' = "Comment(InlineBlock)"))) in
    let check who got =
      if got = expect then None
      else begin
        let rec first i a b = match a, b with
          | (t, x) :: a', (t', y) :: b' -> if kind_eq t t' && x = y then first (i + 1) a' b'
            else Printf.sprintf "%s: token %d re-scans as %s %s, expected %s %s" who i t (hex x) t' (hex y)
          | [], [] -> "same" | _ -> Printf.sprintf "%s: token count differs at %d (%d vs %d)" who i (List.length got) (List.length expect) in
        (match first 0 got expect with "same" -> None | d -> Some d)
      end in
    let model = (match lex (bytes_of_string out) with
        | Some toks -> cut out (List.map (fun ((w, n), ty) -> (int_of_nat w, int_of_nat n, name_of_rtt ty)) toks)
        | None -> []) in
    (* … and against the INPUT's tokens: same kinds, same text except the documented normalisations *)
    let pos = ref 0 in
    let input_toks = List.map (fun (w, n, ty) -> let ct = String.sub c.input (!pos + w) n in pos := !pos + w + n; (ty, ct)) c.raw in
    let starts_with p s = String.length s >= String.length p && String.sub s 0 (String.length p) = p in
    (* a separator line (`//` or `///` directly followed by >= 10 repetitions of ONE clearly non-alphanumeric character, ASCII
       punctuation or a box-drawing / block / dash / bullet character) gets no space inserted: only its trailing blanks go *)
    let utf8_chars (x : string) =
      let n = String.length x in
      let rec go i acc = if i >= n then List.rev acc else
          let c = Char.code x.[i] in
          let len = if c < 0x80 then 1 else if c < 0xE0 then 2 else if c < 0xF0 then 3 else 4 in
          let len = min len (n - i) in
          go (i + len) (String.sub x i len :: acc) in
      go 0 [] in
    let rec rtrim_blank (x : string) =
      let n = String.length x in
      if n > 0 && Char.code x.[n - 1] <= 32 then rtrim_blank (String.sub x 0 (n - 1))
      else if n >= 3 && String.sub x (n - 3) 3 = "\xe3\x80\x80" then rtrim_blank (String.sub x 0 (n - 3))
      else x in
    let a_trimmed a = rtrim_blank a in
    let is_separator_comment (a : string) =
      let a = rtrim_blank a in
      let body = if starts_with "///" a then String.sub a 3 (String.length a - 3) else if starts_with "//" a then String.sub a 2 (String.length a - 2) else a in
      match utf8_chars body with
      | [] -> false
      | ch :: _ as chars ->
        List.length chars >= 10 && List.for_all (fun x -> x = ch) chars
        && (if String.length ch = 1 then (let c = ch.[0] in c <> '/' && not ((c >= '0' && c <= '9') || (c >= 'a' && c <= 'z') || (c >= 'A' && c <= 'Z')) && Char.code c > 32 && Char.code c < 127)
            else if String.length ch = 3 && ch.[0] = '\xe2' then
              (let b1 = Char.code ch.[1] and b2 = Char.code ch.[2] in
               (b1 >= 0x94 && b1 <= 0x96) (* U+2500..U+25BF box drawing, blocks, geometric *) || (b1 = 0x80 && b2 >= 0x90 && b2 <= 0xA7) (* U+2010..U+2027 dashes, bullets *))
            else ch = "\xc2\xb7") in
    let norm_eq ty (a : string) (b : string) =
      if a = b then true
      else if starts_with "Keyword(" ty || starts_with "IdentifierOrKeyword(" ty then String.lowercase_ascii a = b
      else if ty = "CompilerDirective" || starts_with "ConditionalDirective(" ty then String.lowercase_ascii a = String.lowercase_ascii b
      else if ty = "Comment(InlineLine)" || ty = "Comment(IndividualLine)" then
        strip (bytes_of_string a) = strip (bytes_of_string b) && starts_with "//" b
        && (not (is_separator_comment a) || a_trimmed a = b)
      else if ty = "TextLiteral(MultiLine)" then
        let x = bytes_of_string a and y = bytes_of_string b in
        ml_value x = ml_value y && List.hd (lines_custom x) = List.hd (lines_custom y)
        && strip (bytes_of_string a) = strip (bytes_of_string b)
      else false in
    let against_input () =
      if List.length model <> List.length input_toks then Some "token count differs from the input's scan"
      else begin
        let bad = ref None in
        List.iteri (fun i ((t, x), (t', y)) ->
          if !bad = None && not (kind_eq t t' && norm_eq t x y) then
            bad := Some (Printf.sprintf "token %d: input %s %s re-scans from the output as %s %s (not a documented normalisation)" i t (hex x) t' (hex y)))
          (List.combine input_toks model);
        !bad
      end in
    (match check "model lexer" model with
     | Some d -> Viol ("rescan_differs", d)
     | None -> (match check "real lexer" (cut out c.relex) with
         | Some d -> Viol ("rescan_differs", d)
         | None -> (match against_input () with Some d -> Viol ("rescan_differs", d) | None -> Ok_)))
  | _ -> Skip

let () = register [ ("spacing", u_spacing); ("fmtdata", u_fmtdata); ("relex", u_relex) ]

(* command spacinggrid: TokenSpacing on every vector of token TYPES the harness enumerated
   (`SG <k> <a|-1> <b> <digits>`, see harness/src/units.rs), recomputed by the model *)
let spacinggrid tier file =
  let all = Array.map tt_of_name Gen_names.names_TokenType in
  let n = Array.length all in
  let combos = if tier = "thorough" then [ (0,0); (0,1); (0,2); (1,0); (1,1); (1,2); (2,0); (2,1); (2,2) ] else [ (0,0); (1,1); (2,0); (0,2) ] in
  let mk ty ws = ({ t_ws = bytes_of_string (String.make ws ' '); t_content = bytes_of_string "x"; t_ty = ty },
                  { f_ignored = false; f_nl = n_of_int 0; f_ind = n_of_int 0; f_cont = n_of_int 0; f_sp = n_of_int ws }) in
  let comment_ty = tt_of_name "Comment(InlineBlock)" and eof = tt_of_name "Eof" in
  let ic = open_in file in
  let ok = ref 0 and bad = ref 0 in
  (try while true do
     let l = input_line ic in
     match String.split_on_char ' ' l with
     | [ "SG"; k; a; b; digits ] ->
       let k = int_of_string k and a = int_of_string a and b = int_of_string b in
       let pos = ref 0 in
       for c = 0 to n - 1 do
         List.iter (fun (o1, o2) ->
           let pre = (if a >= 0 then [ mk all.(a) 0 ] else []) @ (if k = 1 then [ mk comment_ty 1 ] else []) in
           let ib = List.length pre in
           let v = pre @ [ mk all.(b) o1; mk all.(c) o2; ({ t_ws = []; t_content = []; t_ty = eof }, snd (mk eof 0)) ] in
           let r = Array.of_list (token_spacing v) in
           let sb = min 9 (int_of_n (snd r.(ib)).f_sp) and sc = min 9 (int_of_n (snd r.(ib + 1)).f_sp) in
           let eb = Char.code digits.[!pos] - 48 and ec = Char.code digits.[!pos + 1] - 48 in
           pos := !pos + 2;
           if sb = eb && sc = ec then incr ok
           else begin
             incr bad;
             if !bad <= 20 then
               Printf.printf "SPACING DIFF k=%d prev=%s left=%s(%d sp) right=%s(%d sp): model %d,%d impl %d,%d\n" k
                 (if a >= 0 then Gen_names.names_TokenType.(a) else "-") Gen_names.names_TokenType.(b) o1 Gen_names.names_TokenType.(c) o2 sb sc eb ec
           end) combos
       done
     | _ -> ()
   done with End_of_file -> ());
  close_in ic;
  Printf.printf "SPACING OK %d BAD %d\n" !ok !bad

let () = commands := ("spacinggrid-quick", spacinggrid "quick") :: ("spacinggrid-thorough", spacinggrid "thorough") :: !commands
