(* units: spacing (TokenSpacing), fmtdata (FormattingData::from), relex (C02 oracle) *)
open Model
open Util
open Trace
open Common

let u_spacing = U_rewriters.step_unit "pre" "spacing" (fun _ l -> token_spacing l)

let u_fmtdata c =
  match state c "pre" with
  | Some st ->
    let res = ref Ok_ in
    Array.iteri (fun i k ->
      if !res = Ok_ then begin
        let f = fmt_of_ws (bytes_of_string k.ws) k.ign in
        if int_of_n f.f_nl <> k.nl || int_of_n f.f_sp <> k.sp || k.ind <> 0 || k.cont <> 0 || f.f_ignored <> k.ign then
          res := Diff (Printf.sprintf "token %d ws %s: model nl=%d sp=%d impl nl=%d sp=%d" i (hex k.ws) (int_of_n f.f_nl) (int_of_n f.f_sp) k.nl k.sp)
      end) st;
    !res
  | None -> Skip

(* C02: every final token re-scans as itself — same raw kind as in the input's scan, same text —
   by the verified model lexer and by the real lexer *)
let u_relex c =
  match state c "final", c.out with
  | Some st, Some out ->
    let expect = List.map2 (fun (_, _, rty) k -> (rty, k.content)) c.raw (Array.to_list st) in
    let cut (s : string) (toks : (int * int * string) list) =
      let pos = ref 0 in
      List.map (fun (w, n, ty) -> let ct = String.sub s (!pos + w) n in pos := !pos + w + n; (ty, ct)) toks in
    let check who got =
      if got = expect then None
      else begin
        let rec first i a b = match a, b with
          | (t, x) :: a', (t', y) :: b' -> if t = t' && x = y then first (i + 1) a' b'
            else Printf.sprintf "%s: token %d re-scans as %s %s, expected %s %s" who i t (hex x) t' (hex y)
          | [], [] -> "same" | _ -> Printf.sprintf "%s: token count differs at %d (%d vs %d)" who i (List.length got) (List.length expect) in
        Some (first 0 got expect)
      end in
    let model = (match lex (bytes_of_string out) with
        | Some toks -> cut out (List.map (fun ((w, n), ty) -> (int_of_nat w, int_of_nat n, name_of_rtt ty)) toks)
        | None -> []) in
    (match check "model lexer" model with
     | Some d -> Viol ("rescan_differs", d)
     | None -> (match check "real lexer" (cut out c.relex) with Some d -> Viol ("rescan_differs", d) | None -> Ok_))
  | _ -> Skip

let () = register [ ("spacing", u_spacing); ("fmtdata", u_fmtdata); ("relex", u_relex) ]
