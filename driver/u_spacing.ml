(* units: spacing (TokenSpacing), fmtdata (FormattingData::from), relex (C02 oracle) *)
open Model
open Util
open Trace
open Common

let u_spacing = U_rewriters.step_unit "pre" "spacing" (fun _ l -> token_spacing l)

let u_fmtdata c =
  match state c "pre" with
  | Some st ->
    let res = ref Ok_ in
    Array.iteri (fun i k ->
      if !res = Ok_ then begin
        let f = fmt_of_ws (bytes_of_string k.ws) k.ign in
        if int_of_n f.f_nl <> k.nl || int_of_n f.f_sp <> k.sp || k.ind <> 0 || k.cont <> 0 || f.f_ignored <> k.ign then
          res := Diff (Printf.sprintf "token %d ws %s: model nl=%d sp=%d impl nl=%d sp=%d" i (hex k.ws) (int_of_n f.f_nl) (int_of_n f.f_sp) k.nl k.sp)
      end) st;
    !res
  | None -> Skip

(* C02: every final token re-scans as itself — same raw kind as in the input's scan, same text —
   by the verified model lexer and by the real lexer *)
let u_relex c =
  match state c "final", c.out with
  | Some st, Some out ->
    let expect = List.map2 (fun (_, _, rty) k -> (rty, k.content)) c.raw (Array.to_list st) in
    let cut (s : string) (toks : (int * int * string) list) =
      let pos = ref 0 in
      List.map (fun (w, n, ty) -> let ct = String.sub s (!pos + w) n in pos := !pos + w + n; (ty, ct)) toks in
    (* a lone CR ends a `//` comment but is no line break for the comment kinds (finding F28): what follows
       is typed Inline in the input and re-scans as Individual after the reconstructor's safety-net newline.
       Only in inputs with a lone CR, Inline/Individual of the same comment form count as the same kind. *)
    let lone_cr =
      let n = String.length c.input in
      let rec go i = i < n && ((c.input.[i] = '\r' && (i + 1 = n || c.input.[i + 1] <> '\n')) || go (i + 1)) in go 0 in
    let kind_eq t t' =
      t = t' || (lone_cr && ((t = "Comment(InlineLine)" && t' = "Comment(IndividualLine)") || (t = "Comment(IndividualLine)" && t' = "Comment(InlineLine)")
                             || (t = "Comment(InlineBlock)" && t' = "Comment(IndividualBlock)") || (t = "Comment(IndividualBlock)" && t' = "Comment(InlineBlock)"))) in
    let check who got =
      if got = expect then None
      else begin
        let rec first i a b = match a, b with
          | (t, x) :: a', (t', y) :: b' -> if kind_eq t t' && x = y then first (i + 1) a' b'
            else Printf.sprintf "%s: token %d re-scans as %s %s, expected %s %s" who i t (hex x) t' (hex y)
          | [], [] -> "same" | _ -> Printf.sprintf "%s: token count differs at %d (%d vs %d)" who i (List.length got) (List.length expect) in
        (match first 0 got expect with "same" -> None | d -> Some d)
      end in
    let model = (match lex (bytes_of_string out) with
        | Some toks -> cut out (List.map (fun ((w, n), ty) -> (int_of_nat w, int_of_nat n, name_of_rtt ty)) toks)
        | None -> []) in
    (* … and against the INPUT's tokens: same kinds, same text except the documented normalisations *)
    let pos = ref 0 in
    let input_toks = List.map (fun (w, n, ty) -> let ct = String.sub c.input (!pos + w) n in pos := !pos + w + n; (ty, ct)) c.raw in
    let starts_with p s = String.length s >= String.length p && String.sub s 0 (String.length p) = p in
    let norm_eq ty (a : string) (b : string) =
      if a = b then true
      else if starts_with "Keyword(" ty || starts_with "IdentifierOrKeyword(" ty then String.lowercase_ascii a = b
      else if ty = "CompilerDirective" || starts_with "ConditionalDirective(" ty then String.lowercase_ascii a = String.lowercase_ascii b
      else if ty = "Comment(InlineLine)" || ty = "Comment(IndividualLine)" then
        strip (bytes_of_string a) = strip (bytes_of_string b) && starts_with "//" b
      else if ty = "TextLiteral(MultiLine)" then
        let x = bytes_of_string a and y = bytes_of_string b in
        ml_value x = ml_value y && List.hd (lines_custom x) = List.hd (lines_custom y)
        && strip (bytes_of_string a) = strip (bytes_of_string b)
      else false in
    let against_input () =
      if List.length model <> List.length input_toks then Some "token count differs from the input's scan"
      else begin
        let bad = ref None in
        List.iteri (fun i ((t, x), (t', y)) ->
          if !bad = None && not (kind_eq t t' && norm_eq t x y) then
            bad := Some (Printf.sprintf "token %d: input %s %s re-scans from the output as %s %s (not a documented normalisation)" i t (hex x) t' (hex y)))
          (List.combine input_toks model);
        !bad
      end in
    (match check "model lexer" model with
     | Some d -> Viol ("rescan_differs", d)
     | None -> (match check "real lexer" (cut out c.relex) with
         | Some d -> Viol ("rescan_differs", d)
         | None -> (match against_input () with Some d -> Viol ("rescan_differs", d) | None -> Ok_)))
  | _ -> Skip

let () = register [ ("spacing", u_spacing); ("fmtdata", u_fmtdata); ("relex", u_relex) ]
