(* driver: runs the extracted Coq model against the implementation's stage traces.
   usage: driver check <tracefile> [unit,unit,...]
   prints one line per (case, unit):  R <id> <unit> OK | R <id> <unit> DIFF <detail>
   and for cases the harness could not complete:  X <id> PANIC|INCOMPLETE|DRIFT|CURSORDEP ... *)
open Trace
open Common

let () =
  match Array.to_list Sys.argv with
  | _ :: "check" :: file :: rest ->
    let wanted = match rest with [] -> None | s :: _ -> Some (String.split_on_char ',' s) in
    let us = List.filter (fun (n, _) -> match wanted with None -> true | Some w -> List.mem n w) !units in
    let ic = open_in file in
    read_cases ic (fun c ->
      (match c.panic with Some p -> Printf.printf "X %s PANIC %s\n" c.id p | None -> ());
      if not c.complete then Printf.printf "X %s INCOMPLETE\n" c.id;
      if c.drift then Printf.printf "X %s DRIFT\n" c.id;
      if c.cursordep then Printf.printf "X %s CURSORDEP\n" c.id;
      if c.panic = None && c.complete && not c.badutf8 then
        List.iter (fun (n, u) ->
          match (try u c with e -> Diff ("exception " ^ Printexc.to_string e)) with
          | Ok_ -> Printf.printf "R %s %s OK\n" c.id n
          | Diff d -> Printf.printf "R %s %s DIFF %s\n" c.id n d
          | Viol (k, d) -> Printf.printf "V %s %s %s %s\n" c.id n k d
          | Skipped w -> Printf.printf "K %s %s SKIP %s\n" c.id n w
          | Skip -> ()) us;
      if c.panic <> None && not c.badutf8 then
        List.iter (fun (n, u) ->
          if (match wanted with None -> true | Some w -> List.mem n w) then
          match (try u c with e -> Diff ("exception " ^ Printexc.to_string e)) with
          | Ok_ -> Printf.printf "R %s %s OK\n" c.id n
          | Diff d -> Printf.printf "R %s %s DIFF %s\n" c.id n d
          | Skipped w -> Printf.printf "K %s %s SKIP %s\n" c.id n w
          | _ -> ()) !panic_units);
    close_in ic
  | _ :: cmd :: file :: _ when List.mem_assoc cmd !commands -> (List.assoc cmd !commands) file
  | _ -> prerr_endline "usage: driver check <trace> [units]"; exit 2
