(* parser for the stage traces written by the Rust harness (harness/src/main.rs) *)
type tokstate = { ign : bool; nl : int; ind : int; cont : int; sp : int; ty : string; ws : string; content : string }
type line = { lty : string; level : int; pline : int; ptok : int; toks : int list }
type case = {
  id : string;
  mutable cfg : int list;              (* wrap begin fms tabs tw ci crlf *)
  mutable rs : string * string * string;
  mutable input : string;
  mutable cursors : int list;
  mutable raw : (int * int * string) list;
  mutable parsed : string list;
  mutable generics : string list;
  mutable passes : int list list option;
  mutable relex : (int * int * string) list;
  mutable kpasses : (string * int list list) list;
  mutable wevents : string list list;  (* reversed: WD / WPHASE lines, split *)  (* per pass: event letters, lines (reverse order of passes) *)
  mutable lines : (string * line list) list;
  mutable states : (string * tokstate array) list;
  mutable out : string option;
  mutable outcursors : int list;
  mutable panic : string option;
  mutable drift : bool;
  mutable cursordep : bool;
  mutable badutf8 : bool;
  mutable complete : bool;
}
let new_case id = { id; cfg = []; rs = ("", "", ""); input = ""; cursors = []; raw = []; parsed = []; generics = []; passes = None; relex = []; kpasses = []; wevents = [];
  lines = []; states = []; out = None; outcursors = []; panic = None; drift = false; cursordep = false; badutf8 = false; complete = false }
let split s = String.split_on_char ' ' s |> List.filter (fun x -> x <> "")
let ints s = if s = "-" then [] else List.map int_of_string (String.split_on_char ',' s)

let read_cases (ic : in_channel) (f : case -> unit) : unit =
  let cur = ref None in
  let pending_n = ref 0 and pending_kind = ref "" and pending_label = ref "" in
  let acc_raw = ref [] and acc_t = ref [] and acc_l = ref [] and acc_k = ref [] and acc_p = ref [] in
  let flush_pending c =
    (match !pending_kind with
     | "RAW" -> c.raw <- List.rev !acc_raw
     | "PARSED" -> c.parsed <- List.rev !acc_t
     | "GENERICS" -> c.generics <- List.rev !acc_t
     | "PASSES" -> c.passes <- Some (List.rev !acc_p)
     | "RELEX" -> c.relex <- List.rev !acc_raw
     | "LINES" -> c.lines <- c.lines @ [(!pending_label, List.rev !acc_l)]
     | "STATE" -> c.states <- c.states @ [(!pending_label, Array.of_list (List.rev !acc_k))]
     | _ -> ());
    pending_kind := ""; acc_raw := []; acc_t := []; acc_l := []; acc_k := []; acc_p := [] in
  (try
    while true do
      let l = input_line ic in
      match split l with
      | "BEGIN" :: id :: _ -> (match !cur with Some c -> flush_pending c; f c | None -> ()); cur := Some (new_case id)
      | w :: rest ->
        (match !cur with None -> () | Some c ->
          (match w, rest with
           | ("r" | "x"), [a; b; ty] -> acc_raw := (int_of_string a, int_of_string b, ty) :: !acc_raw
           | "t", [ty] -> acc_t := ty :: !acc_t
           | "p", l -> acc_p := List.map int_of_string l :: !acc_p
           | "l", lty :: lev :: pl :: pt :: _n :: toks ->
               acc_l := { lty; level = int_of_string lev; pline = int_of_string pl; ptok = int_of_string pt; toks = List.map int_of_string toks } :: !acc_l
           | "k", [ig; nl; ind; cont; sp; ty; ws; ct] ->
               acc_k := { ign = (ig = "1"); nl = int_of_string nl; ind = int_of_string ind; cont = int_of_string cont;
                          sp = int_of_string sp; ty; ws = Util.unhex ws; content = Util.unhex ct } :: !acc_k
           | _ ->
             flush_pending c;
             (match w, rest with
              | "KPASS", [ev] -> c.kpasses <- ((if ev = "-" then "" else ev), []) :: c.kpasses
              | "KPL", [t] -> (match c.kpasses with
                  | (ev, ls) :: r -> c.kpasses <- (ev, (if t = "-" then [] else List.map int_of_string (String.split_on_char ',' t)) :: ls) :: r
                  | [] -> ())
              | ("WD" | "WPHASE" | "WL" | "WS"), l -> c.wevents <- (w :: l) :: c.wevents
              | "CFG", l -> c.cfg <- List.map int_of_string l
              | "RS", [a; b; d] -> c.rs <- (Util.unhex a, Util.unhex b, Util.unhex d)
              | "INPUT", [h] -> c.input <- Util.unhex h
              | "CURSORS", [s] -> c.cursors <- ints s
              | "RAW", [_] -> pending_kind := "RAW"
              | "PASSES", [_] -> pending_kind := "PASSES"
              | "RELEX", [_] -> pending_kind := "RELEX"
              | "PARSED", [_] -> pending_kind := "PARSED"
              | "GENERICS", [_] -> pending_kind := "GENERICS"
              | "LINES", [lab; _] -> pending_kind := "LINES"; pending_label := lab
              | "STATE", [lab; _] -> pending_kind := "STATE"; pending_label := lab
              | "OUT", [h] -> c.out <- Some (Util.unhex h)
              | "OUTCURSORS", [s] -> c.outcursors <- ints s
              | "PANIC", l -> c.panic <- Some (String.concat " " l)
              | "DRIFT", _ -> c.drift <- true
              | "CURSORDEP", _ -> c.cursordep <- true
              | "BADUTF8", _ -> c.badutf8 <- true
              | "END", _ -> c.complete <- true
              | _ -> ())))
      | [] -> ()
    done
  with End_of_file -> ());
  (match !cur with Some c -> flush_pending c; f c | None -> ());
  ignore pending_n
