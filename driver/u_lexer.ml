(* units: lex (model lexer = real lexer, token boundaries and types); command identend *)
open Model
open Util
open Trace
open Common

let u_lex c =
  match lex (bytes_of_string c.input) with
  | None -> Diff "model lexer ran out of fuel"
  | Some toks ->
    let m = List.map (fun ((w, n), ty) -> (int_of_nat w, int_of_nat n, name_of_rtt ty)) toks in
    if m = c.raw then Ok_
    else begin
      let rec first i a b = match a, b with
        | x :: a', y :: b' -> if x = y then first (i + 1) a' b' else
            let (w, n, t) = x and (w', n', t') = y in Printf.sprintf "token %d: model (%d,%d,%s) impl (%d,%d,%s)" i w n t w' n' t'
        | [], [] -> "same" | _ -> Printf.sprintf "length differs at %d" i in
      Diff (first 0 m c.raw)
    end

let identend file =
  let ic = open_in file in
  let ok = ref 0 in
  (try while true do
     let l = input_line ic in
     match String.split_on_char ' ' l with
     | [off; h; g; a] ->
       let off = int_of_string off in
       let s = unhex h in
       let suffix = bytes_of_string (String.sub s off (String.length s - off)) in
       let mg = off + int_of_nat (ident_end_generic suffix) and ma = off + int_of_nat (ident_end_avx2 suffix) in
       let g = int_of_string g in
       let bad = mg <> g || ma <> g || (a <> "-" && int_of_string a <> g) in
       if bad then Printf.printf "IDENT DIFF offset=%d input=%s impl_generic=%d impl_avx2=%s model_generic=%d model_avx2=%d\n" off h g a mg ma
       else incr ok
     | _ -> ()
   done with End_of_file -> ());
  close_in ic;
  Printf.printf "IDENT OK %d\n" !ok

let () = register [ ("lex", u_lex) ]; commands := ("identend", identend) :: !commands
