(* units: cursor (model = implementation), cursororacle (C15 stated directly on the real output) *)
open Model
open Util
open Trace
open Common

let raw_toks c : rtok list =
  let pos = ref 0 in
  List.map (fun (wl, cl, ty) ->
    let ws = String.sub c.input !pos wl in
    let ct = String.sub c.input (!pos + wl) cl in
    pos := !pos + wl + cl;
    ((bytes_of_string ws, bytes_of_string ct), rtt_of_name ty)) c.raw

let u_cursor c =
  match c.cursors, state c "final" with
  | [], _ -> Skip
  | cs, Some st when List.length cs = List.length c.outcursors ->
    let raw = raw_toks c and fin = ftokens st and rs = rs_of c in
    let bad = ref None in
    List.iter2 (fun ci oi ->
      if !bad = None then begin
        let m = int_of_n (track_cursor_u32 rs raw fin (n_of_int ci)) in
        if m <> oi then bad := Some (Printf.sprintf "cursor %d: model %d impl %d" ci m oi)
      end) cs c.outcursors;
    (match !bad with None -> Ok_ | Some d -> Diff d)
  | _ -> Skip

let is_blank_at (s : string) i =
  let n = String.length s in
  if Char.code s.[i] <= 0x20 then 1
  else if i + 2 < n && s.[i] = '\xe3' && s.[i+1] = '\x80' && s.[i+2] = '\x80' then 3
  else 0

(* start offset of every token's content in the real output, by skipping blanks *)
let out_starts (out : string) (st : tokstate array) : int array option =
  let n = String.length out in
  let pos = ref 0 and ok = ref true in
  let starts = Array.make (Array.length st) 0 in
  Array.iteri (fun i k ->
    if !ok then begin
      let continue = ref true in
      while !continue && !pos < n do
        let b = is_blank_at out !pos in
        if b = 0 then continue := false else pos := !pos + b
      done;
      let l = String.length k.content in
      if !pos + l <= n && String.sub out !pos l = k.content then begin starts.(i) <- !pos; pos := !pos + l end
      else ok := false
    end) st;
  if !ok then Some starts else None

let u_cursororacle c =
  match c.cursors, state c "final", c.out with
  | [], _, _ -> Skip
  | cs, Some st, Some out when List.length cs = List.length c.outcursors ->
    let n_out = String.length out and n_in = String.length c.input in
    let raw = Array.of_list c.raw in
    let starts = out_starts out st in
    let crlf = (match c.cfg with [_; _; _; _; _; _; x] -> x = 1 | _ -> false) in
    let res = ref Ok_ in
    let fail k d = if !res = Ok_ then res := Viol (k, d) in
    List.iter2 (fun ci oi ->
      (* locate the cursor in the input *)
      let pos = ref 0 and where = ref `Past and tok = ref (-1) and off = ref 0 in
      (try Array.iteri (fun i (wl, cl, _) ->
         let ws_start = !pos and ct_start = !pos + wl and ct_end = !pos + wl + cl in
         if ci > ct_start && ci <= ct_end then begin where := `Content; tok := i; off := ci - ct_start; raise Exit end
         else if ci >= ws_start && ci <= ct_start && (wl > 0 || ci = ct_start) && not (i > 0 && ci = ws_start) then begin where := `Ws; tok := i; raise Exit end;
         pos := ct_end) raw with Exit -> ());
      let ign = !tok >= 0 && !tok < Array.length st && st.(!tok).ign in
      let cls =
        (match !where with
         | `Ws -> if ign then (if crlf then "ws_of_ignored_crlf" else "ws_of_ignored") else "ws"
         | `Content ->
           let (_, cl, _) = raw.(!tok) in
           let changed = !tok < Array.length st && st.(!tok).content <> String.sub c.input (let p = ref 0 in Array.iteri (fun i (wl, cl', _) -> if i < !tok then p := !p + wl + cl' else if i = !tok then p := !p + wl) raw; !p) cl in
           if changed then "changed_token" else if cl > 65535 then "span_gt_65535" else "unchanged_token"
         | `Past -> "past_end") in
      if oi > n_out then fail ("cursor_out_of_bounds:" ^ cls) (Printf.sprintf "cursor %d -> %d beyond output length %d" ci oi n_out)
      else if oi < n_out && (let b = Char.code out.[oi] in b >= 0x80 && b <= 0xbf) then
        fail ("cursor_not_on_char_boundary:" ^ cls) (Printf.sprintf "cursor %d -> %d is inside a character of the output" ci oi)
      else begin
        (match !where, starts with
         | `Content, Some s when cls = "unchanged_token" || cls = "span_gt_65535" ->
           let expect = s.(!tok) + !off in
           if oi <> expect then fail ("cursor_moved_in_unchanged_token:" ^ cls)
               (Printf.sprintf "cursor %d (token %d offset %d, text unchanged) -> %d, expected %d" ci !tok !off oi expect)
         | `Past, _ when ci > n_in ->
           if oi <> n_out then fail ("cursor_past_end_not_at_end:" ^ cls) (Printf.sprintf "cursor %d beyond input -> %d, output length %d" ci oi n_out)
         | _ -> ())
      end) cs c.outcursors;
    !res
  | _ -> Skip

let () = register [ ("cursor", u_cursor); ("cursororacle", u_cursororacle) ]
