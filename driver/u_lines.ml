(* units: linescover, parents, eofline — the C14 acceptance predicates on the real parse result *)
open Model
open Util
open Trace
open Common

let mk_lines (ls : line list) : lline list =
  List.map (fun l -> { ll_type = llt_of_name l.lty; ll_level = n_of_int l.level;
                       ll_parent = (if l.pline < 0 then None else Some (nat_of_int l.pline, nat_of_int l.ptok));
                       ll_toks = List.map nat_of_int l.toks }) ls

let parsed c =
  match (try Some (List.assoc "parsed" c.lines) with Not_found -> None) with
  | Some ls when c.parsed <> [] -> Some (List.map tt_of_name c.parsed, mk_lines ls)
  | _ -> None

let show_lines (ls : line list) =
  String.concat " | " (List.map (fun l -> Printf.sprintf "%s[%s]" l.lty (String.concat "," (List.map string_of_int l.toks))) ls)

let show_lines_m (ls : lline list) =
  String.concat " | " (List.map (fun l -> Printf.sprintf "%s[%s]" (name_of_llt l.ll_type) (String.concat "," (List.map (fun t -> string_of_int (int_of_nat t)) l.ll_toks))) ls)

let u_linescover c =
  match parsed c with
  | Some (tys, ls) -> if lines_cover tys ls then Ok_ else Viol ("lines_not_covering", "parse result: " ^ show_lines (List.assoc "parsed" c.lines))
  | None -> Skip
let u_parents c =
  match parsed c with
  | Some (_, ls) -> if parents_ok ls then Ok_ else Viol ("parent_not_preceding", "parse result: " ^ show_lines (List.assoc "parsed" c.lines))
  | None -> Skip
let u_eofline c =
  match parsed c with
  | Some (tys, ls) -> if eof_line_ok tys ls then Ok_ else Viol ("eof_line", "parse result: " ^ show_lines (List.assoc "parsed" c.lines))
  | None -> Skip

let () = register [ ("linescover", u_linescover); ("parents", u_parents); ("eofline", u_eofline) ]

(* unit consolidators: ConditionalDirectiveConsolidator and DeindentPackageDirectives, bit-exact
   (std binary search transcription), with the hypotheses of the cover-preservation theorem monitored *)
let lines_at c name = try Some (mk_lines (List.assoc name c.lines)) with Not_found -> None
let u_consolidators c =
  match parsed c, lines_at c "conddir", lines_at c "deindent" with
  | Some (tys, ls), Some cd, Some de ->
    if not (conddir_lines_singleton ls) then Diff "hypothesis conddir_lines_singleton fails on the parse result"
    else if not (no_voided ls) then Diff "hypothesis no_voided fails on the parse result"
    else if not (unique_first_tokens ls) then Diff "hypothesis unique_first_tokens fails on the parse result"
    else begin
      match conddir_consolidate_chk tys ls with
      | None -> Diff "model: expand_line would underflow (decreasing token list)"
      | Some _ ->
        let m = conddir_consolidate_std tys ls in
        if m <> cd then Diff ("conddir: model " ^ show_lines_m m ^ " impl " ^ show_lines (List.assoc "conddir" c.lines))
        else if conddir_consolidate tys ls <> m then Diff "conddir: first-match model differs from the binary-search model"
        else
          let d = deindent_package tys cd in
          if d <> de then Diff ("deindent: model differs; impl " ^ show_lines (List.assoc "deindent" c.lines))
          else if not (lines_cover_nv tys m) then Viol ("lines_not_covering_after_consolidation", show_lines (List.assoc "conddir" c.lines))
          else Ok_
    end
  | _ -> Skip

let () = register [ ("consolidators", u_consolidators) ]

(* unit prelines: "no code is skipped by line-based formatting" on the lines the formatters are HANDED (after the voiding of
   lines that lie wholly in ignored tokens): every token that is not ignored belongs to at least one of those lines *)
let u_prelines c =
  match state c "pre", (try Some (List.assoc "pre" c.lines) with Not_found -> None) with
  | Some st, Some ls ->
    let n = Array.length st in
    let covered = Array.make n false in
    List.iter (fun l -> List.iter (fun t -> if t >= 0 && t < n then covered.(t) <- true) l.toks) ls;
    let bad = ref None in
    Array.iteri (fun i k -> if !bad = None && not k.ign && not covered.(i) then bad := Some i) st;
    (match !bad with
     | None -> Ok_
     | Some i -> Viol ("formatted_token_in_no_line", Printf.sprintf "token %d (%s), not ignored, is in none of the lines handed to the formatters: %s" i st.(i).ty (show_lines ls)))
  | _ -> Skip

let () = register [ ("prelines", u_prelines) ]

