(* units: linescover, parents, eofline — the C14 acceptance predicates on the real parse result *)
open Model
open Util
open Trace
open Common

let mk_lines (ls : line list) : lline list =
  List.map (fun l -> { ll_type = llt_of_name l.lty; ll_level = n_of_int l.level;
                       ll_parent = (if l.pline < 0 then None else Some (nat_of_int l.pline, nat_of_int l.ptok));
                       ll_toks = List.map nat_of_int l.toks }) ls

let parsed c =
  match (try Some (List.assoc "parsed" c.lines) with Not_found -> None) with
  | Some ls when c.parsed <> [] -> Some (List.map tt_of_name c.parsed, mk_lines ls)
  | _ -> None

let show_lines (ls : line list) =
  String.concat " | " (List.map (fun l -> Printf.sprintf "%s[%s]" l.lty (String.concat "," (List.map string_of_int l.toks))) ls)

let u_linescover c =
  match parsed c with
  | Some (tys, ls) -> if lines_cover tys ls then Ok_ else Viol ("lines_not_covering", "parse result: " ^ show_lines (List.assoc "parsed" c.lines))
  | None -> Skip
let u_parents c =
  match parsed c with
  | Some (_, ls) -> if parents_ok ls then Ok_ else Viol ("parent_not_preceding", "parse result: " ^ show_lines (List.assoc "parsed" c.lines))
  | None -> Skip
let u_eofline c =
  match parsed c with
  | Some (tys, ls) -> if eof_line_ok tys ls then Ok_ else Viol ("eof_line", "parse result: " ^ show_lines (List.assoc "parsed" c.lines))
  | None -> Skip

let () = register [ ("linescover", u_linescover); ("parents", u_parents); ("eofline", u_eofline) ]
