
(** val negb : bool -> bool **)

let negb = function
| true -> false
| false -> true

type nat =
| O
| S of nat

(** val option_map : ('a1 -> 'a2) -> 'a1 option -> 'a2 option **)

let option_map f = function
| Some a -> Some (f a)
| None -> None

(** val fst : ('a1 * 'a2) -> 'a1 **)

let fst = function
| (x, _) -> x

(** val snd : ('a1 * 'a2) -> 'a2 **)

let snd = function
| (_, y) -> y

(** val length : 'a1 list -> nat **)

let rec length = function
| [] -> O
| _ :: l' -> S (length l')

(** val app : 'a1 list -> 'a1 list -> 'a1 list **)

let rec app l m =
  match l with
  | [] -> m
  | a :: l1 -> a :: (app l1 m)

type comparison =
| Eq
| Lt
| Gt

(** val compOpp : comparison -> comparison **)

let compOpp = function
| Eq -> Eq
| Lt -> Gt
| Gt -> Lt

module Coq__1 = struct
 (** val add : nat -> nat -> nat **)
 let rec add n0 m =
   match n0 with
   | O -> m
   | S p -> S (add p m)
end
include Coq__1

(** val mul : nat -> nat -> nat **)

let rec mul n0 m =
  match n0 with
  | O -> O
  | S p -> add m (mul p m)

(** val sub : nat -> nat -> nat **)

let rec sub n0 m =
  match n0 with
  | O -> n0
  | S k -> (match m with
            | O -> n0
            | S l -> sub k l)

module Nat =
 struct
  (** val add : nat -> nat -> nat **)

  let rec add n0 m =
    match n0 with
    | O -> m
    | S p -> S (add p m)

  (** val eqb : nat -> nat -> bool **)

  let rec eqb n0 m =
    match n0 with
    | O -> (match m with
            | O -> true
            | S _ -> false)
    | S n' -> (match m with
               | O -> false
               | S m' -> eqb n' m')

  (** val leb : nat -> nat -> bool **)

  let rec leb n0 m =
    match n0 with
    | O -> true
    | S n' -> (match m with
               | O -> false
               | S m' -> leb n' m')

  (** val ltb : nat -> nat -> bool **)

  let ltb n0 m =
    leb (S n0) m

  (** val max : nat -> nat -> nat **)

  let rec max n0 m =
    match n0 with
    | O -> m
    | S n' -> (match m with
               | O -> n0
               | S m' -> S (max n' m'))

  (** val even : nat -> bool **)

  let rec even = function
  | O -> true
  | S n1 -> (match n1 with
             | O -> false
             | S n' -> even n')

  (** val odd : nat -> bool **)

  let odd n0 =
    negb (even n0)
 end

(** val hd : 'a1 -> 'a1 list -> 'a1 **)

let hd default = function
| [] -> default
| x :: _ -> x

(** val tl : 'a1 list -> 'a1 list **)

let tl = function
| [] -> []
| _ :: m -> m

(** val nth : nat -> 'a1 list -> 'a1 -> 'a1 **)

let rec nth n0 l default =
  match n0 with
  | O -> (match l with
          | [] -> default
          | x :: _ -> x)
  | S m -> (match l with
            | [] -> default
            | _ :: t -> nth m t default)

(** val nth_error : 'a1 list -> nat -> 'a1 option **)

let rec nth_error l = function
| O -> (match l with
        | [] -> None
        | x :: _ -> Some x)
| S n1 -> (match l with
           | [] -> None
           | _ :: l0 -> nth_error l0 n1)

(** val last : 'a1 list -> 'a1 -> 'a1 **)

let rec last l d =
  match l with
  | [] -> d
  | a :: l0 -> (match l0 with
                | [] -> a
                | _ :: _ -> last l0 d)

(** val removelast : 'a1 list -> 'a1 list **)

let rec removelast = function
| [] -> []
| a :: l0 -> (match l0 with
              | [] -> []
              | _ :: _ -> a :: (removelast l0))

(** val rev : 'a1 list -> 'a1 list **)

let rec rev = function
| [] -> []
| x :: l' -> app (rev l') (x :: [])

(** val concat : 'a1 list list -> 'a1 list **)

let rec concat = function
| [] -> []
| x :: l0 -> app x (concat l0)

(** val map : ('a1 -> 'a2) -> 'a1 list -> 'a2 list **)

let rec map f = function
| [] -> []
| a :: t -> (f a) :: (map f t)

(** val flat_map : ('a1 -> 'a2 list) -> 'a1 list -> 'a2 list **)

let rec flat_map f = function
| [] -> []
| x :: t -> app (f x) (flat_map f t)

(** val fold_left : ('a1 -> 'a2 -> 'a1) -> 'a2 list -> 'a1 -> 'a1 **)

let rec fold_left f l a0 =
  match l with
  | [] -> a0
  | b :: t -> fold_left f t (f a0 b)

(** val fold_right : ('a2 -> 'a1 -> 'a1) -> 'a1 -> 'a2 list -> 'a1 **)

let rec fold_right f a0 = function
| [] -> a0
| b :: t -> f b (fold_right f a0 t)

(** val existsb : ('a1 -> bool) -> 'a1 list -> bool **)

let rec existsb f = function
| [] -> false
| a :: l0 -> (||) (f a) (existsb f l0)

(** val forallb : ('a1 -> bool) -> 'a1 list -> bool **)

let rec forallb f = function
| [] -> true
| a :: l0 -> (&&) (f a) (forallb f l0)

(** val filter : ('a1 -> bool) -> 'a1 list -> 'a1 list **)

let rec filter f = function
| [] -> []
| x :: l0 -> if f x then x :: (filter f l0) else filter f l0

(** val combine : 'a1 list -> 'a2 list -> ('a1 * 'a2) list **)

let rec combine l l' =
  match l with
  | [] -> []
  | x :: tl0 ->
    (match l' with
     | [] -> []
     | y :: tl' -> (x, y) :: (combine tl0 tl'))

(** val firstn : nat -> 'a1 list -> 'a1 list **)

let rec firstn n0 l =
  match n0 with
  | O -> []
  | S n1 -> (match l with
             | [] -> []
             | a :: l0 -> a :: (firstn n1 l0))

(** val skipn : nat -> 'a1 list -> 'a1 list **)

let rec skipn n0 l =
  match n0 with
  | O -> l
  | S n1 -> (match l with
             | [] -> []
             | _ :: l0 -> skipn n1 l0)

(** val seq : nat -> nat -> nat list **)

let rec seq start = function
| O -> []
| S len0 -> start :: (seq (S start) len0)

(** val repeat : 'a1 -> nat -> 'a1 list **)

let rec repeat x = function
| O -> []
| S k -> x :: (repeat x k)

type positive =
| XI of positive
| XO of positive
| XH

type n =
| N0
| Npos of positive

type z =
| Z0
| Zpos of positive
| Zneg of positive

module Pos =
 struct
  type mask =
  | IsNul
  | IsPos of positive
  | IsNeg
 end

module Coq_Pos =
 struct
  (** val succ : positive -> positive **)

  let rec succ = function
  | XI p -> XO (succ p)
  | XO p -> XI p
  | XH -> XO XH

  (** val add : positive -> positive -> positive **)

  let rec add x y =
    match x with
    | XI p ->
      (match y with
       | XI q -> XO (add_carry p q)
       | XO q -> XI (add p q)
       | XH -> XO (succ p))
    | XO p ->
      (match y with
       | XI q -> XI (add p q)
       | XO q -> XO (add p q)
       | XH -> XI p)
    | XH -> (match y with
             | XI q -> XO (succ q)
             | XO q -> XI q
             | XH -> XO XH)

  (** val add_carry : positive -> positive -> positive **)

  and add_carry x y =
    match x with
    | XI p ->
      (match y with
       | XI q -> XI (add_carry p q)
       | XO q -> XO (add_carry p q)
       | XH -> XI (succ p))
    | XO p ->
      (match y with
       | XI q -> XO (add_carry p q)
       | XO q -> XI (add p q)
       | XH -> XO (succ p))
    | XH ->
      (match y with
       | XI q -> XI (succ q)
       | XO q -> XO (succ q)
       | XH -> XI XH)

  (** val pred_double : positive -> positive **)

  let rec pred_double = function
  | XI p -> XI (XO p)
  | XO p -> XI (pred_double p)
  | XH -> XH

  type mask = Pos.mask =
  | IsNul
  | IsPos of positive
  | IsNeg

  (** val succ_double_mask : mask -> mask **)

  let succ_double_mask = function
  | IsNul -> IsPos XH
  | IsPos p -> IsPos (XI p)
  | IsNeg -> IsNeg

  (** val double_mask : mask -> mask **)

  let double_mask = function
  | IsPos p -> IsPos (XO p)
  | x0 -> x0

  (** val double_pred_mask : positive -> mask **)

  let double_pred_mask = function
  | XI p -> IsPos (XO (XO p))
  | XO p -> IsPos (XO (pred_double p))
  | XH -> IsNul

  (** val sub_mask : positive -> positive -> mask **)

  let rec sub_mask x y =
    match x with
    | XI p ->
      (match y with
       | XI q -> double_mask (sub_mask p q)
       | XO q -> succ_double_mask (sub_mask p q)
       | XH -> IsPos (XO p))
    | XO p ->
      (match y with
       | XI q -> succ_double_mask (sub_mask_carry p q)
       | XO q -> double_mask (sub_mask p q)
       | XH -> IsPos (pred_double p))
    | XH -> (match y with
             | XH -> IsNul
             | _ -> IsNeg)

  (** val sub_mask_carry : positive -> positive -> mask **)

  and sub_mask_carry x y =
    match x with
    | XI p ->
      (match y with
       | XI q -> succ_double_mask (sub_mask_carry p q)
       | XO q -> double_mask (sub_mask p q)
       | XH -> IsPos (pred_double p))
    | XO p ->
      (match y with
       | XI q -> double_mask (sub_mask_carry p q)
       | XO q -> succ_double_mask (sub_mask_carry p q)
       | XH -> double_pred_mask p)
    | XH -> IsNeg

  (** val mul : positive -> positive -> positive **)

  let rec mul x y =
    match x with
    | XI p -> add y (XO (mul p y))
    | XO p -> XO (mul p y)
    | XH -> y

  (** val compare_cont : comparison -> positive -> positive -> comparison **)

  let rec compare_cont r x y =
    match x with
    | XI p ->
      (match y with
       | XI q -> compare_cont r p q
       | XO q -> compare_cont Gt p q
       | XH -> Gt)
    | XO p ->
      (match y with
       | XI q -> compare_cont Lt p q
       | XO q -> compare_cont r p q
       | XH -> Gt)
    | XH -> (match y with
             | XH -> r
             | _ -> Lt)

  (** val compare : positive -> positive -> comparison **)

  let compare =
    compare_cont Eq

  (** val eqb : positive -> positive -> bool **)

  let rec eqb p q =
    match p with
    | XI p0 -> (match q with
                | XI q0 -> eqb p0 q0
                | _ -> false)
    | XO p0 -> (match q with
                | XO q0 -> eqb p0 q0
                | _ -> false)
    | XH -> (match q with
             | XH -> true
             | _ -> false)

  (** val iter_op : ('a1 -> 'a1 -> 'a1) -> positive -> 'a1 -> 'a1 **)

  let rec iter_op op0 p a =
    match p with
    | XI p0 -> op0 a (iter_op op0 p0 (op0 a a))
    | XO p0 -> iter_op op0 p0 (op0 a a)
    | XH -> a

  (** val to_nat : positive -> nat **)

  let to_nat x =
    iter_op Coq__1.add x (S O)

  (** val of_succ_nat : nat -> positive **)

  let rec of_succ_nat = function
  | O -> XH
  | S x -> succ (of_succ_nat x)
 end

module N =
 struct
  (** val succ_double : n -> n **)

  let succ_double = function
  | N0 -> Npos XH
  | Npos p -> Npos (XI p)

  (** val double : n -> n **)

  let double = function
  | N0 -> N0
  | Npos p -> Npos (XO p)

  (** val add : n -> n -> n **)

  let add n0 m =
    match n0 with
    | N0 -> m
    | Npos p -> (match m with
                 | N0 -> n0
                 | Npos q -> Npos (Coq_Pos.add p q))

  (** val sub : n -> n -> n **)

  let sub n0 m =
    match n0 with
    | N0 -> N0
    | Npos n' ->
      (match m with
       | N0 -> n0
       | Npos m' ->
         (match Coq_Pos.sub_mask n' m' with
          | Coq_Pos.IsPos p -> Npos p
          | _ -> N0))

  (** val mul : n -> n -> n **)

  let mul n0 m =
    match n0 with
    | N0 -> N0
    | Npos p -> (match m with
                 | N0 -> N0
                 | Npos q -> Npos (Coq_Pos.mul p q))

  (** val compare : n -> n -> comparison **)

  let compare n0 m =
    match n0 with
    | N0 -> (match m with
             | N0 -> Eq
             | Npos _ -> Lt)
    | Npos n' -> (match m with
                  | N0 -> Gt
                  | Npos m' -> Coq_Pos.compare n' m')

  (** val eqb : n -> n -> bool **)

  let eqb n0 m =
    match n0 with
    | N0 -> (match m with
             | N0 -> true
             | Npos _ -> false)
    | Npos p -> (match m with
                 | N0 -> false
                 | Npos q -> Coq_Pos.eqb p q)

  (** val leb : n -> n -> bool **)

  let leb x y =
    match compare x y with
    | Gt -> false
    | _ -> true

  (** val ltb : n -> n -> bool **)

  let ltb x y =
    match compare x y with
    | Lt -> true
    | _ -> false

  (** val min : n -> n -> n **)

  let min n0 n' =
    match compare n0 n' with
    | Gt -> n'
    | _ -> n0

  (** val pos_div_eucl : positive -> n -> n * n **)

  let rec pos_div_eucl a b =
    match a with
    | XI a' ->
      let (q, r) = pos_div_eucl a' b in
      let r' = succ_double r in
      if leb b r' then ((succ_double q), (sub r' b)) else ((double q), r')
    | XO a' ->
      let (q, r) = pos_div_eucl a' b in
      let r' = double r in
      if leb b r' then ((succ_double q), (sub r' b)) else ((double q), r')
    | XH ->
      (match b with
       | N0 -> (N0, (Npos XH))
       | Npos p -> (match p with
                    | XH -> ((Npos XH), N0)
                    | _ -> (N0, (Npos XH))))

  (** val div_eucl : n -> n -> n * n **)

  let div_eucl a b =
    match a with
    | N0 -> (N0, N0)
    | Npos na -> (match b with
                  | N0 -> (N0, a)
                  | Npos _ -> pos_div_eucl na b)

  (** val div : n -> n -> n **)

  let div a b =
    fst (div_eucl a b)

  (** val modulo : n -> n -> n **)

  let modulo a b =
    snd (div_eucl a b)

  (** val to_nat : n -> nat **)

  let to_nat = function
  | N0 -> O
  | Npos p -> Coq_Pos.to_nat p

  (** val of_nat : nat -> n **)

  let of_nat = function
  | O -> N0
  | S n' -> Npos (Coq_Pos.of_succ_nat n')
 end

module Z =
 struct
  (** val double : z -> z **)

  let double = function
  | Z0 -> Z0
  | Zpos p -> Zpos (XO p)
  | Zneg p -> Zneg (XO p)

  (** val succ_double : z -> z **)

  let succ_double = function
  | Z0 -> Zpos XH
  | Zpos p -> Zpos (XI p)
  | Zneg p -> Zneg (Coq_Pos.pred_double p)

  (** val pred_double : z -> z **)

  let pred_double = function
  | Z0 -> Zneg XH
  | Zpos p -> Zpos (Coq_Pos.pred_double p)
  | Zneg p -> Zneg (XI p)

  (** val pos_sub : positive -> positive -> z **)

  let rec pos_sub x y =
    match x with
    | XI p ->
      (match y with
       | XI q -> double (pos_sub p q)
       | XO q -> succ_double (pos_sub p q)
       | XH -> Zpos (XO p))
    | XO p ->
      (match y with
       | XI q -> pred_double (pos_sub p q)
       | XO q -> double (pos_sub p q)
       | XH -> Zpos (Coq_Pos.pred_double p))
    | XH ->
      (match y with
       | XI q -> Zneg (XO q)
       | XO q -> Zneg (Coq_Pos.pred_double q)
       | XH -> Z0)

  (** val add : z -> z -> z **)

  let add x y =
    match x with
    | Z0 -> y
    | Zpos x' ->
      (match y with
       | Z0 -> x
       | Zpos y' -> Zpos (Coq_Pos.add x' y')
       | Zneg y' -> pos_sub x' y')
    | Zneg x' ->
      (match y with
       | Z0 -> x
       | Zpos y' -> pos_sub y' x'
       | Zneg y' -> Zneg (Coq_Pos.add x' y'))

  (** val opp : z -> z **)

  let opp = function
  | Z0 -> Z0
  | Zpos x0 -> Zneg x0
  | Zneg x0 -> Zpos x0

  (** val sub : z -> z -> z **)

  let sub m n0 =
    add m (opp n0)

  (** val mul : z -> z -> z **)

  let mul x y =
    match x with
    | Z0 -> Z0
    | Zpos x' ->
      (match y with
       | Z0 -> Z0
       | Zpos y' -> Zpos (Coq_Pos.mul x' y')
       | Zneg y' -> Zneg (Coq_Pos.mul x' y'))
    | Zneg x' ->
      (match y with
       | Z0 -> Z0
       | Zpos y' -> Zneg (Coq_Pos.mul x' y')
       | Zneg y' -> Zpos (Coq_Pos.mul x' y'))

  (** val compare : z -> z -> comparison **)

  let compare x y =
    match x with
    | Z0 -> (match y with
             | Z0 -> Eq
             | Zpos _ -> Lt
             | Zneg _ -> Gt)
    | Zpos x' -> (match y with
                  | Zpos y' -> Coq_Pos.compare x' y'
                  | _ -> Gt)
    | Zneg x' ->
      (match y with
       | Zneg y' -> compOpp (Coq_Pos.compare x' y')
       | _ -> Lt)

  (** val leb : z -> z -> bool **)

  let leb x y =
    match compare x y with
    | Gt -> false
    | _ -> true

  (** val ltb : z -> z -> bool **)

  let ltb x y =
    match compare x y with
    | Lt -> true
    | _ -> false

  (** val max : z -> z -> z **)

  let max n0 m =
    match compare n0 m with
    | Lt -> m
    | _ -> n0

  (** val to_nat : z -> nat **)

  let to_nat = function
  | Zpos p -> Coq_Pos.to_nat p
  | _ -> O

  (** val to_N : z -> n **)

  let to_N = function
  | Zpos p -> Npos p
  | _ -> N0

  (** val of_N : n -> z **)

  let of_N = function
  | N0 -> Z0
  | Npos p -> Zpos p

  (** val pos_div_eucl : positive -> z -> z * z **)

  let rec pos_div_eucl a b =
    match a with
    | XI a' ->
      let (q, r) = pos_div_eucl a' b in
      let r' = add (mul (Zpos (XO XH)) r) (Zpos XH) in
      if ltb r' b
      then ((mul (Zpos (XO XH)) q), r')
      else ((add (mul (Zpos (XO XH)) q) (Zpos XH)), (sub r' b))
    | XO a' ->
      let (q, r) = pos_div_eucl a' b in
      let r' = mul (Zpos (XO XH)) r in
      if ltb r' b
      then ((mul (Zpos (XO XH)) q), r')
      else ((add (mul (Zpos (XO XH)) q) (Zpos XH)), (sub r' b))
    | XH -> if leb (Zpos (XO XH)) b then (Z0, (Zpos XH)) else ((Zpos XH), Z0)

  (** val div_eucl : z -> z -> z * z **)

  let div_eucl a b =
    match a with
    | Z0 -> (Z0, Z0)
    | Zpos a' ->
      (match b with
       | Z0 -> (Z0, a)
       | Zpos _ -> pos_div_eucl a' b
       | Zneg b' ->
         let (q, r) = pos_div_eucl a' (Zpos b') in
         (match r with
          | Z0 -> ((opp q), Z0)
          | _ -> ((opp (add q (Zpos XH))), (add b r))))
    | Zneg a' ->
      (match b with
       | Z0 -> (Z0, a)
       | Zpos _ ->
         let (q, r) = pos_div_eucl a' b in
         (match r with
          | Z0 -> ((opp q), Z0)
          | _ -> ((opp (add q (Zpos XH))), (sub b r)))
       | Zneg b' -> let (q, r) = pos_div_eucl a' (Zpos b') in (q, (opp r)))

  (** val modulo : z -> z -> z **)

  let modulo a b =
    let (_, r) = div_eucl a b in r
 end

type byte = n

type bytes = n list

(** val repeat_app : nat -> 'a1 list -> 'a1 list **)

let rec repeat_app n0 s =
  match n0 with
  | O -> []
  | S k -> app s (repeat_app k s)

(** val nrepeat : n -> 'a1 list -> 'a1 list **)

let nrepeat n0 s =
  repeat_app (N.to_nat n0) s

(** val count_while : ('a1 -> bool) -> 'a1 list -> nat **)

let rec count_while p = function
| [] -> O
| b :: t -> if p b then S (count_while p t) else O

(** val is_prefix : bytes -> bytes -> bool **)

let rec is_prefix p l =
  match p with
  | [] -> true
  | a :: p' ->
    (match l with
     | [] -> false
     | b :: l' -> (&&) (N.eqb a b) (is_prefix p' l'))

(** val bytes_eqb : bytes -> bytes -> bool **)

let rec bytes_eqb a b =
  match a with
  | [] -> (match b with
           | [] -> true
           | _ :: _ -> false)
  | x :: a' ->
    (match b with
     | [] -> false
     | y :: b' -> (&&) (N.eqb x y) (bytes_eqb a' b'))

(** val is_cont : byte -> bool **)

let is_cont b =
  (&&) (N.leb (Npos (XO (XO (XO (XO (XO (XO (XO XH)))))))) b)
    (N.leb b (Npos (XI (XI (XI (XI (XI (XI (XO XH)))))))))

(** val strip : bytes -> bytes **)

let rec strip = function
| [] -> []
| a :: t ->
  if N.leb a (Npos (XO (XO (XO (XO (XO XH))))))
  then strip t
  else (match t with
        | [] -> a :: (strip t)
        | b :: l0 ->
          (match l0 with
           | [] -> a :: (strip t)
           | c :: t' ->
             if (&&)
                  ((&&)
                    (N.eqb a (Npos (XI (XI (XO (XO (XO (XI (XI XH)))))))))
                    (N.eqb b (Npos (XO (XO (XO (XO (XO (XO (XO XH))))))))))
                  (N.eqb c (Npos (XO (XO (XO (XO (XO (XO (XO XH)))))))))
             then strip t'
             else a :: (strip t)))

(** val is_upper : byte -> bool **)

let is_upper b =
  (&&) (N.leb (Npos (XI (XO (XO (XO (XO (XO XH))))))) b)
    (N.leb b (Npos (XO (XI (XO (XI (XI (XO XH))))))))

(** val is_lower : byte -> bool **)

let is_lower b =
  (&&) (N.leb (Npos (XI (XO (XO (XO (XO (XI XH))))))) b)
    (N.leb b (Npos (XO (XI (XO (XI (XI (XI XH))))))))

(** val is_alpha : byte -> bool **)

let is_alpha b =
  (||) (is_upper b) (is_lower b)

(** val is_digit : byte -> bool **)

let is_digit b =
  (&&) (N.leb (Npos (XO (XO (XO (XO (XI XH)))))) b)
    (N.leb b (Npos (XI (XO (XO (XI (XI XH)))))))

(** val is_alnum : byte -> bool **)

let is_alnum b =
  (||) (is_alpha b) (is_digit b)

(** val to_lower : byte -> byte **)

let to_lower b =
  if is_upper b then N.add b (Npos (XO (XO (XO (XO (XO XH)))))) else b

(** val to_upper : byte -> byte **)

let to_upper b =
  if is_lower b then N.sub b (Npos (XO (XO (XO (XO (XO XH)))))) else b

(** val lower : bytes -> bytes **)

let lower l =
  map to_lower l

(** val upper : bytes -> bytes **)

let upper l =
  map to_upper l

(** val is_ascii_ws : byte -> bool **)

let is_ascii_ws b =
  (||)
    ((||)
      ((||)
        ((||) (N.eqb b (Npos (XO (XO (XO (XO (XO XH)))))))
          (N.eqb b (Npos (XI (XO (XO XH))))))
        (N.eqb b (Npos (XO (XI (XO XH))))))
      (N.eqb b (Npos (XO (XO (XI XH)))))) (N.eqb b (Npos (XI (XO (XI XH)))))

(** val fold_case : bytes -> bytes **)

let fold_case =
  lower

type inKind =
| IK_ForLoop
| IK_Op
| IK_Import

(** val all_InKind : inKind list **)

let all_InKind =
  app (IK_ForLoop :: []) (app (IK_Op :: []) (IK_Import :: []))

type declKind =
| DK_Section
| DK_Inline
| DK_Param
| DK_AnonSection
| DK_Other

(** val all_DeclKind : declKind list **)

let all_DeclKind =
  app (DK_Section :: [])
    (app (DK_Inline :: [])
      (app (DK_Param :: []) (app (DK_AnonSection :: []) (DK_Other :: []))))

type keywordKind =
| KK_And
| KK_Array
| KK_As
| KK_Asm
| KK_Begin
| KK_Case
| KK_Class
| KK_Const of declKind
| KK_Constructor
| KK_Destructor
| KK_DispInterface
| KK_Div
| KK_Do
| KK_Downto
| KK_Else
| KK_End
| KK_Except
| KK_Exports
| KK_File
| KK_Finalization
| KK_Finally
| KK_For
| KK_Function
| KK_Goto
| KK_If
| KK_Implementation
| KK_In of inKind
| KK_Inherited
| KK_Initialization
| KK_Inline
| KK_Interface
| KK_Is
| KK_Label
| KK_Library
| KK_Mod
| KK_Nil
| KK_Not
| KK_Object
| KK_Of
| KK_Or
| KK_Packed
| KK_Procedure
| KK_Program
| KK_Property
| KK_Raise
| KK_Record
| KK_Repeat
| KK_ResourceString
| KK_Set
| KK_Shl
| KK_Shr
| KK_String
| KK_Then
| KK_ThreadVar
| KK_To
| KK_Try
| KK_Type
| KK_Unit
| KK_Until
| KK_Uses
| KK_Var of declKind
| KK_While
| KK_With
| KK_Xor
| KK_Absolute
| KK_Abstract
| KK_Align
| KK_Assembler
| KK_At
| KK_Automated
| KK_Cdecl
| KK_Contains
| KK_Default
| KK_Delayed
| KK_Deprecated
| KK_DispId
| KK_Dynamic
| KK_Experimental
| KK_Export
| KK_External
| KK_Far
| KK_Final
| KK_Forward
| KK_Helper
| KK_Implements
| KK_Index
| KK_Local
| KK_Message
| KK_Name
| KK_Near
| KK_NoDefault
| KK_On
| KK_Operator
| KK_Out
| KK_Overload
| KK_Override
| KK_Package
| KK_Pascal
| KK_Platform
| KK_Private
| KK_Protected
| KK_Public
| KK_Published
| KK_Read
| KK_ReadOnly
| KK_Reference
| KK_Register
| KK_Reintroduce
| KK_Requires
| KK_Resident
| KK_SafeCall
| KK_Sealed
| KK_Static
| KK_StdCall
| KK_Stored
| KK_Strict
| KK_Unsafe
| KK_VarArgs
| KK_Virtual
| KK_WinApi
| KK_Write
| KK_WriteOnly

(** val all_KeywordKind : keywordKind list **)

let all_KeywordKind =
  app (KK_And :: [])
    (app (KK_Array :: [])
      (app (KK_As :: [])
        (app (KK_Asm :: [])
          (app (KK_Begin :: [])
            (app (KK_Case :: [])
              (app (KK_Class :: [])
                (app (map (fun x -> KK_Const x) all_DeclKind)
                  (app (KK_Constructor :: [])
                    (app (KK_Destructor :: [])
                      (app (KK_DispInterface :: [])
                        (app (KK_Div :: [])
                          (app (KK_Do :: [])
                            (app (KK_Downto :: [])
                              (app (KK_Else :: [])
                                (app (KK_End :: [])
                                  (app (KK_Except :: [])
                                    (app (KK_Exports :: [])
                                      (app (KK_File :: [])
                                        (app (KK_Finalization :: [])
                                          (app (KK_Finally :: [])
                                            (app (KK_For :: [])
                                              (app (KK_Function :: [])
                                                (app (KK_Goto :: [])
                                                  (app (KK_If :: [])
                                                    (app
                                                      (KK_Implementation :: [])
                                                      (app
                                                        (map (fun x -> KK_In
                                                          x) all_InKind)
                                                        (app
                                                          (KK_Inherited :: [])
                                                          (app
                                                            (KK_Initialization :: [])
                                                            (app
                                                              (KK_Inline :: [])
                                                              (app
                                                                (KK_Interface :: [])
                                                                (app
                                                                  (KK_Is :: [])
                                                                  (app
                                                                    (KK_Label :: [])
                                                                    (app
                                                                    (KK_Library :: [])
                                                                    (app
                                                                    (KK_Mod :: [])
                                                                    (app
                                                                    (KK_Nil :: [])
                                                                    (app
                                                                    (KK_Not :: [])
                                                                    (app
                                                                    (KK_Object :: [])
                                                                    (app
                                                                    (KK_Of :: [])
                                                                    (app
                                                                    (KK_Or :: [])
                                                                    (app
                                                                    (KK_Packed :: [])
                                                                    (app
                                                                    (KK_Procedure :: [])
                                                                    (app
                                                                    (KK_Program :: [])
                                                                    (app
                                                                    (KK_Property :: [])
                                                                    (app
                                                                    (KK_Raise :: [])
                                                                    (app
                                                                    (KK_Record :: [])
                                                                    (app
                                                                    (KK_Repeat :: [])
                                                                    (app
                                                                    (KK_ResourceString :: [])
                                                                    (app
                                                                    (KK_Set :: [])
                                                                    (app
                                                                    (KK_Shl :: [])
                                                                    (app
                                                                    (KK_Shr :: [])
                                                                    (app
                                                                    (KK_String :: [])
                                                                    (app
                                                                    (KK_Then :: [])
                                                                    (app
                                                                    (KK_ThreadVar :: [])
                                                                    (app
                                                                    (KK_To :: [])
                                                                    (app
                                                                    (KK_Try :: [])
                                                                    (app
                                                                    (KK_Type :: [])
                                                                    (app
                                                                    (KK_Unit :: [])
                                                                    (app
                                                                    (KK_Until :: [])
                                                                    (app
                                                                    (KK_Uses :: [])
                                                                    (app
                                                                    (map
                                                                    (fun x ->
                                                                    KK_Var x)
                                                                    all_DeclKind)
                                                                    (app
                                                                    (KK_While :: [])
                                                                    (app
                                                                    (KK_With :: [])
                                                                    (app
                                                                    (KK_Xor :: [])
                                                                    (app
                                                                    (KK_Absolute :: [])
                                                                    (app
                                                                    (KK_Abstract :: [])
                                                                    (app
                                                                    (KK_Align :: [])
                                                                    (app
                                                                    (KK_Assembler :: [])
                                                                    (app
                                                                    (KK_At :: [])
                                                                    (app
                                                                    (KK_Automated :: [])
                                                                    (app
                                                                    (KK_Cdecl :: [])
                                                                    (app
                                                                    (KK_Contains :: [])
                                                                    (app
                                                                    (KK_Default :: [])
                                                                    (app
                                                                    (KK_Delayed :: [])
                                                                    (app
                                                                    (KK_Deprecated :: [])
                                                                    (app
                                                                    (KK_DispId :: [])
                                                                    (app
                                                                    (KK_Dynamic :: [])
                                                                    (app
                                                                    (KK_Experimental :: [])
                                                                    (app
                                                                    (KK_Export :: [])
                                                                    (app
                                                                    (KK_External :: [])
                                                                    (app
                                                                    (KK_Far :: [])
                                                                    (app
                                                                    (KK_Final :: [])
                                                                    (app
                                                                    (KK_Forward :: [])
                                                                    (app
                                                                    (KK_Helper :: [])
                                                                    (app
                                                                    (KK_Implements :: [])
                                                                    (app
                                                                    (KK_Index :: [])
                                                                    (app
                                                                    (KK_Local :: [])
                                                                    (app
                                                                    (KK_Message :: [])
                                                                    (app
                                                                    (KK_Name :: [])
                                                                    (app
                                                                    (KK_Near :: [])
                                                                    (app
                                                                    (KK_NoDefault :: [])
                                                                    (app
                                                                    (KK_On :: [])
                                                                    (app
                                                                    (KK_Operator :: [])
                                                                    (app
                                                                    (KK_Out :: [])
                                                                    (app
                                                                    (KK_Overload :: [])
                                                                    (app
                                                                    (KK_Override :: [])
                                                                    (app
                                                                    (KK_Package :: [])
                                                                    (app
                                                                    (KK_Pascal :: [])
                                                                    (app
                                                                    (KK_Platform :: [])
                                                                    (app
                                                                    (KK_Private :: [])
                                                                    (app
                                                                    (KK_Protected :: [])
                                                                    (app
                                                                    (KK_Public :: [])
                                                                    (app
                                                                    (KK_Published :: [])
                                                                    (app
                                                                    (KK_Read :: [])
                                                                    (app
                                                                    (KK_ReadOnly :: [])
                                                                    (app
                                                                    (KK_Reference :: [])
                                                                    (app
                                                                    (KK_Register :: [])
                                                                    (app
                                                                    (KK_Reintroduce :: [])
                                                                    (app
                                                                    (KK_Requires :: [])
                                                                    (app
                                                                    (KK_Resident :: [])
                                                                    (app
                                                                    (KK_SafeCall :: [])
                                                                    (app
                                                                    (KK_Sealed :: [])
                                                                    (app
                                                                    (KK_Static :: [])
                                                                    (app
                                                                    (KK_StdCall :: [])
                                                                    (app
                                                                    (KK_Stored :: [])
                                                                    (app
                                                                    (KK_Strict :: [])
                                                                    (app
                                                                    (KK_Unsafe :: [])
                                                                    (app
                                                                    (KK_VarArgs :: [])
                                                                    (app
                                                                    (KK_Virtual :: [])
                                                                    (app
                                                                    (KK_WinApi :: [])
                                                                    (app
                                                                    (KK_Write :: [])
                                                                    (KK_WriteOnly :: [])))))))))))))))))))))))))))))))))))))))))))))))))))))))))))))))))))))))))))))))))))))))))))))))))))))))))))))))))))))))))

type eqKind =
| EK_Decl
| EK_Comp

(** val all_EqKind : eqKind list **)

let all_EqKind =
  app (EK_Decl :: []) (EK_Comp :: [])

type chevronKind =
| ChK_Generic
| ChK_Comp

(** val all_ChevronKind : chevronKind list **)

let all_ChevronKind =
  app (ChK_Generic :: []) (ChK_Comp :: [])

type caretKind =
| CaK_Type
| CaK_Deref

(** val all_CaretKind : caretKind list **)

let all_CaretKind =
  app (CaK_Type :: []) (CaK_Deref :: [])

type operatorKind =
| OK_Plus
| OK_Minus
| OK_Star
| OK_Slash
| OK_Assign
| OK_Comma
| OK_Semicolon
| OK_Colon
| OK_Equal of eqKind
| OK_NotEqual
| OK_LessThan of chevronKind
| OK_LessEqual
| OK_GreaterThan of chevronKind
| OK_GreaterEqual
| OK_LBrack
| OK_RBrack
| OK_LParen
| OK_RParen
| OK_Caret of caretKind
| OK_AddressOf
| OK_Dot
| OK_DotDot

(** val all_OperatorKind : operatorKind list **)

let all_OperatorKind =
  app (OK_Plus :: [])
    (app (OK_Minus :: [])
      (app (OK_Star :: [])
        (app (OK_Slash :: [])
          (app (OK_Assign :: [])
            (app (OK_Comma :: [])
              (app (OK_Semicolon :: [])
                (app (OK_Colon :: [])
                  (app (map (fun x -> OK_Equal x) all_EqKind)
                    (app (OK_NotEqual :: [])
                      (app (map (fun x -> OK_LessThan x) all_ChevronKind)
                        (app (OK_LessEqual :: [])
                          (app
                            (map (fun x -> OK_GreaterThan x) all_ChevronKind)
                            (app (OK_GreaterEqual :: [])
                              (app (OK_LBrack :: [])
                                (app (OK_RBrack :: [])
                                  (app (OK_LParen :: [])
                                    (app (OK_RParen :: [])
                                      (app
                                        (map (fun x -> OK_Caret x)
                                          all_CaretKind)
                                        (app (OK_AddressOf :: [])
                                          (app (OK_Dot :: [])
                                            (OK_DotDot :: [])))))))))))))))))))))

type numberLiteralKind =
| NK_Decimal
| NK_Octal
| NK_Hex
| NK_Binary

(** val all_NumberLiteralKind : numberLiteralKind list **)

let all_NumberLiteralKind =
  app (NK_Decimal :: [])
    (app (NK_Octal :: []) (app (NK_Hex :: []) (NK_Binary :: [])))

type commentKind =
| CoK_InlineBlock
| CoK_IndividualBlock
| CoK_MultilineBlock
| CoK_InlineLine
| CoK_IndividualLine

(** val all_CommentKind : commentKind list **)

let all_CommentKind =
  app (CoK_InlineBlock :: [])
    (app (CoK_IndividualBlock :: [])
      (app (CoK_MultilineBlock :: [])
        (app (CoK_InlineLine :: []) (CoK_IndividualLine :: []))))

type conditionalDirectiveKind =
| CDK_If
| CDK_Ifdef
| CDK_Ifndef
| CDK_Ifopt
| CDK_Elseif
| CDK_Else
| CDK_Ifend
| CDK_Endif

(** val all_ConditionalDirectiveKind : conditionalDirectiveKind list **)

let all_ConditionalDirectiveKind =
  app (CDK_If :: [])
    (app (CDK_Ifdef :: [])
      (app (CDK_Ifndef :: [])
        (app (CDK_Ifopt :: [])
          (app (CDK_Elseif :: [])
            (app (CDK_Else :: []) (app (CDK_Ifend :: []) (CDK_Endif :: [])))))))

type textLiteralKind =
| TK_SingleLine
| TK_MultiLine
| TK_Asm
| TK_Unterminated

(** val all_TextLiteralKind : textLiteralKind list **)

let all_TextLiteralKind =
  app (TK_SingleLine :: [])
    (app (TK_MultiLine :: []) (app (TK_Asm :: []) (TK_Unterminated :: [])))

type rawTokenType =
| RTT_Op of operatorKind
| RTT_Identifier
| RTT_IdentifierOrKeyword of keywordKind
| RTT_Keyword of keywordKind
| RTT_TextLiteral of textLiteralKind
| RTT_NumberLiteral of numberLiteralKind
| RTT_ConditionalDirective of conditionalDirectiveKind
| RTT_CompilerDirective
| RTT_Comment of commentKind
| RTT_Eof
| RTT_Unknown

(** val all_RawTokenType : rawTokenType list **)

let all_RawTokenType =
  app (map (fun x -> RTT_Op x) all_OperatorKind)
    (app (RTT_Identifier :: [])
      (app (map (fun x -> RTT_IdentifierOrKeyword x) all_KeywordKind)
        (app (map (fun x -> RTT_Keyword x) all_KeywordKind)
          (app (map (fun x -> RTT_TextLiteral x) all_TextLiteralKind)
            (app (map (fun x -> RTT_NumberLiteral x) all_NumberLiteralKind)
              (app
                (map (fun x -> RTT_ConditionalDirective x)
                  all_ConditionalDirectiveKind)
                (app (RTT_CompilerDirective :: [])
                  (app (map (fun x -> RTT_Comment x) all_CommentKind)
                    (app (RTT_Eof :: []) (RTT_Unknown :: []))))))))))

type tokenType =
| TT_Op of operatorKind
| TT_Identifier
| TT_Keyword of keywordKind
| TT_TextLiteral of textLiteralKind
| TT_NumberLiteral of numberLiteralKind
| TT_ConditionalDirective of conditionalDirectiveKind
| TT_CompilerDirective
| TT_Comment of commentKind
| TT_Eof
| TT_Unknown

(** val all_TokenType : tokenType list **)

let all_TokenType =
  app (map (fun x -> TT_Op x) all_OperatorKind)
    (app (TT_Identifier :: [])
      (app (map (fun x -> TT_Keyword x) all_KeywordKind)
        (app (map (fun x -> TT_TextLiteral x) all_TextLiteralKind)
          (app (map (fun x -> TT_NumberLiteral x) all_NumberLiteralKind)
            (app
              (map (fun x -> TT_ConditionalDirective x)
                all_ConditionalDirectiveKind)
              (app (TT_CompilerDirective :: [])
                (app (map (fun x -> TT_Comment x) all_CommentKind)
                  (app (TT_Eof :: []) (TT_Unknown :: [])))))))))

type logicalLineType =
| LLT_Assignment
| LLT_ConditionalDirective
| LLT_CompilerDirective
| LLT_ForLoop
| LLT_Eof
| LLT_ImportClause
| LLT_ExportClause
| LLT_AsmInstruction
| LLT_PropertyDeclaration
| LLT_RoutineHeader
| LLT_InlineDeclaration
| LLT_Guid
| LLT_Attribute
| LLT_CaseHeader
| LLT_CaseArm
| LLT_Declaration
| LLT_VariantRecordCaseArm
| LLT_Unknown
| LLT_Voided

(** val all_LogicalLineType : logicalLineType list **)

let all_LogicalLineType =
  app (LLT_Assignment :: [])
    (app (LLT_ConditionalDirective :: [])
      (app (LLT_CompilerDirective :: [])
        (app (LLT_ForLoop :: [])
          (app (LLT_Eof :: [])
            (app (LLT_ImportClause :: [])
              (app (LLT_ExportClause :: [])
                (app (LLT_AsmInstruction :: [])
                  (app (LLT_PropertyDeclaration :: [])
                    (app (LLT_RoutineHeader :: [])
                      (app (LLT_InlineDeclaration :: [])
                        (app (LLT_Guid :: [])
                          (app (LLT_Attribute :: [])
                            (app (LLT_CaseHeader :: [])
                              (app (LLT_CaseArm :: [])
                                (app (LLT_Declaration :: [])
                                  (app (LLT_VariantRecordCaseArm :: [])
                                    (app (LLT_Unknown :: [])
                                      (LLT_Voided :: []))))))))))))))))))

(** val keywordKind_is_numeric_operator : keywordKind -> bool **)

let keywordKind_is_numeric_operator = function
| KK_And -> true
| KK_Div -> true
| KK_Mod -> true
| KK_Or -> true
| KK_Shl -> true
| KK_Shr -> true
| KK_Xor -> true
| _ -> false

(** val commentKind_is_singleline : commentKind -> bool **)

let commentKind_is_singleline = function
| CoK_InlineLine -> true
| CoK_IndividualLine -> true
| _ -> false

(** val conditionalDirectiveKind_is_if : conditionalDirectiveKind -> bool **)

let conditionalDirectiveKind_is_if = function
| CDK_If -> true
| CDK_Ifdef -> true
| CDK_Ifndef -> true
| CDK_Ifopt -> true
| _ -> false

(** val conditionalDirectiveKind_is_else :
    conditionalDirectiveKind -> bool **)

let conditionalDirectiveKind_is_else = function
| CDK_Elseif -> true
| CDK_Else -> true
| _ -> false

(** val rawTokenType_is_comment_or_directive : rawTokenType -> bool **)

let rawTokenType_is_comment_or_directive = function
| RTT_ConditionalDirective _ -> true
| RTT_CompilerDirective -> true
| RTT_Comment _ -> true
| _ -> false

(** val tokenType_is_comment_or_directive : tokenType -> bool **)

let tokenType_is_comment_or_directive = function
| TT_ConditionalDirective _ -> true
| TT_CompilerDirective -> true
| TT_Comment _ -> true
| _ -> false

(** val tt_of_raw : rawTokenType -> tokenType **)

let tt_of_raw = function
| RTT_Op op_kind -> TT_Op op_kind
| RTT_Keyword kind -> TT_Keyword kind
| RTT_TextLiteral kind -> TT_TextLiteral kind
| RTT_NumberLiteral kind -> TT_NumberLiteral kind
| RTT_ConditionalDirective kind -> TT_ConditionalDirective kind
| RTT_CompilerDirective -> TT_CompilerDirective
| RTT_Comment kind -> TT_Comment kind
| RTT_Eof -> TT_Eof
| RTT_Unknown -> TT_Unknown
| _ -> TT_Identifier

type token = { t_ws : bytes; t_content : bytes; t_ty : tokenType }

type fmt = { f_ignored : bool; f_nl : n; f_ind : n; f_cont : n; f_sp : n }

type rsettings = { rs_newline : bytes; rs_indent : bytes; rs_cont : bytes }

type ftoken = token * fmt

(** val is_eof : tokenType -> bool **)

let is_eof = function
| TT_Eof -> true
| _ -> false

(** val is_sl_comment : tokenType -> bool **)

let is_sl_comment = function
| TT_Comment ck -> commentKind_is_singleline ck
| _ -> false

(** val is_comment : tokenType -> bool **)

let is_comment = function
| TT_Comment _ -> true
| _ -> false

(** val is_keyword : tokenType -> bool **)

let is_keyword = function
| TT_Keyword _ -> true
| _ -> false

(** val is_ml_string : tokenType -> bool **)

let is_ml_string = function
| TT_TextLiteral k -> (match k with
                       | TK_MultiLine -> true
                       | _ -> false)
| _ -> false

(** val contains_byte : byte -> bytes -> bool **)

let contains_byte b l =
  existsb (N.eqb b) l

(** val rs_new : bool -> bool -> n -> n -> rsettings **)

let rs_new crlf hard_tabs indent_width cont_width =
  let nl =
    if crlf
    then (Npos (XI (XO (XI XH)))) :: ((Npos (XO (XI (XO XH)))) :: [])
    else (Npos (XO (XI (XO XH)))) :: []
  in
  let unit0 =
    if hard_tabs
    then (Npos (XI (XO (XO XH)))) :: []
    else (Npos (XO (XO (XO (XO (XO XH)))))) :: []
  in
  { rs_newline = nl; rs_indent = (nrepeat indent_width unit0); rs_cont =
  (nrepeat cont_width unit0) }

(** val u8_sat_mul : n -> n -> n **)

let u8_sat_mul a b =
  N.min (Npos (XI (XI (XI (XI (XI (XI (XI XH)))))))) (N.mul a b)

(** val rs_of_config : bool -> bool -> n -> n -> rsettings **)

let rs_of_config crlf use_tabs tab_width cont_indents =
  if use_tabs
  then rs_new crlf true (Npos XH) cont_indents
  else rs_new crlf false tab_width (u8_sat_mul cont_indents tab_width)

(** val has_break : bytes -> bool **)

let has_break ws =
  (||) (contains_byte (Npos (XO (XI (XO XH)))) ws)
    (contains_byte (Npos (XI (XO (XI XH)))) ws)

(** val emit_ws : rsettings -> bool -> ftoken -> bytes **)

let emit_ws rs must_break = function
| (tok0, f) ->
  let eof = is_eof tok0.t_ty in
  if f.f_ignored
  then app
         (if (&&) ((&&) must_break (negb (has_break tok0.t_ws))) (negb eof)
          then rs.rs_newline
          else []) tok0.t_ws
  else let nls =
         if (&&) ((&&) must_break (N.eqb f.f_nl N0)) (negb eof)
         then Npos XH
         else f.f_nl
       in
       app (nrepeat nls rs.rs_newline)
         (app (nrepeat f.f_ind rs.rs_indent)
           (app (nrepeat f.f_cont rs.rs_cont)
             (nrepeat f.f_sp ((Npos (XO (XO (XO (XO (XO XH)))))) :: []))))

(** val recon : rsettings -> bool -> ftoken list -> bytes **)

let rec recon rs must_break = function
| [] -> []
| p :: r ->
  app (emit_ws rs must_break p)
    (app (fst p).t_content (recon rs (is_sl_comment (fst p).t_ty) r))

(** val reconstruct : rsettings -> ftoken list -> bytes **)

let reconstruct rs l =
  recon rs false l

(** val set_content : token -> bytes -> token **)

let set_content tok0 c =
  { t_ws = []; t_content = c; t_ty = tok0.t_ty }

(** val lowercase_tok : ftoken -> ftoken **)

let lowercase_tok p = match p with
| (tok0, f) ->
  if f.f_ignored
  then p
  else if (&&) (is_keyword tok0.t_ty) (existsb is_upper tok0.t_content)
       then ((set_content tok0 (lower tok0.t_content)), f)
       else p

(** val lowercase_keywords : ftoken list -> ftoken list **)

let lowercase_keywords l =
  map lowercase_tok l

(** val drop_while : ('a1 -> bool) -> 'a1 list -> 'a1 list **)

let rec drop_while p l = match l with
| [] -> []
| a :: t -> if p a then drop_while p t else l

(** val trim_ascii_end : bytes -> bytes **)

let trim_ascii_end l =
  rev (drop_while is_ascii_ws (rev l))

(** val drop_blank_rev : bytes -> bytes **)

let rec drop_blank_rev r = match r with
| [] -> []
| z0 :: t ->
  if N.leb z0 (Npos (XO (XO (XO (XO (XO XH))))))
  then drop_blank_rev t
  else (match t with
        | [] -> r
        | y :: l ->
          (match l with
           | [] -> r
           | x :: rest ->
             if (&&)
                  ((&&)
                    (N.eqb z0 (Npos (XO (XO (XO (XO (XO (XO (XO XH)))))))))
                    (N.eqb y (Npos (XO (XO (XO (XO (XO (XO (XO XH))))))))))
                  (N.eqb x (Npos (XI (XI (XO (XO (XO (XI (XI XH)))))))))
             then drop_blank_rev rest
             else r))

(** val trim_blank_end : bytes -> bytes **)

let trim_blank_end l =
  rev (drop_blank_rev (rev l))

(** val strip_prefix : bytes -> bytes -> bytes option **)

let strip_prefix p l =
  if is_prefix p l then Some (skipn (length p) l) else None

(** val utf8_len : byte -> nat **)

let utf8_len b =
  if N.ltb b (Npos (XO (XO (XO (XO (XO (XO (XO XH))))))))
  then S O
  else if N.ltb b (Npos (XO (XO (XO (XO (XO (XI (XI XH))))))))
       then S (S O)
       else if N.ltb b (Npos (XO (XO (XO (XO (XI (XI (XI XH))))))))
            then S (S (S O))
            else S (S (S (S O)))

(** val first_char : bytes -> bytes **)

let first_char l = match l with
| [] -> []
| b :: _ -> firstn (utf8_len b) l

(** val all_chunks_eq : nat -> bytes -> bytes -> bool **)

let rec all_chunks_eq fuel c l = match l with
| [] -> true
| _ :: _ ->
  (match fuel with
   | O -> false
   | S k ->
     (&&) ((&&) (is_prefix c l) (negb (Nat.eqb (length c) O)))
       (all_chunks_eq k c (skipn (length c) l)))

(** val comment_is_separator : (bytes -> bool) -> bytes -> bool **)

let comment_is_separator alnum comment =
  let c = trim_ascii_end comment in
  (&&)
    ((&&) (N.leb (Npos (XO (XI (XO XH)))) (N.of_nat (length c)))
      (match c with
       | [] -> false
       | _ :: _ -> negb (alnum (first_char c))))
    (all_chunks_eq (length c) (first_char c) c)

(** val flc_comment : bytes -> bytes **)

let flc_comment comment0 = match comment0 with
| [] -> comment0
| b :: r -> if N.eqb b (Npos (XI (XI (XI (XI (XO XH)))))) then r else comment0

(** val flc_new1 : (bytes -> bool) -> bytes -> bytes -> bytes option **)

let flc_new1 alnum content comment = match comment with
| [] -> None
| b :: _ ->
  if (&&) (negb (is_ascii_ws b)) (negb (comment_is_separator alnum comment))
  then Some
         (app (firstn (sub (length content) (length comment)) content)
           (app ((Npos (XO (XO (XO (XO (XO XH)))))) :: []) comment))
  else None

(** val format_line_comment : (bytes -> bool) -> bytes -> bytes option **)

let format_line_comment alnum content =
  match strip_prefix ((Npos (XI (XI (XI (XI (XO XH)))))) :: ((Npos (XI (XI
          (XI (XI (XO XH)))))) :: [])) content with
  | Some comment0 ->
    let new1 = flc_new1 alnum content (flc_comment comment0) in
    if Nat.eqb (length (trim_blank_end content)) (length content)
    then new1
    else Some (trim_blank_end (match new1 with
                               | Some s -> s
                               | None -> content))
  | None -> None

type dstate =
| DBefore
| DAfterPlusMinus
| DAfterDigit
| DAfterComma
| DAfterLetter
| DAfterWord

(** val is_word_byte : byte -> bool **)

let is_word_byte b =
  (||) ((||) (is_alpha b) (is_digit b))
    (N.eqb b (Npos (XI (XI (XI (XI (XI (XO XH))))))))

(** val dir_scan : dstate -> bool -> bytes -> nat -> nat option **)

let rec dir_scan st is_switch l len =
  match l with
  | [] -> Some len
  | b :: t ->
    let before_or_comma =
      match st with
      | DBefore -> true
      | DAfterComma -> true
      | _ -> false
    in
    let after_letter = match st with
                       | DAfterLetter -> true
                       | _ -> false in
    let pm_or_digit =
      match st with
      | DAfterPlusMinus -> true
      | DAfterDigit -> true
      | _ -> false
    in
    let letter_or_digit =
      match st with
      | DAfterDigit -> true
      | DAfterLetter -> true
      | _ -> false
    in
    let letter_or_word =
      match st with
      | DAfterLetter -> true
      | DAfterWord -> true
      | _ -> false
    in
    let comma_or_letter =
      match st with
      | DAfterComma -> true
      | DAfterLetter -> true
      | _ -> false
    in
    if (&&) before_or_comma (is_alpha b)
    then dir_scan DAfterLetter is_switch t (S len)
    else if (&&) after_letter
              ((||) (N.eqb b (Npos (XI (XI (XO (XI (XO XH)))))))
                (N.eqb b (Npos (XI (XO (XI (XI (XO XH))))))))
         then dir_scan DAfterPlusMinus true t (S len)
         else if (&&) pm_or_digit (N.eqb b (Npos (XO (XO (XI (XI (XO XH)))))))
              then dir_scan DAfterComma is_switch t (S len)
              else if (&&) letter_or_digit (is_digit b)
                   then dir_scan DAfterDigit true t (S len)
                   else if (&&) ((&&) letter_or_word (is_word_byte b))
                             (negb is_switch)
                        then dir_scan DAfterWord is_switch t (S len)
                        else if (&&) after_letter
                                  (N.eqb b (Npos (XO (XO (XI (XI (XO XH)))))))
                             then None
                             else if comma_or_letter then None else Some len

(** val format_compiler_directive : bytes -> bytes option **)

let format_compiler_directive content =
  let stripped_opt =
    match strip_prefix ((Npos (XI (XI (XO (XI (XI (XI XH))))))) :: ((Npos (XO
            (XO (XI (XO (XO XH)))))) :: [])) content with
    | Some s -> Some s
    | None ->
      strip_prefix ((Npos (XO (XO (XO (XI (XO XH)))))) :: ((Npos (XO (XI (XO
        (XI (XO XH)))))) :: ((Npos (XO (XO (XI (XO (XO XH)))))) :: [])))
        content
  in
  (match stripped_opt with
   | Some stripped ->
     (match dir_scan DBefore false stripped O with
      | Some dlen ->
        let directive = firstn dlen stripped in
        if existsb is_lower directive
        then Some
               (app (firstn (sub (length content) (length stripped)) content)
                 (app (upper directive) (skipn dlen stripped)))
        else None
      | None -> None)
   | None -> None)

(** val comment_tok : (bytes -> bool) -> ftoken -> ftoken **)

let comment_tok alnum p = match p with
| (tok0, f) ->
  if f.f_ignored
  then p
  else let r =
         match tok0.t_ty with
         | TT_Op _ -> None
         | TT_Identifier -> None
         | TT_Keyword _ -> None
         | TT_TextLiteral _ -> None
         | TT_NumberLiteral _ -> None
         | TT_ConditionalDirective _ ->
           format_compiler_directive tok0.t_content
         | TT_CompilerDirective -> format_compiler_directive tok0.t_content
         | TT_Comment k ->
           (match k with
            | CoK_InlineLine -> format_line_comment alnum tok0.t_content
            | CoK_IndividualLine -> format_line_comment alnum tok0.t_content
            | _ -> None)
         | _ -> None
       in
       (match r with
        | Some c -> ((set_content tok0 c), f)
        | None -> p)

(** val comment_formatter : (bytes -> bool) -> ftoken list -> ftoken list **)

let comment_formatter alnum l =
  map (comment_tok alnum) l

(** val eof_newline_once : ftoken list -> ftoken list **)

let eof_newline_once l =
  match rev l with
  | [] -> l
  | f0 :: r ->
    let (tok0, f) = f0 in
    if is_eof tok0.t_ty
    then app (rev r) ((tok0, { f_ignored = f.f_ignored; f_nl = (Npos XH);
           f_ind = N0; f_cont = N0; f_sp = N0 }) :: [])
    else l

(** val is_directive_ty : tokenType -> bool **)

let is_directive_ty = function
| TT_ConditionalDirective _ -> true
| TT_CompilerDirective -> true
| _ -> false

(** val r01_b : tokenType -> bytes -> bytes -> bool **)

let r01_b ty old new0 =
  (||)
    ((||)
      ((||) (bytes_eqb old new0)
        ((&&) (is_keyword ty) (bytes_eqb new0 (lower old))))
      ((&&) (is_directive_ty ty) (bytes_eqb (fold_case new0) (fold_case old))))
    ((&&) ((||) (is_sl_comment ty) (is_ml_string ty))
      (bytes_eqb (strip new0) (strip old)))

(** val tok_ok_b : bytes -> bytes -> bool **)

let tok_ok_b ws content =
  (&&) (match strip ws with
        | [] -> true
        | _ :: _ -> false)
    (match content with
     | [] -> true
     | b :: _ -> negb (N.eqb b (Npos (XO (XO (XO (XO (XO (XO (XO XH))))))))))

type toggle =
| TOn
| TOff

(** val starts_with_icase : bytes -> bytes -> bool **)

let starts_with_icase input prefix =
  (&&) (Nat.leb (length prefix) (length input))
    (bytes_eqb (lower (firstn (length prefix) input)) (lower prefix))

(** val strip_prefix_icase : bytes -> bytes -> bytes option **)

let strip_prefix_icase input prefix =
  if starts_with_icase input prefix
  then Some (skipn (length prefix) input)
  else None

(** val parse_pasfmt_toggle : bytes -> toggle option **)

let parse_pasfmt_toggle input =
  let word = firstn (count_while is_alnum input) input in
  if bytes_eqb (lower word) ((Npos (XI (XI (XI (XI (XO (XI
       XH))))))) :: ((Npos (XO (XI (XI (XI (XO (XI XH))))))) :: []))
  then Some TOn
  else if bytes_eqb (lower word) ((Npos (XI (XI (XI (XI (XO (XI
            XH))))))) :: ((Npos (XO (XI (XI (XO (XO (XI XH))))))) :: ((Npos
            (XO (XI (XI (XO (XO (XI XH))))))) :: [])))
       then Some TOff
       else None

(** val pasfmt_word : bytes **)

let pasfmt_word =
  (Npos (XO (XO (XO (XO (XI (XI XH))))))) :: ((Npos (XI (XO (XO (XO (XO (XI
    XH))))))) :: ((Npos (XI (XI (XO (XO (XI (XI XH))))))) :: ((Npos (XO (XI
    (XI (XO (XO (XI XH))))))) :: ((Npos (XI (XO (XI (XI (XO (XI
    XH))))))) :: ((Npos (XO (XO (XI (XO (XI (XI XH))))))) :: [])))))

(** val parse_pasfmt_directive_comment_contents : bytes -> toggle option **)

let parse_pasfmt_directive_comment_contents input =
  let input0 = skipn (count_while is_ascii_ws input) input in
  (match strip_prefix_icase input0 pasfmt_word with
   | Some input1 ->
     (match count_while is_ascii_ws input1 with
      | O -> None
      | S n0 -> parse_pasfmt_toggle (skipn (S n0) input1))
   | None -> None)

(** val strip_prefix_b : bytes -> bytes -> bytes option **)

let strip_prefix_b p l =
  if is_prefix p l then Some (skipn (length p) l) else None

(** val parse_toggle : bytes -> toggle option **)

let parse_toggle content =
  match strip_prefix_b ((Npos (XI (XI (XI (XI (XO XH)))))) :: ((Npos (XI (XI
          (XI (XI (XO XH)))))) :: [])) content with
  | Some c -> parse_pasfmt_directive_comment_contents c
  | None ->
    (match strip_prefix_b ((Npos (XO (XO (XO (XI (XO XH)))))) :: ((Npos (XO
             (XI (XO (XI (XO XH)))))) :: [])) content with
     | Some c -> parse_pasfmt_directive_comment_contents c
     | None ->
       (match strip_prefix_b ((Npos (XI (XI (XO (XI (XI (XI XH))))))) :: [])
                content with
        | Some c -> parse_pasfmt_directive_comment_contents c
        | None -> None))

(** val toggle_marks : bool -> token list -> bool list **)

let rec toggle_marks ignored = function
| [] -> []
| tok0 :: r ->
  let t = if is_comment tok0.t_ty then parse_toggle tok0.t_content else None
  in
  let ignored' =
    match t with
    | Some t0 -> (match t0 with
                  | TOn -> false
                  | TOff -> true)
    | None -> ignored
  in
  let on_toggle = match t with
                  | Some _ -> true
                  | None -> false in
  ((||) ignored' on_toggle) :: (toggle_marks ignored' r)

(** val asm_marked : (logicalLineType * nat list) list -> nat -> bool **)

let asm_marked lines i =
  existsb (fun ln ->
    match fst ln with
    | LLT_AsmInstruction -> existsb (Nat.eqb i) (snd ln)
    | _ -> false) lines

(** val ignore_marks :
    token list -> (logicalLineType * nat list) list -> bool list **)

let ignore_marks toks lines =
  let tm = toggle_marks false toks in
  map (fun ib -> (||) (snd ib) (asm_marked lines (fst ib)))
    (combine (seq O (length tm)) tm)

(** val void_lines :
    bool list -> (logicalLineType * nat list) list -> (logicalLineType * nat
    list) list **)

let void_lines marks lines =
  if existsb (fun b -> b) marks
  then map (fun ln ->
         if forallb (fun i -> nth i marks false) (snd ln)
         then (LLT_Voided, [])
         else ln) lines
  else lines

(** val canon_tok : bool -> ftoken -> bool **)

let canon_tok first p =
  let f = snd p in
  (||) f.f_ignored
    ((&&)
      ((&&)
        (if N.ltb N0 f.f_nl
         then N.eqb f.f_sp N0
         else (&&) ((&&) (N.eqb f.f_ind N0) (N.eqb f.f_cont N0))
                (N.leb f.f_sp (Npos XH))) (N.leb f.f_nl (Npos (XO XH))))
      (if first then (||) (N.eqb f.f_nl N0) (is_eof (fst p).t_ty) else true))

(** val canon_fmt_from : bool -> ftoken list -> bool **)

let rec canon_fmt_from first = function
| [] -> true
| p :: r -> (&&) (canon_tok first p) (canon_fmt_from false r)

(** val canon_fmt : ftoken list -> bool **)

let canon_fmt l =
  canon_fmt_from true l

(** val canon_first_bad : bool -> ftoken list -> nat -> nat option **)

let rec canon_first_bad first l i =
  match l with
  | [] -> None
  | p :: r ->
    if canon_tok first p then canon_first_bad false r (S i) else Some i

(** val eof_canon : ftoken list -> bool **)

let eof_canon l =
  match rev l with
  | [] -> false
  | f0 :: _ ->
    let (tok0, f) = f0 in
    (&&)
      ((&&)
        ((&&)
          ((&&) ((&&) (is_eof tok0.t_ty) (N.eqb f.f_nl (Npos XH)))
            (N.eqb f.f_ind N0)) (N.eqb f.f_cont N0)) (N.eqb f.f_sp N0))
      (match tok0.t_content with
       | [] -> true
       | _ :: _ -> false)

(** val ends_nonblank : bytes -> bool **)

let ends_nonblank c =
  match rev c with
  | [] -> true
  | z0 :: r ->
    (&&) (negb (N.leb z0 (Npos (XO (XO (XO (XO (XO XH))))))))
      (negb
        (match r with
         | [] -> false
         | y :: l ->
           (match l with
            | [] -> false
            | x :: _ ->
              (&&)
                ((&&) (N.eqb x (Npos (XI (XI (XO (XO (XO (XI (XI XH)))))))))
                  (N.eqb y (Npos (XO (XO (XO (XO (XO (XO (XO XH))))))))))
                (N.eqb z0 (Npos (XO (XO (XO (XO (XO (XO (XO XH))))))))))))

type tree =
| Tree of section list
and section =
| Flat of bool * nat * nat
| Nested of tree list

type itok = nat * rawTokenType

(** val enumerate_from : nat -> rawTokenType list -> itok list **)

let rec enumerate_from i = function
| [] -> []
| t :: r -> (i, t) :: (enumerate_from (S i) r)

(** val cd_kind : rawTokenType -> conditionalDirectiveKind option **)

let cd_kind = function
| RTT_ConditionalDirective k -> Some k
| _ -> None

(** val parse_flat_go :
    nat option -> (nat * nat) -> itok list ->
    ((nat * nat) * conditionalDirectiveKind option) * itok list **)

let rec parse_flat_go start range = function
| [] -> ((range, None), [])
| i :: r ->
  let (idx, ty) = i in
  (match cd_kind ty with
   | Some cdk -> ((range, (Some cdk)), r)
   | None ->
     let s = match start with
             | Some s -> s
             | None -> idx in
     parse_flat_go (Some s) (s, (add idx (S O))) r)

(** val parse_flat :
    itok list -> (section * conditionalDirectiveKind option) * itok list **)

let parse_flat toks =
  let (p, r) = parse_flat_go None (O, O) toks in
  let (range, cdk) = p in (((Flat (false, (fst range), (snd range))), cdk), r)

(** val parse_sections :
    nat -> bool -> itok list -> ((section list * conditionalDirectiveKind
    option) * itok list) option **)

let rec parse_sections fuel top_level toks =
  match fuel with
  | O -> None
  | S f ->
    let (p, toks1) = parse_flat toks in
    let (flat, cdk) = p in
    (match cdk with
     | Some k ->
       if conditionalDirectiveKind_is_if k
       then (match parse_branches f toks1 with
             | Some p0 ->
               let (branches, toks2) = p0 in
               (match parse_sections f top_level toks2 with
                | Some p1 ->
                  let (p2, toks3) = p1 in
                  let (rest, c) = p2 in
                  Some (((flat :: ((Nested branches) :: rest)), c), toks3)
                | None -> None)
             | None -> None)
       else if top_level
            then (match parse_sections f top_level toks1 with
                  | Some p0 ->
                    let (p1, toks3) = p0 in
                    let (rest, c) = p1 in Some (((flat :: rest), c), toks3)
                  | None -> None)
            else Some (((flat :: []), cdk), toks1)
     | None -> Some (((flat :: []), None), toks1))

(** val parse_branches :
    nat -> itok list -> (tree list * itok list) option **)

and parse_branches fuel toks =
  match fuel with
  | O -> None
  | S f ->
    (match parse_sections f false toks with
     | Some p ->
       let (p0, toks1) = p in
       let (secs, cdk) = p0 in
       if match cdk with
          | Some k -> conditionalDirectiveKind_is_else k
          | None -> false
       then (match parse_branches f toks1 with
             | Some p1 ->
               let (rest, toks2) = p1 in Some (((Tree secs) :: rest), toks2)
             | None -> None)
       else Some (((Tree secs) :: []), toks1)
     | None -> None)

(** val parse_next :
    nat -> bool -> itok list -> ((tree * conditionalDirectiveKind
    option) * itok list) option **)

let parse_next fuel top_level toks =
  match parse_sections fuel top_level toks with
  | Some p ->
    let (p0, r) = p in let (secs, cdk) = p0 in Some (((Tree secs), cdk), r)
  | None -> None

(** val parse_fuel : rawTokenType list -> nat **)

let parse_fuel l =
  add (mul (S (S O)) (length l)) (S O)

(** val parse_opt : rawTokenType list -> tree option **)

let parse_opt l =
  match parse_next (parse_fuel l) true (enumerate_from O l) with
  | Some p -> let (p0, _) = p in let (t, _) = p0 in Some t
  | None -> None

(** val parse : rawTokenType list -> tree **)

let parse l =
  match parse_opt l with
  | Some t -> t
  | None -> Tree []

(** val explored : tree -> bool **)

let rec explored = function
| Tree ss -> forallb explored_section ss

(** val explored_section : section -> bool **)

and explored_section = function
| Flat (e, _, _) -> e
| Nested bs -> forallb explored bs

(** val pass_all :
    ('a1 -> 'a1 * nat list) -> 'a1 list -> 'a1 list * nat list **)

let rec pass_all f = function
| [] -> ([], [])
| a :: r ->
  let (a', p1) = f a in
  let (r', p2) = pass_all f r in ((a' :: r'), (app p1 p2))

(** val pass_find_or_last :
    ('a1 -> 'a1 * nat list) -> ('a1 -> bool) -> 'a1 list -> 'a1 list * nat
    list **)

let rec pass_find_or_last f pred = function
| [] -> ([], [])
| a :: r ->
  if pred a
  then let (a', p) = f a in ((a' :: r), p)
  else (match r with
        | [] -> let (a', p) = f a in ((a' :: []), p)
        | _ :: _ -> let (r', p) = pass_find_or_last f pred r in ((a :: r'), p))

(** val range_list : nat -> nat -> nat list **)

let range_list start stop =
  seq start (sub stop start)

(** val pass_tree : tree -> tree * nat list **)

let rec pass_tree = function
| Tree ss -> let (ss', p) = pass_all pass_section ss in ((Tree ss'), p)

(** val pass_section : section -> section * nat list **)

and pass_section = function
| Flat (_, a, b) -> ((Flat (true, a, b)), (range_list a b))
| Nested bs ->
  let (bs', p) = pass_find_or_last pass_tree (fun g -> negb (explored g)) bs
  in
  ((Nested bs'), p)

(** val passes_opt : tree -> nat -> nat list list option **)

let rec passes_opt t = function
| O -> None
| S f ->
  let (t', p) = pass_tree t in
  if explored t'
  then Some (p :: [])
  else (match passes_opt t' f with
        | Some ps -> Some (p :: ps)
        | None -> None)

(** val passes : tree -> nat -> nat list list **)

let passes t fuel =
  match passes_opt t fuel with
  | Some ps -> ps
  | None -> []

type flat_entry = bool * (nat * nat)

(** val flat_list : tree -> flat_entry list **)

let rec flat_list = function
| Tree ss -> flat_map flat_list_section ss

(** val flat_list_section : section -> flat_entry list **)

and flat_list_section = function
| Flat (e, a, b) -> (e, (a, b)) :: []
| Nested bs -> flat_map flat_list bs

(** val nflat : tree -> nat **)

let nflat t =
  length (flat_list t)

(** val passes_fuel : tree -> nat **)

let passes_fuel t =
  S (nflat t)

(** val all_passes : rawTokenType list -> nat list list **)

let all_passes l =
  let t = parse l in passes t (passes_fuel t)

(** val blen : bytes -> n **)

let blen l =
  N.of_nat (length l)

(** val u16 : n -> n **)

let u16 n0 =
  N.modulo n0 (Npos (XO (XO (XO (XO (XO (XO (XO (XO (XO (XO (XO (XO (XO (XO
    (XO (XO XH)))))))))))))))))

(** val u32 : n -> n **)

let u32 n0 =
  N.modulo n0 (Npos (XO (XO (XO (XO (XO (XO (XO (XO (XO (XO (XO (XO (XO (XO
    (XO (XO (XO (XO (XO (XO (XO (XO (XO (XO (XO (XO (XO (XO (XO (XO (XO (XO
    XH)))))))))))))))))))))))))))))))))

(** val u32z : z -> n **)

let u32z z0 =
  Z.to_N
    (Z.modulo z0 (Zpos (XO (XO (XO (XO (XO (XO (XO (XO (XO (XO (XO (XO (XO
      (XO (XO (XO (XO (XO (XO (XO (XO (XO (XO (XO (XO (XO (XO (XO (XO (XO (XO
      (XO XH))))))))))))))))))))))))))))))))))

(** val count_lf : bytes -> n **)

let rec count_lf = function
| [] -> N0
| b :: t ->
  N.add (if N.eqb b (Npos (XO (XI (XO XH)))) then Npos XH else N0)
    (count_lf t)

(** val rfind_lf : bytes -> n option **)

let rec rfind_lf = function
| [] -> None
| b :: t ->
  (match rfind_lf t with
   | Some p -> Some (N.add p (Npos XH))
   | None -> if N.eqb b (Npos (XO (XI (XO XH)))) then Some N0 else None)

(** val first_line_len : bytes -> n **)

let rec first_line_len = function
| [] -> N0
| b :: t ->
  if N.eqb b (Npos (XO (XI (XO XH))))
  then N0
  else N.add (Npos XH) (first_line_len t)

(** val split_lf : bytes -> bytes list **)

let rec split_lf = function
| [] -> [] :: []
| b :: t ->
  if N.eqb b (Npos (XO (XI (XO XH))))
  then [] :: (split_lf t)
  else (match split_lf t with
        | [] -> (b :: []) :: []
        | s :: r -> (b :: s) :: r)

(** val nsum : n list -> n **)

let rec nsum = function
| [] -> N0
| a :: t -> N.add a (nsum t)

(** val last_opt : 'a1 list -> 'a1 option **)

let last_opt l =
  match rev l with
  | [] -> None
  | a :: _ -> Some a

(** val is_char_boundary : bytes -> nat -> bool **)

let is_char_boundary l k = match k with
| O -> true
| S _ ->
  (match nth_error l k with
   | Some b -> negb (is_cont b)
   | None -> Nat.eqb k (length l))

type rtok = (bytes * bytes) * rawTokenType

(** val r_ws : rtok -> bytes **)

let r_ws t =
  fst (fst t)

(** val r_content : rtok -> bytes **)

let r_content t =
  snd (fst t)

(** val r_ty : rtok -> rawTokenType **)

let r_ty =
  snd

(** val r_str : rtok -> bytes **)

let r_str t =
  app (r_ws t) (r_content t)

type tokpos =
| PContent of n
| PMultiline of n * n
| PWhitespace of n * n

(** val is_multiline_raw : rawTokenType -> bool **)

let is_multiline_raw = function
| RTT_TextLiteral k -> (match k with
                        | TK_MultiLine -> true
                        | _ -> false)
| RTT_Comment k -> (match k with
                    | CoK_MultilineBlock -> true
                    | _ -> false)
| _ -> false

(** val find_cursor : rtok list -> nat -> z -> ((nat * rtok) * z) option **)

let rec find_cursor toks idx rem =
  match toks with
  | [] -> None
  | t :: r ->
    let next_len = Z.of_N (blen (r_str t)) in
    if Z.leb rem next_len
    then Some ((idx, t), (Z.sub rem (Z.of_N (blen (r_ws t)))))
    else find_cursor r (S idx) (Z.sub rem next_len)

(** val col_back_pre : rtok list -> n **)

let rec col_back_pre = function
| [] -> N0
| t :: r ->
  let s = r_str t in
  (match rfind_lf s with
   | Some pos -> N.sub (blen s) (N.add pos (Npos XH))
   | None -> N.add (blen s) (col_back_pre r))

(** val col_for_token_end_pre_fmt : rtok list -> nat -> n **)

let col_for_token_end_pre_fmt toks idx1 =
  col_back_pre (rev (firstn idx1 toks))

(** val tokpos_of : rtok list -> nat -> rtok -> z -> tokpos **)

let tokpos_of toks idx t tp =
  if Z.leb Z0 tp
  then if is_multiline_raw (r_ty t)
       then let after = skipn (Z.to_nat tp) (r_content t) in
            PMultiline ((u16 (first_line_len after)), (u16 (count_lf after)))
       else PContent (u32z tp)
  else let ws = r_ws t in
       let k = Z.to_nat (Z.max Z0 (Z.add (Z.of_N (blen ws)) tp)) in
       let before = firstn k ws in
       let after = skipn k ws in
       let nla = u16 (count_lf after) in
       let col =
         match rfind_lf before with
         | Some pos -> N.sub (N.sub (blen before) (Npos XH)) pos
         | None -> N.add (blen before) (col_for_token_end_pre_fmt toks idx)
       in
       PWhitespace ((u16 col), nla)

(** val process_cursor : rtok list -> n -> nat * tokpos **)

let process_cursor toks c =
  match find_cursor toks O (Z.of_N c) with
  | Some p ->
    let (p0, tp) = p in let (idx, t) = p0 in (idx, (tokpos_of toks idx t tp))
  | None -> ((length toks), (PContent N0))

(** val process_cursor_ok : rtok list -> n -> bool **)

let process_cursor_ok toks c =
  match find_cursor toks O (Z.of_N c) with
  | Some p ->
    let (p0, tp) = p in
    let (_, t) = p0 in
    if Z.leb Z0 tp
    then if is_multiline_raw (r_ty t)
         then is_char_boundary (r_content t) (Z.to_nat tp)
         else true
    else is_char_boundary (r_ws t)
           (Z.to_nat (Z.max Z0 (Z.add (Z.of_N (blen (r_ws t))) tp)))
  | None -> true

(** val nl_len : rsettings -> n **)

let nl_len rs =
  blen rs.rs_newline

(** val nonbreaking_ws_len : rsettings -> ftoken -> n * bool **)

let nonbreaking_ws_len rs = function
| (tok0, f) ->
  if f.f_ignored
  then let ws = tok0.t_ws in
       (match rfind_lf ws with
        | Some pos -> ((N.sub (blen ws) (N.add pos (Npos XH))), true)
        | None -> ((blen ws), false))
  else ((N.add (N.add f.f_sp (N.mul f.f_cont (blen rs.rs_cont)))
          (N.mul f.f_ind (blen rs.rs_indent))), (N.ltb N0 f.f_nl))

(** val ws_len : rsettings -> ftoken -> n **)

let ws_len rs p = match p with
| (tok0, f) ->
  if f.f_ignored
  then blen tok0.t_ws
  else N.add (fst (nonbreaking_ws_len rs p)) (N.mul f.f_nl (nl_len rs))

(** val col_back_post : rsettings -> ftoken list -> n **)

let rec col_back_post rs = function
| [] -> N0
| p :: r ->
  let c = (fst p).t_content in
  (match rfind_lf c with
   | Some pos -> N.sub (blen c) (N.add pos (Npos XH))
   | None ->
     let (len, break_found) = nonbreaking_ws_len rs p in
     N.add (N.add (blen c) len)
       (if break_found then N0 else col_back_post rs r))

(** val col_for_token_end_post_fmt : rsettings -> ftoken list -> nat -> n **)

let col_for_token_end_post_fmt rs toks idx1 =
  col_back_post rs (rev (firstn idx1 toks))

(** val offset_for_token : rsettings -> ftoken list -> nat -> n **)

let rec offset_for_token rs toks idx =
  match toks with
  | [] -> N0
  | p :: r ->
    N.add (ws_len rs p)
      (match idx with
       | O -> N0
       | S j -> N.add (blen (fst p).t_content) (offset_for_token rs r j))

(** val offset_from_end : bytes -> n -> n -> n **)

let offset_from_end content rc nla =
  N.add
    (nsum
      (map (fun line -> N.add (blen line) (Npos XH))
        (firstn (N.to_nat nla) (rev (split_lf content))))) rc

(** val relocate_target :
    ftoken list -> nat -> tokpos -> (ftoken * tokpos) option **)

let relocate_target toks idx pos =
  match nth_error toks idx with
  | Some p -> Some (p, pos)
  | None ->
    (match last_opt toks with
     | Some p -> Some (p, (PContent (u32 (blen (fst p).t_content))))
     | None -> None)

(** val lines_back : n -> n -> n **)

let lines_back nl nla =
  let lb = N.min nla nl in
  if (&&) (N.leb nl nla) (N.ltb (Npos XH) nl) then N.sub lb (Npos XH) else lb

(** val lf_positions_from : n -> bytes -> n list **)

let rec lf_positions_from i = function
| [] -> []
| b :: t ->
  if N.eqb b (Npos (XO (XI (XO XH))))
  then i :: (lf_positions_from (N.add i (Npos XH)) t)
  else lf_positions_from (N.add i (Npos XH)) t

(** val kept_len_ignored : bytes -> nat -> n **)

let kept_len_ignored ws k =
  match last_opt (firstn k (lf_positions_from N0 ws)) with
  | Some pos -> N.add pos (Npos XH)
  | None -> N0

(** val kept_len : rsettings -> ftoken -> n -> n **)

let kept_len rs p nla =
  let nl = (snd p).f_nl in
  let kept_breaks = N.sub nl (lines_back nl nla) in
  if (snd p).f_ignored
  then kept_len_ignored (fst p).t_ws (N.to_nat kept_breaks)
  else N.mul (nl_len rs) kept_breaks

(** val clamp : n -> n -> n -> n **)

let clamp x lo hi =
  if N.ltb x lo then lo else if N.ltb hi x then hi else x

(** val relocate_at :
    rsettings -> ftoken list -> nat -> ftoken -> tokpos -> z **)

let relocate_at rs toks idx p pos =
  let nto = Z.of_N (offset_for_token rs toks idx) in
  let clen = blen (fst p).t_content in
  (match pos with
   | PContent off -> Z.add nto (Z.of_N (N.min off (u32 clen)))
   | PMultiline (rc, nla) ->
     let ofe = offset_from_end (fst p).t_content rc nla in
     Z.sub (Z.add nto (Z.of_N clen)) (Z.of_N (N.min ofe clen))
   | PWhitespace (col, nla) ->
     let nl = (snd p).f_nl in
     if N.ltb N0 (N.min nla nl)
     then Z.sub (Z.add nto (Z.of_N (kept_len rs p nla)))
            (Z.of_N (ws_len rs p))
     else let (wl, break_found) = nonbreaking_ws_len rs p in
          let col_ws_start =
            if break_found then N0 else col_for_token_end_post_fmt rs toks idx
          in
          let col_start = N.add col_ws_start wl in
          Z.sub nto
            (Z.sub (Z.of_N col_start)
              (Z.of_N (clamp col col_ws_start col_start))))

(** val relocate : rsettings -> ftoken list -> nat -> tokpos -> z option **)

let relocate rs toks idx pos =
  match relocate_target toks idx pos with
  | Some p0 -> let (p, pos') = p0 in Some (relocate_at rs toks idx p pos')
  | None -> None

(** val track_cursor :
    rsettings -> rtok list -> ftoken list -> n -> z option **)

let track_cursor rs raw final c =
  let (idx, pos) = process_cursor raw c in relocate rs final idx pos

(** val track_cursor_u32 : rsettings -> rtok list -> ftoken list -> n -> n **)

let track_cursor_u32 rs raw final c =
  match track_cursor rs raw final c with
  | Some z0 -> u32z z0
  | None -> c

(** val is_lf : byte -> bool **)

let is_lf b =
  N.eqb b (Npos (XO (XI (XO XH))))

(** val is_cr : byte -> bool **)

let is_cr b =
  N.eqb b (Npos (XI (XO (XI XH))))

(** val is_term : byte -> bool **)

let is_term b =
  (||) (is_cr b) (is_lf b)

(** val is_quote : byte -> bool **)

let is_quote b =
  N.eqb b (Npos (XI (XI (XI (XO (XO XH))))))

(** val cons_to_first : byte -> bytes list -> bytes list **)

let cons_to_first b = function
| [] -> (b :: []) :: []
| p :: ps' -> (b :: p) :: ps'

(** val ml_drop_while : (byte -> bool) -> bytes -> bytes **)

let rec ml_drop_while p l = match l with
| [] -> []
| a :: t -> if p a then ml_drop_while p t else l

(** val trim_start_by : (byte -> bool) -> bytes -> bytes **)

let trim_start_by =
  ml_drop_while

(** val trim_end_by : (byte -> bool) -> bytes -> bytes **)

let trim_end_by p l =
  rev (ml_drop_while p (rev l))

(** val trim_by : (byte -> bool) -> bytes -> bytes **)

let trim_by p l =
  trim_end_by p (trim_start_by p l)

(** val ml_strip_prefix : bytes -> bytes -> bytes option **)

let ml_strip_prefix p l =
  if is_prefix p l then Some (skipn (length p) l) else None

(** val is_nil : 'a1 list -> bool **)

let is_nil = function
| [] -> true
| _ :: _ -> false

(** val split_incl_custom : bool -> bytes -> bytes list **)

let rec split_incl_custom skip = function
| [] -> []
| c :: t ->
  if (&&) skip (is_lf c)
  then cons_to_first c (split_incl_custom false t)
  else if is_term c
       then (c :: []) :: (split_incl_custom (is_cr c) t)
       else cons_to_first c (split_incl_custom false t)

(** val lines_custom : bytes -> bytes list **)

let lines_custom input =
  map (trim_by is_term) (split_incl_custom false input)

(** val last_opt0 : 'a1 list -> 'a1 option **)

let rec last_opt0 = function
| [] -> None
| a :: t -> (match t with
             | [] -> Some a
             | _ :: _ -> last_opt0 t)

(** val is_u3000 : byte -> byte -> byte -> bool **)

let is_u3000 a b c =
  (&&)
    ((&&) (N.eqb a (Npos (XI (XI (XO (XO (XO (XI (XI XH)))))))))
      (N.eqb b (Npos (XO (XO (XO (XO (XO (XO (XO XH))))))))))
    (N.eqb c (Npos (XO (XO (XO (XO (XO (XO (XO XH)))))))))

(** val count_leading_whitespace : bytes -> nat **)

let rec count_leading_whitespace = function
| [] -> O
| a :: t ->
  if N.leb a (Npos (XO (XO (XO (XO (XO XH))))))
  then S (count_leading_whitespace t)
  else (match t with
        | [] -> O
        | b :: l0 ->
          (match l0 with
           | [] -> O
           | c :: t' ->
             if is_u3000 a b c
             then S (S (S (count_leading_whitespace t')))
             else O))

(** val ml_indent : rsettings -> n -> n -> bytes **)

let ml_indent rs ind cont =
  app (nrepeat ind rs.rs_indent) (nrepeat cont rs.rs_cont)

(** val rewrite_line : bytes -> bytes -> bytes -> bytes option **)

let rewrite_line indent base line =
  match ml_strip_prefix base line with
  | Some stripped ->
    Some (if is_nil stripped then [] else app indent stripped)
  | None -> if is_prefix line base then Some [] else None

(** val rewrite_lines :
    bytes -> bytes -> bytes -> bytes list -> bytes option **)

let rec rewrite_lines nl indent base = function
| [] -> Some []
| l :: t ->
  (match rewrite_line indent base l with
   | Some x ->
     (match rewrite_lines nl indent base t with
      | Some r -> Some (app nl (app x r))
      | None -> None)
   | None -> None)

(** val try_rewrite_string :
    rsettings -> n -> n -> bytes -> bytes -> bytes option **)

let try_rewrite_string rs ind cont original base_indentation =
  match lines_custom original with
  | [] -> Some []
  | l0 :: rest ->
    (match rewrite_lines rs.rs_newline (ml_indent rs ind cont)
             base_indentation rest with
     | Some r -> Some (app l0 r)
     | None -> None)

(** val leading_ws : bytes -> bytes **)

let leading_ws l =
  firstn (count_leading_whitespace l) l

(** val ml_base_of_last_line : bytes -> bytes option **)

let ml_base_of_last_line last_line =
  let base = leading_ws last_line in
  if Nat.eqb (length base) (length (trim_end_by is_quote last_line))
  then Some base
  else None

(** val rewrite_ml_token : rsettings -> n -> n -> bytes -> bytes option **)

let rewrite_ml_token rs ind cont content =
  match last_opt0 (lines_custom content) with
  | Some last_line ->
    (match ml_base_of_last_line last_line with
     | Some base ->
       (match try_rewrite_string rs ind cont content base with
        | Some new0 -> if bytes_eqb new0 content then None else Some new0
        | None -> None)
     | None -> None)
  | None -> None

(** val line_ok : n list -> n list -> bool **)

let line_ok base l =
  (||) (is_prefix base l) (is_prefix l base)

(** val strip_indent : n list -> n list -> n list **)

let strip_indent base l =
  match ml_strip_prefix base l with
  | Some s -> s
  | None -> if is_prefix l base then [] else l

(** val closing_line : n list -> n list **)

let closing_line c =
  last (lines_custom c) []

(** val closing_indent : n list -> n list **)

let closing_indent c =
  leading_ws (closing_line c)

(** val interior : n list -> n list list **)

let interior c =
  removelast (tl (lines_custom c))

(** val ml_value : n list -> n list list **)

let ml_value c =
  map (strip_indent (closing_indent c)) (interior c)

(** val eligible : n list -> bool **)

let eligible c =
  (&&)
    (Nat.eqb (count_leading_whitespace (closing_line c))
      (length (trim_end_by is_quote (closing_line c))))
    (forallb (line_ok (closing_indent c)) (interior c))

type lline = { ll_type : logicalLineType; ll_level : n;
               ll_parent : (nat * nat) option; ll_toks : nat list }

(** val strictly_increasing : nat list -> bool **)

let rec strictly_increasing = function
| [] -> true
| a :: t ->
  (match t with
   | [] -> true
   | b :: _ -> (&&) (Nat.ltb a b) (strictly_increasing t))

(** val line_ok0 : nat -> lline -> bool **)

let line_ok0 ntok l =
  match l.ll_toks with
  | [] -> false
  | _ :: _ ->
    (&&) (strictly_increasing l.ll_toks)
      (forallb (fun i -> Nat.ltb i ntok) l.ll_toks)

(** val count_in_lines : lline list -> nat -> nat **)

let count_in_lines lines i =
  fold_left (fun acc l ->
    if existsb (Nat.eqb i) l.ll_toks then S acc else acc) lines O

(** val is_cond_directive : tokenType -> bool **)

let is_cond_directive = function
| TT_ConditionalDirective _ -> true
| _ -> false

(** val lines_cover : tokenType list -> lline list -> bool **)

let lines_cover tys lines =
  let n0 = length tys in
  let nodir = negb (existsb is_cond_directive tys) in
  (&&) (forallb (line_ok0 n0) lines)
    (forallb (fun i ->
      let k = count_in_lines lines i in
      (&&) (Nat.leb (S O) k) (if nodir then Nat.eqb k (S O) else true))
      (seq O n0))

(** val parents_ok_from : lline list -> nat -> lline list -> bool **)

let rec parents_ok_from all i = function
| [] -> true
| l :: r ->
  (&&)
    (match l.ll_parent with
     | Some p ->
       let (pl, pt) = p in
       (&&) (Nat.ltb pl i)
         (match nth_error all pl with
          | Some p0 -> existsb (Nat.eqb pt) p0.ll_toks
          | None -> false)
     | None -> true) (parents_ok_from all (S i) r)

(** val parents_ok : lline list -> bool **)

let parents_ok lines =
  parents_ok_from lines O lines

(** val eof_line_ok : tokenType list -> lline list -> bool **)

let eof_line_ok tys lines =
  let n0 = length tys in
  (&&)
    (match filter (fun l ->
             match l.ll_type with
             | LLT_Eof -> true
             | _ -> false) lines with
     | [] -> false
     | l :: l0 ->
       (match l0 with
        | [] ->
          (match l.ll_toks with
           | [] -> false
           | i :: l1 ->
             (match l1 with
              | [] ->
                (&&) (Nat.eqb (S i) n0)
                  (match nth_error tys i with
                   | Some t -> (match t with
                                | TT_Eof -> true
                                | _ -> false)
                   | None -> false)
              | _ :: _ -> false))
        | _ :: _ -> false))
    (forallb (fun l ->
      match l.ll_type with
      | LLT_Eof -> true
      | _ -> negb (existsb (fun i -> Nat.eqb (S i) n0) l.ll_toks)) lines)

(** val kEYWORDS_gen : (n list * rawTokenType) list **)

let kEYWORDS_gen =
  (((Npos (XI (XO (XO (XO (XO (XI XH))))))) :: ((Npos (XO (XI (XO (XO (XO (XI
    XH))))))) :: ((Npos (XI (XI (XO (XO (XI (XI XH))))))) :: ((Npos (XI (XI
    (XI (XI (XO (XI XH))))))) :: ((Npos (XO (XO (XI (XI (XO (XI
    XH))))))) :: ((Npos (XI (XO (XI (XO (XI (XI XH))))))) :: ((Npos (XO (XO
    (XI (XO (XI (XI XH))))))) :: ((Npos (XI (XO (XI (XO (XO (XI
    XH))))))) :: [])))))))), (RTT_IdentifierOrKeyword
    KK_Absolute)) :: ((((Npos (XI (XO (XO (XO (XO (XI XH))))))) :: ((Npos (XO
    (XI (XO (XO (XO (XI XH))))))) :: ((Npos (XI (XI (XO (XO (XI (XI
    XH))))))) :: ((Npos (XO (XO (XI (XO (XI (XI XH))))))) :: ((Npos (XO (XI
    (XO (XO (XI (XI XH))))))) :: ((Npos (XI (XO (XO (XO (XO (XI
    XH))))))) :: ((Npos (XI (XI (XO (XO (XO (XI XH))))))) :: ((Npos (XO (XO
    (XI (XO (XI (XI XH))))))) :: [])))))))), (RTT_IdentifierOrKeyword
    KK_Abstract)) :: ((((Npos (XI (XO (XO (XO (XO (XI XH))))))) :: ((Npos (XO
    (XO (XI (XI (XO (XI XH))))))) :: ((Npos (XI (XO (XO (XI (XO (XI
    XH))))))) :: ((Npos (XI (XI (XI (XO (XO (XI XH))))))) :: ((Npos (XO (XI
    (XI (XI (XO (XI XH))))))) :: []))))), (RTT_IdentifierOrKeyword
    KK_Align)) :: ((((Npos (XI (XO (XO (XO (XO (XI XH))))))) :: ((Npos (XO
    (XI (XI (XI (XO (XI XH))))))) :: ((Npos (XO (XO (XI (XO (XO (XI
    XH))))))) :: []))), (RTT_Keyword KK_And)) :: ((((Npos (XI (XO (XO (XO (XO
    (XI XH))))))) :: ((Npos (XO (XI (XO (XO (XI (XI XH))))))) :: ((Npos (XO
    (XI (XO (XO (XI (XI XH))))))) :: ((Npos (XI (XO (XO (XO (XO (XI
    XH))))))) :: ((Npos (XI (XO (XO (XI (XI (XI XH))))))) :: []))))),
    (RTT_Keyword KK_Array)) :: ((((Npos (XI (XO (XO (XO (XO (XI
    XH))))))) :: ((Npos (XI (XI (XO (XO (XI (XI XH))))))) :: [])),
    (RTT_Keyword KK_As)) :: ((((Npos (XI (XO (XO (XO (XO (XI
    XH))))))) :: ((Npos (XI (XI (XO (XO (XI (XI XH))))))) :: ((Npos (XI (XO
    (XI (XI (XO (XI XH))))))) :: []))), (RTT_Keyword KK_Asm)) :: ((((Npos (XI
    (XO (XO (XO (XO (XI XH))))))) :: ((Npos (XI (XI (XO (XO (XI (XI
    XH))))))) :: ((Npos (XI (XI (XO (XO (XI (XI XH))))))) :: ((Npos (XI (XO
    (XI (XO (XO (XI XH))))))) :: ((Npos (XI (XO (XI (XI (XO (XI
    XH))))))) :: ((Npos (XO (XI (XO (XO (XO (XI XH))))))) :: ((Npos (XO (XO
    (XI (XI (XO (XI XH))))))) :: ((Npos (XI (XO (XI (XO (XO (XI
    XH))))))) :: ((Npos (XO (XI (XO (XO (XI (XI XH))))))) :: []))))))))),
    (RTT_IdentifierOrKeyword KK_Assembler)) :: ((((Npos (XI (XO (XO (XO (XO
    (XI XH))))))) :: ((Npos (XO (XO (XI (XO (XI (XI XH))))))) :: [])),
    (RTT_IdentifierOrKeyword KK_At)) :: ((((Npos (XI (XO (XO (XO (XO (XI
    XH))))))) :: ((Npos (XI (XO (XI (XO (XI (XI XH))))))) :: ((Npos (XO (XO
    (XI (XO (XI (XI XH))))))) :: ((Npos (XI (XI (XI (XI (XO (XI
    XH))))))) :: ((Npos (XI (XO (XI (XI (XO (XI XH))))))) :: ((Npos (XI (XO
    (XO (XO (XO (XI XH))))))) :: ((Npos (XO (XO (XI (XO (XI (XI
    XH))))))) :: ((Npos (XI (XO (XI (XO (XO (XI XH))))))) :: ((Npos (XO (XO
    (XI (XO (XO (XI XH))))))) :: []))))))))), (RTT_IdentifierOrKeyword
    KK_Automated)) :: ((((Npos (XO (XI (XO (XO (XO (XI XH))))))) :: ((Npos
    (XI (XO (XI (XO (XO (XI XH))))))) :: ((Npos (XI (XI (XI (XO (XO (XI
    XH))))))) :: ((Npos (XI (XO (XO (XI (XO (XI XH))))))) :: ((Npos (XO (XI
    (XI (XI (XO (XI XH))))))) :: []))))), (RTT_Keyword KK_Begin)) :: ((((Npos
    (XI (XI (XO (XO (XO (XI XH))))))) :: ((Npos (XI (XO (XO (XO (XO (XI
    XH))))))) :: ((Npos (XI (XI (XO (XO (XI (XI XH))))))) :: ((Npos (XI (XO
    (XI (XO (XO (XI XH))))))) :: [])))), (RTT_Keyword KK_Case)) :: ((((Npos
    (XI (XI (XO (XO (XO (XI XH))))))) :: ((Npos (XO (XO (XI (XO (XO (XI
    XH))))))) :: ((Npos (XI (XO (XI (XO (XO (XI XH))))))) :: ((Npos (XI (XI
    (XO (XO (XO (XI XH))))))) :: ((Npos (XO (XO (XI (XI (XO (XI
    XH))))))) :: []))))), (RTT_IdentifierOrKeyword KK_Cdecl)) :: ((((Npos (XI
    (XI (XO (XO (XO (XI XH))))))) :: ((Npos (XO (XO (XI (XI (XO (XI
    XH))))))) :: ((Npos (XI (XO (XO (XO (XO (XI XH))))))) :: ((Npos (XI (XI
    (XO (XO (XI (XI XH))))))) :: ((Npos (XI (XI (XO (XO (XI (XI
    XH))))))) :: []))))), (RTT_Keyword KK_Class)) :: ((((Npos (XI (XI (XO (XO
    (XO (XI XH))))))) :: ((Npos (XI (XI (XI (XI (XO (XI XH))))))) :: ((Npos
    (XO (XI (XI (XI (XO (XI XH))))))) :: ((Npos (XI (XI (XO (XO (XI (XI
    XH))))))) :: ((Npos (XO (XO (XI (XO (XI (XI XH))))))) :: []))))),
    (RTT_Keyword (KK_Const DK_Other))) :: ((((Npos (XI (XI (XO (XO (XO (XI
    XH))))))) :: ((Npos (XI (XI (XI (XI (XO (XI XH))))))) :: ((Npos (XO (XI
    (XI (XI (XO (XI XH))))))) :: ((Npos (XI (XI (XO (XO (XI (XI
    XH))))))) :: ((Npos (XO (XO (XI (XO (XI (XI XH))))))) :: ((Npos (XO (XI
    (XO (XO (XI (XI XH))))))) :: ((Npos (XI (XO (XI (XO (XI (XI
    XH))))))) :: ((Npos (XI (XI (XO (XO (XO (XI XH))))))) :: ((Npos (XO (XO
    (XI (XO (XI (XI XH))))))) :: ((Npos (XI (XI (XI (XI (XO (XI
    XH))))))) :: ((Npos (XO (XI (XO (XO (XI (XI XH))))))) :: []))))))))))),
    (RTT_Keyword KK_Constructor)) :: ((((Npos (XI (XI (XO (XO (XO (XI
    XH))))))) :: ((Npos (XI (XI (XI (XI (XO (XI XH))))))) :: ((Npos (XO (XI
    (XI (XI (XO (XI XH))))))) :: ((Npos (XO (XO (XI (XO (XI (XI
    XH))))))) :: ((Npos (XI (XO (XO (XO (XO (XI XH))))))) :: ((Npos (XI (XO
    (XO (XI (XO (XI XH))))))) :: ((Npos (XO (XI (XI (XI (XO (XI
    XH))))))) :: ((Npos (XI (XI (XO (XO (XI (XI XH))))))) :: [])))))))),
    (RTT_IdentifierOrKeyword KK_Contains)) :: ((((Npos (XO (XO (XI (XO (XO
    (XI XH))))))) :: ((Npos (XI (XO (XI (XO (XO (XI XH))))))) :: ((Npos (XO
    (XI (XI (XO (XO (XI XH))))))) :: ((Npos (XI (XO (XO (XO (XO (XI
    XH))))))) :: ((Npos (XI (XO (XI (XO (XI (XI XH))))))) :: ((Npos (XO (XO
    (XI (XI (XO (XI XH))))))) :: ((Npos (XO (XO (XI (XO (XI (XI
    XH))))))) :: []))))))), (RTT_IdentifierOrKeyword KK_Default)) :: ((((Npos
    (XO (XO (XI (XO (XO (XI XH))))))) :: ((Npos (XI (XO (XI (XO (XO (XI
    XH))))))) :: ((Npos (XO (XO (XI (XI (XO (XI XH))))))) :: ((Npos (XI (XO
    (XO (XO (XO (XI XH))))))) :: ((Npos (XI (XO (XO (XI (XI (XI
    XH))))))) :: ((Npos (XI (XO (XI (XO (XO (XI XH))))))) :: ((Npos (XO (XO
    (XI (XO (XO (XI XH))))))) :: []))))))), (RTT_IdentifierOrKeyword
    KK_Delayed)) :: ((((Npos (XO (XO (XI (XO (XO (XI XH))))))) :: ((Npos (XI
    (XO (XI (XO (XO (XI XH))))))) :: ((Npos (XO (XO (XO (XO (XI (XI
    XH))))))) :: ((Npos (XO (XI (XO (XO (XI (XI XH))))))) :: ((Npos (XI (XO
    (XI (XO (XO (XI XH))))))) :: ((Npos (XI (XI (XO (XO (XO (XI
    XH))))))) :: ((Npos (XI (XO (XO (XO (XO (XI XH))))))) :: ((Npos (XO (XO
    (XI (XO (XI (XI XH))))))) :: ((Npos (XI (XO (XI (XO (XO (XI
    XH))))))) :: ((Npos (XO (XO (XI (XO (XO (XI XH))))))) :: [])))))))))),
    (RTT_IdentifierOrKeyword KK_Deprecated)) :: ((((Npos (XO (XO (XI (XO (XO
    (XI XH))))))) :: ((Npos (XI (XO (XI (XO (XO (XI XH))))))) :: ((Npos (XI
    (XI (XO (XO (XI (XI XH))))))) :: ((Npos (XO (XO (XI (XO (XI (XI
    XH))))))) :: ((Npos (XO (XI (XO (XO (XI (XI XH))))))) :: ((Npos (XI (XO
    (XI (XO (XI (XI XH))))))) :: ((Npos (XI (XI (XO (XO (XO (XI
    XH))))))) :: ((Npos (XO (XO (XI (XO (XI (XI XH))))))) :: ((Npos (XI (XI
    (XI (XI (XO (XI XH))))))) :: ((Npos (XO (XI (XO (XO (XI (XI
    XH))))))) :: [])))))))))), (RTT_Keyword KK_Destructor)) :: ((((Npos (XO
    (XO (XI (XO (XO (XI XH))))))) :: ((Npos (XI (XO (XO (XI (XO (XI
    XH))))))) :: ((Npos (XI (XI (XO (XO (XI (XI XH))))))) :: ((Npos (XO (XO
    (XO (XO (XI (XI XH))))))) :: ((Npos (XI (XO (XO (XI (XO (XI
    XH))))))) :: ((Npos (XO (XO (XI (XO (XO (XI XH))))))) :: [])))))),
    (RTT_IdentifierOrKeyword KK_DispId)) :: ((((Npos (XO (XO (XI (XO (XO (XI
    XH))))))) :: ((Npos (XI (XO (XO (XI (XO (XI XH))))))) :: ((Npos (XI (XI
    (XO (XO (XI (XI XH))))))) :: ((Npos (XO (XO (XO (XO (XI (XI
    XH))))))) :: ((Npos (XI (XO (XO (XI (XO (XI XH))))))) :: ((Npos (XO (XI
    (XI (XI (XO (XI XH))))))) :: ((Npos (XO (XO (XI (XO (XI (XI
    XH))))))) :: ((Npos (XI (XO (XI (XO (XO (XI XH))))))) :: ((Npos (XO (XI
    (XO (XO (XI (XI XH))))))) :: ((Npos (XO (XI (XI (XO (XO (XI
    XH))))))) :: ((Npos (XI (XO (XO (XO (XO (XI XH))))))) :: ((Npos (XI (XI
    (XO (XO (XO (XI XH))))))) :: ((Npos (XI (XO (XI (XO (XO (XI
    XH))))))) :: []))))))))))))), (RTT_Keyword KK_DispInterface)) :: ((((Npos
    (XO (XO (XI (XO (XO (XI XH))))))) :: ((Npos (XI (XO (XO (XI (XO (XI
    XH))))))) :: ((Npos (XO (XI (XI (XO (XI (XI XH))))))) :: []))),
    (RTT_Keyword KK_Div)) :: ((((Npos (XO (XO (XI (XO (XO (XI
    XH))))))) :: ((Npos (XI (XI (XI (XI (XO (XI XH))))))) :: [])),
    (RTT_Keyword KK_Do)) :: ((((Npos (XO (XO (XI (XO (XO (XI
    XH))))))) :: ((Npos (XI (XI (XI (XI (XO (XI XH))))))) :: ((Npos (XI (XI
    (XI (XO (XI (XI XH))))))) :: ((Npos (XO (XI (XI (XI (XO (XI
    XH))))))) :: ((Npos (XO (XO (XI (XO (XI (XI XH))))))) :: ((Npos (XI (XI
    (XI (XI (XO (XI XH))))))) :: [])))))), (RTT_Keyword
    KK_Downto)) :: ((((Npos (XO (XO (XI (XO (XO (XI XH))))))) :: ((Npos (XI
    (XO (XO (XI (XI (XI XH))))))) :: ((Npos (XO (XI (XI (XI (XO (XI
    XH))))))) :: ((Npos (XI (XO (XO (XO (XO (XI XH))))))) :: ((Npos (XI (XO
    (XI (XI (XO (XI XH))))))) :: ((Npos (XI (XO (XO (XI (XO (XI
    XH))))))) :: ((Npos (XI (XI (XO (XO (XO (XI XH))))))) :: []))))))),
    (RTT_IdentifierOrKeyword KK_Dynamic)) :: ((((Npos (XI (XO (XI (XO (XO (XI
    XH))))))) :: ((Npos (XO (XO (XI (XI (XO (XI XH))))))) :: ((Npos (XI (XI
    (XO (XO (XI (XI XH))))))) :: ((Npos (XI (XO (XI (XO (XO (XI
    XH))))))) :: [])))), (RTT_Keyword KK_Else)) :: ((((Npos (XI (XO (XI (XO
    (XO (XI XH))))))) :: ((Npos (XO (XI (XI (XI (XO (XI XH))))))) :: ((Npos
    (XO (XO (XI (XO (XO (XI XH))))))) :: []))), (RTT_Keyword
    KK_End)) :: ((((Npos (XI (XO (XI (XO (XO (XI XH))))))) :: ((Npos (XO (XO
    (XO (XI (XI (XI XH))))))) :: ((Npos (XI (XI (XO (XO (XO (XI
    XH))))))) :: ((Npos (XI (XO (XI (XO (XO (XI XH))))))) :: ((Npos (XO (XO
    (XO (XO (XI (XI XH))))))) :: ((Npos (XO (XO (XI (XO (XI (XI
    XH))))))) :: [])))))), (RTT_Keyword KK_Except)) :: ((((Npos (XI (XO (XI
    (XO (XO (XI XH))))))) :: ((Npos (XO (XO (XO (XI (XI (XI
    XH))))))) :: ((Npos (XO (XO (XO (XO (XI (XI XH))))))) :: ((Npos (XI (XO
    (XI (XO (XO (XI XH))))))) :: ((Npos (XO (XI (XO (XO (XI (XI
    XH))))))) :: ((Npos (XI (XO (XO (XI (XO (XI XH))))))) :: ((Npos (XI (XO
    (XI (XI (XO (XI XH))))))) :: ((Npos (XI (XO (XI (XO (XO (XI
    XH))))))) :: ((Npos (XO (XI (XI (XI (XO (XI XH))))))) :: ((Npos (XO (XO
    (XI (XO (XI (XI XH))))))) :: ((Npos (XI (XO (XO (XO (XO (XI
    XH))))))) :: ((Npos (XO (XO (XI (XI (XO (XI XH))))))) :: [])))))))))))),
    (RTT_IdentifierOrKeyword KK_Experimental)) :: ((((Npos (XI (XO (XI (XO
    (XO (XI XH))))))) :: ((Npos (XO (XO (XO (XI (XI (XI XH))))))) :: ((Npos
    (XO (XO (XO (XO (XI (XI XH))))))) :: ((Npos (XI (XI (XI (XI (XO (XI
    XH))))))) :: ((Npos (XO (XI (XO (XO (XI (XI XH))))))) :: ((Npos (XO (XO
    (XI (XO (XI (XI XH))))))) :: [])))))), (RTT_IdentifierOrKeyword
    KK_Export)) :: ((((Npos (XI (XO (XI (XO (XO (XI XH))))))) :: ((Npos (XO
    (XO (XO (XI (XI (XI XH))))))) :: ((Npos (XO (XO (XO (XO (XI (XI
    XH))))))) :: ((Npos (XI (XI (XI (XI (XO (XI XH))))))) :: ((Npos (XO (XI
    (XO (XO (XI (XI XH))))))) :: ((Npos (XO (XO (XI (XO (XI (XI
    XH))))))) :: ((Npos (XI (XI (XO (XO (XI (XI XH))))))) :: []))))))),
    (RTT_Keyword KK_Exports)) :: ((((Npos (XI (XO (XI (XO (XO (XI
    XH))))))) :: ((Npos (XO (XO (XO (XI (XI (XI XH))))))) :: ((Npos (XO (XO
    (XI (XO (XI (XI XH))))))) :: ((Npos (XI (XO (XI (XO (XO (XI
    XH))))))) :: ((Npos (XO (XI (XO (XO (XI (XI XH))))))) :: ((Npos (XO (XI
    (XI (XI (XO (XI XH))))))) :: ((Npos (XI (XO (XO (XO (XO (XI
    XH))))))) :: ((Npos (XO (XO (XI (XI (XO (XI XH))))))) :: [])))))))),
    (RTT_IdentifierOrKeyword KK_External)) :: ((((Npos (XO (XI (XI (XO (XO
    (XI XH))))))) :: ((Npos (XI (XO (XO (XO (XO (XI XH))))))) :: ((Npos (XO
    (XI (XO (XO (XI (XI XH))))))) :: []))), (RTT_IdentifierOrKeyword
    KK_Far)) :: ((((Npos (XO (XI (XI (XO (XO (XI XH))))))) :: ((Npos (XI (XO
    (XO (XI (XO (XI XH))))))) :: ((Npos (XO (XO (XI (XI (XO (XI
    XH))))))) :: ((Npos (XI (XO (XI (XO (XO (XI XH))))))) :: [])))),
    (RTT_Keyword KK_File)) :: ((((Npos (XO (XI (XI (XO (XO (XI
    XH))))))) :: ((Npos (XI (XO (XO (XI (XO (XI XH))))))) :: ((Npos (XO (XI
    (XI (XI (XO (XI XH))))))) :: ((Npos (XI (XO (XO (XO (XO (XI
    XH))))))) :: ((Npos (XO (XO (XI (XI (XO (XI XH))))))) :: []))))),
    (RTT_IdentifierOrKeyword KK_Final)) :: ((((Npos (XO (XI (XI (XO (XO (XI
    XH))))))) :: ((Npos (XI (XO (XO (XI (XO (XI XH))))))) :: ((Npos (XO (XI
    (XI (XI (XO (XI XH))))))) :: ((Npos (XI (XO (XO (XO (XO (XI
    XH))))))) :: ((Npos (XO (XO (XI (XI (XO (XI XH))))))) :: ((Npos (XI (XO
    (XO (XI (XO (XI XH))))))) :: ((Npos (XO (XI (XO (XI (XI (XI
    XH))))))) :: ((Npos (XI (XO (XO (XO (XO (XI XH))))))) :: ((Npos (XO (XO
    (XI (XO (XI (XI XH))))))) :: ((Npos (XI (XO (XO (XI (XO (XI
    XH))))))) :: ((Npos (XI (XI (XI (XI (XO (XI XH))))))) :: ((Npos (XO (XI
    (XI (XI (XO (XI XH))))))) :: [])))))))))))), (RTT_Keyword
    KK_Finalization)) :: ((((Npos (XO (XI (XI (XO (XO (XI XH))))))) :: ((Npos
    (XI (XO (XO (XI (XO (XI XH))))))) :: ((Npos (XO (XI (XI (XI (XO (XI
    XH))))))) :: ((Npos (XI (XO (XO (XO (XO (XI XH))))))) :: ((Npos (XO (XO
    (XI (XI (XO (XI XH))))))) :: ((Npos (XO (XO (XI (XI (XO (XI
    XH))))))) :: ((Npos (XI (XO (XO (XI (XI (XI XH))))))) :: []))))))),
    (RTT_Keyword KK_Finally)) :: ((((Npos (XO (XI (XI (XO (XO (XI
    XH))))))) :: ((Npos (XI (XI (XI (XI (XO (XI XH))))))) :: ((Npos (XO (XI
    (XO (XO (XI (XI XH))))))) :: []))), (RTT_Keyword KK_For)) :: ((((Npos (XO
    (XI (XI (XO (XO (XI XH))))))) :: ((Npos (XI (XI (XI (XI (XO (XI
    XH))))))) :: ((Npos (XO (XI (XO (XO (XI (XI XH))))))) :: ((Npos (XI (XI
    (XI (XO (XI (XI XH))))))) :: ((Npos (XI (XO (XO (XO (XO (XI
    XH))))))) :: ((Npos (XO (XI (XO (XO (XI (XI XH))))))) :: ((Npos (XO (XO
    (XI (XO (XO (XI XH))))))) :: []))))))), (RTT_IdentifierOrKeyword
    KK_Forward)) :: ((((Npos (XO (XI (XI (XO (XO (XI XH))))))) :: ((Npos (XI
    (XO (XI (XO (XI (XI XH))))))) :: ((Npos (XO (XI (XI (XI (XO (XI
    XH))))))) :: ((Npos (XI (XI (XO (XO (XO (XI XH))))))) :: ((Npos (XO (XO
    (XI (XO (XI (XI XH))))))) :: ((Npos (XI (XO (XO (XI (XO (XI
    XH))))))) :: ((Npos (XI (XI (XI (XI (XO (XI XH))))))) :: ((Npos (XO (XI
    (XI (XI (XO (XI XH))))))) :: [])))))))), (RTT_Keyword
    KK_Function)) :: ((((Npos (XI (XI (XI (XO (XO (XI XH))))))) :: ((Npos (XI
    (XI (XI (XI (XO (XI XH))))))) :: ((Npos (XO (XO (XI (XO (XI (XI
    XH))))))) :: ((Npos (XI (XI (XI (XI (XO (XI XH))))))) :: [])))),
    (RTT_Keyword KK_Goto)) :: ((((Npos (XO (XO (XO (XI (XO (XI
    XH))))))) :: ((Npos (XI (XO (XI (XO (XO (XI XH))))))) :: ((Npos (XO (XO
    (XI (XI (XO (XI XH))))))) :: ((Npos (XO (XO (XO (XO (XI (XI
    XH))))))) :: ((Npos (XI (XO (XI (XO (XO (XI XH))))))) :: ((Npos (XO (XI
    (XO (XO (XI (XI XH))))))) :: [])))))), (RTT_IdentifierOrKeyword
    KK_Helper)) :: ((((Npos (XI (XO (XO (XI (XO (XI XH))))))) :: ((Npos (XO
    (XI (XI (XO (XO (XI XH))))))) :: [])), (RTT_Keyword KK_If)) :: ((((Npos
    (XI (XO (XO (XI (XO (XI XH))))))) :: ((Npos (XI (XO (XI (XI (XO (XI
    XH))))))) :: ((Npos (XO (XO (XO (XO (XI (XI XH))))))) :: ((Npos (XO (XO
    (XI (XI (XO (XI XH))))))) :: ((Npos (XI (XO (XI (XO (XO (XI
    XH))))))) :: ((Npos (XI (XO (XI (XI (XO (XI XH))))))) :: ((Npos (XI (XO
    (XI (XO (XO (XI XH))))))) :: ((Npos (XO (XI (XI (XI (XO (XI
    XH))))))) :: ((Npos (XO (XO (XI (XO (XI (XI XH))))))) :: ((Npos (XI (XO
    (XO (XO (XO (XI XH))))))) :: ((Npos (XO (XO (XI (XO (XI (XI
    XH))))))) :: ((Npos (XI (XO (XO (XI (XO (XI XH))))))) :: ((Npos (XI (XI
    (XI (XI (XO (XI XH))))))) :: ((Npos (XO (XI (XI (XI (XO (XI
    XH))))))) :: [])))))))))))))), (RTT_Keyword
    KK_Implementation)) :: ((((Npos (XI (XO (XO (XI (XO (XI
    XH))))))) :: ((Npos (XI (XO (XI (XI (XO (XI XH))))))) :: ((Npos (XO (XO
    (XO (XO (XI (XI XH))))))) :: ((Npos (XO (XO (XI (XI (XO (XI
    XH))))))) :: ((Npos (XI (XO (XI (XO (XO (XI XH))))))) :: ((Npos (XI (XO
    (XI (XI (XO (XI XH))))))) :: ((Npos (XI (XO (XI (XO (XO (XI
    XH))))))) :: ((Npos (XO (XI (XI (XI (XO (XI XH))))))) :: ((Npos (XO (XO
    (XI (XO (XI (XI XH))))))) :: ((Npos (XI (XI (XO (XO (XI (XI
    XH))))))) :: [])))))))))), (RTT_IdentifierOrKeyword
    KK_Implements)) :: ((((Npos (XI (XO (XO (XI (XO (XI XH))))))) :: ((Npos
    (XO (XI (XI (XI (XO (XI XH))))))) :: [])), (RTT_Keyword (KK_In
    IK_Op))) :: ((((Npos (XI (XO (XO (XI (XO (XI XH))))))) :: ((Npos (XO (XI
    (XI (XI (XO (XI XH))))))) :: ((Npos (XO (XO (XI (XO (XO (XI
    XH))))))) :: ((Npos (XI (XO (XI (XO (XO (XI XH))))))) :: ((Npos (XO (XO
    (XO (XI (XI (XI XH))))))) :: []))))), (RTT_IdentifierOrKeyword
    KK_Index)) :: ((((Npos (XI (XO (XO (XI (XO (XI XH))))))) :: ((Npos (XO
    (XI (XI (XI (XO (XI XH))))))) :: ((Npos (XO (XO (XO (XI (XO (XI
    XH))))))) :: ((Npos (XI (XO (XI (XO (XO (XI XH))))))) :: ((Npos (XO (XI
    (XO (XO (XI (XI XH))))))) :: ((Npos (XI (XO (XO (XI (XO (XI
    XH))))))) :: ((Npos (XO (XO (XI (XO (XI (XI XH))))))) :: ((Npos (XI (XO
    (XI (XO (XO (XI XH))))))) :: ((Npos (XO (XO (XI (XO (XO (XI
    XH))))))) :: []))))))))), (RTT_Keyword KK_Inherited)) :: ((((Npos (XI (XO
    (XO (XI (XO (XI XH))))))) :: ((Npos (XO (XI (XI (XI (XO (XI
    XH))))))) :: ((Npos (XI (XO (XO (XI (XO (XI XH))))))) :: ((Npos (XO (XO
    (XI (XO (XI (XI XH))))))) :: ((Npos (XI (XO (XO (XI (XO (XI
    XH))))))) :: ((Npos (XI (XO (XO (XO (XO (XI XH))))))) :: ((Npos (XO (XO
    (XI (XI (XO (XI XH))))))) :: ((Npos (XI (XO (XO (XI (XO (XI
    XH))))))) :: ((Npos (XO (XI (XO (XI (XI (XI XH))))))) :: ((Npos (XI (XO
    (XO (XO (XO (XI XH))))))) :: ((Npos (XO (XO (XI (XO (XI (XI
    XH))))))) :: ((Npos (XI (XO (XO (XI (XO (XI XH))))))) :: ((Npos (XI (XI
    (XI (XI (XO (XI XH))))))) :: ((Npos (XO (XI (XI (XI (XO (XI
    XH))))))) :: [])))))))))))))), (RTT_Keyword
    KK_Initialization)) :: ((((Npos (XI (XO (XO (XI (XO (XI
    XH))))))) :: ((Npos (XO (XI (XI (XI (XO (XI XH))))))) :: ((Npos (XO (XO
    (XI (XI (XO (XI XH))))))) :: ((Npos (XI (XO (XO (XI (XO (XI
    XH))))))) :: ((Npos (XO (XI (XI (XI (XO (XI XH))))))) :: ((Npos (XI (XO
    (XI (XO (XO (XI XH))))))) :: [])))))), (RTT_Keyword
    KK_Inline)) :: ((((Npos (XI (XO (XO (XI (XO (XI XH))))))) :: ((Npos (XO
    (XI (XI (XI (XO (XI XH))))))) :: ((Npos (XO (XO (XI (XO (XI (XI
    XH))))))) :: ((Npos (XI (XO (XI (XO (XO (XI XH))))))) :: ((Npos (XO (XI
    (XO (XO (XI (XI XH))))))) :: ((Npos (XO (XI (XI (XO (XO (XI
    XH))))))) :: ((Npos (XI (XO (XO (XO (XO (XI XH))))))) :: ((Npos (XI (XI
    (XO (XO (XO (XI XH))))))) :: ((Npos (XI (XO (XI (XO (XO (XI
    XH))))))) :: []))))))))), (RTT_Keyword KK_Interface)) :: ((((Npos (XI (XO
    (XO (XI (XO (XI XH))))))) :: ((Npos (XI (XI (XO (XO (XI (XI
    XH))))))) :: [])), (RTT_Keyword KK_Is)) :: ((((Npos (XO (XO (XI (XI (XO
    (XI XH))))))) :: ((Npos (XI (XO (XO (XO (XO (XI XH))))))) :: ((Npos (XO
    (XI (XO (XO (XO (XI XH))))))) :: ((Npos (XI (XO (XI (XO (XO (XI
    XH))))))) :: ((Npos (XO (XO (XI (XI (XO (XI XH))))))) :: []))))),
    (RTT_Keyword KK_Label)) :: ((((Npos (XO (XO (XI (XI (XO (XI
    XH))))))) :: ((Npos (XI (XO (XO (XI (XO (XI XH))))))) :: ((Npos (XO (XI
    (XO (XO (XO (XI XH))))))) :: ((Npos (XO (XI (XO (XO (XI (XI
    XH))))))) :: ((Npos (XI (XO (XO (XO (XO (XI XH))))))) :: ((Npos (XO (XI
    (XO (XO (XI (XI XH))))))) :: ((Npos (XI (XO (XO (XI (XI (XI
    XH))))))) :: []))))))), (RTT_Keyword KK_Library)) :: ((((Npos (XO (XO (XI
    (XI (XO (XI XH))))))) :: ((Npos (XI (XI (XI (XI (XO (XI
    XH))))))) :: ((Npos (XI (XI (XO (XO (XO (XI XH))))))) :: ((Npos (XI (XO
    (XO (XO (XO (XI XH))))))) :: ((Npos (XO (XO (XI (XI (XO (XI
    XH))))))) :: []))))), (RTT_IdentifierOrKeyword KK_Local)) :: ((((Npos (XI
    (XO (XI (XI (XO (XI XH))))))) :: ((Npos (XI (XO (XI (XO (XO (XI
    XH))))))) :: ((Npos (XI (XI (XO (XO (XI (XI XH))))))) :: ((Npos (XI (XI
    (XO (XO (XI (XI XH))))))) :: ((Npos (XI (XO (XO (XO (XO (XI
    XH))))))) :: ((Npos (XI (XI (XI (XO (XO (XI XH))))))) :: ((Npos (XI (XO
    (XI (XO (XO (XI XH))))))) :: []))))))), (RTT_IdentifierOrKeyword
    KK_Message)) :: ((((Npos (XI (XO (XI (XI (XO (XI XH))))))) :: ((Npos (XI
    (XI (XI (XI (XO (XI XH))))))) :: ((Npos (XO (XO (XI (XO (XO (XI
    XH))))))) :: []))), (RTT_Keyword KK_Mod)) :: ((((Npos (XO (XI (XI (XI (XO
    (XI XH))))))) :: ((Npos (XI (XO (XO (XO (XO (XI XH))))))) :: ((Npos (XI
    (XO (XI (XI (XO (XI XH))))))) :: ((Npos (XI (XO (XI (XO (XO (XI
    XH))))))) :: [])))), (RTT_IdentifierOrKeyword KK_Name)) :: ((((Npos (XO
    (XI (XI (XI (XO (XI XH))))))) :: ((Npos (XI (XO (XI (XO (XO (XI
    XH))))))) :: ((Npos (XI (XO (XO (XO (XO (XI XH))))))) :: ((Npos (XO (XI
    (XO (XO (XI (XI XH))))))) :: [])))), (RTT_IdentifierOrKeyword
    KK_Near)) :: ((((Npos (XO (XI (XI (XI (XO (XI XH))))))) :: ((Npos (XI (XO
    (XO (XI (XO (XI XH))))))) :: ((Npos (XO (XO (XI (XI (XO (XI
    XH))))))) :: []))), (RTT_Keyword KK_Nil)) :: ((((Npos (XO (XI (XI (XI (XO
    (XI XH))))))) :: ((Npos (XI (XI (XI (XI (XO (XI XH))))))) :: ((Npos (XO
    (XO (XI (XO (XO (XI XH))))))) :: ((Npos (XI (XO (XI (XO (XO (XI
    XH))))))) :: ((Npos (XO (XI (XI (XO (XO (XI XH))))))) :: ((Npos (XI (XO
    (XO (XO (XO (XI XH))))))) :: ((Npos (XI (XO (XI (XO (XI (XI
    XH))))))) :: ((Npos (XO (XO (XI (XI (XO (XI XH))))))) :: ((Npos (XO (XO
    (XI (XO (XI (XI XH))))))) :: []))))))))), (RTT_IdentifierOrKeyword
    KK_NoDefault)) :: ((((Npos (XO (XI (XI (XI (XO (XI XH))))))) :: ((Npos
    (XI (XI (XI (XI (XO (XI XH))))))) :: ((Npos (XO (XO (XI (XO (XI (XI
    XH))))))) :: []))), (RTT_Keyword KK_Not)) :: ((((Npos (XI (XI (XI (XI (XO
    (XI XH))))))) :: ((Npos (XO (XI (XO (XO (XO (XI XH))))))) :: ((Npos (XO
    (XI (XO (XI (XO (XI XH))))))) :: ((Npos (XI (XO (XI (XO (XO (XI
    XH))))))) :: ((Npos (XI (XI (XO (XO (XO (XI XH))))))) :: ((Npos (XO (XO
    (XI (XO (XI (XI XH))))))) :: [])))))), (RTT_Keyword
    KK_Object)) :: ((((Npos (XI (XI (XI (XI (XO (XI XH))))))) :: ((Npos (XO
    (XI (XI (XO (XO (XI XH))))))) :: [])), (RTT_Keyword KK_Of)) :: ((((Npos
    (XI (XI (XI (XI (XO (XI XH))))))) :: ((Npos (XO (XI (XI (XI (XO (XI
    XH))))))) :: [])), (RTT_IdentifierOrKeyword KK_On)) :: ((((Npos (XI (XI
    (XI (XI (XO (XI XH))))))) :: ((Npos (XO (XO (XO (XO (XI (XI
    XH))))))) :: ((Npos (XI (XO (XI (XO (XO (XI XH))))))) :: ((Npos (XO (XI
    (XO (XO (XI (XI XH))))))) :: ((Npos (XI (XO (XO (XO (XO (XI
    XH))))))) :: ((Npos (XO (XO (XI (XO (XI (XI XH))))))) :: ((Npos (XI (XI
    (XI (XI (XO (XI XH))))))) :: ((Npos (XO (XI (XO (XO (XI (XI
    XH))))))) :: [])))))))), (RTT_IdentifierOrKeyword
    KK_Operator)) :: ((((Npos (XI (XI (XI (XI (XO (XI XH))))))) :: ((Npos (XO
    (XI (XO (XO (XI (XI XH))))))) :: [])), (RTT_Keyword KK_Or)) :: ((((Npos
    (XI (XI (XI (XI (XO (XI XH))))))) :: ((Npos (XI (XO (XI (XO (XI (XI
    XH))))))) :: ((Npos (XO (XO (XI (XO (XI (XI XH))))))) :: []))),
    (RTT_IdentifierOrKeyword KK_Out)) :: ((((Npos (XI (XI (XI (XI (XO (XI
    XH))))))) :: ((Npos (XO (XI (XI (XO (XI (XI XH))))))) :: ((Npos (XI (XO
    (XI (XO (XO (XI XH))))))) :: ((Npos (XO (XI (XO (XO (XI (XI
    XH))))))) :: ((Npos (XO (XO (XI (XI (XO (XI XH))))))) :: ((Npos (XI (XI
    (XI (XI (XO (XI XH))))))) :: ((Npos (XI (XO (XO (XO (XO (XI
    XH))))))) :: ((Npos (XO (XO (XI (XO (XO (XI XH))))))) :: [])))))))),
    (RTT_IdentifierOrKeyword KK_Overload)) :: ((((Npos (XI (XI (XI (XI (XO
    (XI XH))))))) :: ((Npos (XO (XI (XI (XO (XI (XI XH))))))) :: ((Npos (XI
    (XO (XI (XO (XO (XI XH))))))) :: ((Npos (XO (XI (XO (XO (XI (XI
    XH))))))) :: ((Npos (XO (XI (XO (XO (XI (XI XH))))))) :: ((Npos (XI (XO
    (XO (XI (XO (XI XH))))))) :: ((Npos (XO (XO (XI (XO (XO (XI
    XH))))))) :: ((Npos (XI (XO (XI (XO (XO (XI XH))))))) :: [])))))))),
    (RTT_IdentifierOrKeyword KK_Override)) :: ((((Npos (XO (XO (XO (XO (XI
    (XI XH))))))) :: ((Npos (XI (XO (XO (XO (XO (XI XH))))))) :: ((Npos (XI
    (XI (XO (XO (XO (XI XH))))))) :: ((Npos (XI (XI (XO (XI (XO (XI
    XH))))))) :: ((Npos (XI (XO (XO (XO (XO (XI XH))))))) :: ((Npos (XI (XI
    (XI (XO (XO (XI XH))))))) :: ((Npos (XI (XO (XI (XO (XO (XI
    XH))))))) :: []))))))), (RTT_IdentifierOrKeyword KK_Package)) :: ((((Npos
    (XO (XO (XO (XO (XI (XI XH))))))) :: ((Npos (XI (XO (XO (XO (XO (XI
    XH))))))) :: ((Npos (XI (XI (XO (XO (XO (XI XH))))))) :: ((Npos (XI (XI
    (XO (XI (XO (XI XH))))))) :: ((Npos (XI (XO (XI (XO (XO (XI
    XH))))))) :: ((Npos (XO (XO (XI (XO (XO (XI XH))))))) :: [])))))),
    (RTT_Keyword KK_Packed)) :: ((((Npos (XO (XO (XO (XO (XI (XI
    XH))))))) :: ((Npos (XI (XO (XO (XO (XO (XI XH))))))) :: ((Npos (XI (XI
    (XO (XO (XI (XI XH))))))) :: ((Npos (XI (XI (XO (XO (XO (XI
    XH))))))) :: ((Npos (XI (XO (XO (XO (XO (XI XH))))))) :: ((Npos (XO (XO
    (XI (XI (XO (XI XH))))))) :: [])))))), (RTT_IdentifierOrKeyword
    KK_Pascal)) :: ((((Npos (XO (XO (XO (XO (XI (XI XH))))))) :: ((Npos (XO
    (XO (XI (XI (XO (XI XH))))))) :: ((Npos (XI (XO (XO (XO (XO (XI
    XH))))))) :: ((Npos (XO (XO (XI (XO (XI (XI XH))))))) :: ((Npos (XO (XI
    (XI (XO (XO (XI XH))))))) :: ((Npos (XI (XI (XI (XI (XO (XI
    XH))))))) :: ((Npos (XO (XI (XO (XO (XI (XI XH))))))) :: ((Npos (XI (XO
    (XI (XI (XO (XI XH))))))) :: [])))))))), (RTT_IdentifierOrKeyword
    KK_Platform)) :: ((((Npos (XO (XO (XO (XO (XI (XI XH))))))) :: ((Npos (XO
    (XI (XO (XO (XI (XI XH))))))) :: ((Npos (XI (XO (XO (XI (XO (XI
    XH))))))) :: ((Npos (XO (XI (XI (XO (XI (XI XH))))))) :: ((Npos (XI (XO
    (XO (XO (XO (XI XH))))))) :: ((Npos (XO (XO (XI (XO (XI (XI
    XH))))))) :: ((Npos (XI (XO (XI (XO (XO (XI XH))))))) :: []))))))),
    (RTT_IdentifierOrKeyword KK_Private)) :: ((((Npos (XO (XO (XO (XO (XI (XI
    XH))))))) :: ((Npos (XO (XI (XO (XO (XI (XI XH))))))) :: ((Npos (XI (XI
    (XI (XI (XO (XI XH))))))) :: ((Npos (XI (XI (XO (XO (XO (XI
    XH))))))) :: ((Npos (XI (XO (XI (XO (XO (XI XH))))))) :: ((Npos (XO (XO
    (XI (XO (XO (XI XH))))))) :: ((Npos (XI (XO (XI (XO (XI (XI
    XH))))))) :: ((Npos (XO (XI (XO (XO (XI (XI XH))))))) :: ((Npos (XI (XO
    (XI (XO (XO (XI XH))))))) :: []))))))))), (RTT_Keyword
    KK_Procedure)) :: ((((Npos (XO (XO (XO (XO (XI (XI XH))))))) :: ((Npos
    (XO (XI (XO (XO (XI (XI XH))))))) :: ((Npos (XI (XI (XI (XI (XO (XI
    XH))))))) :: ((Npos (XI (XI (XI (XO (XO (XI XH))))))) :: ((Npos (XO (XI
    (XO (XO (XI (XI XH))))))) :: ((Npos (XI (XO (XO (XO (XO (XI
    XH))))))) :: ((Npos (XI (XO (XI (XI (XO (XI XH))))))) :: []))))))),
    (RTT_Keyword KK_Program)) :: ((((Npos (XO (XO (XO (XO (XI (XI
    XH))))))) :: ((Npos (XO (XI (XO (XO (XI (XI XH))))))) :: ((Npos (XI (XI
    (XI (XI (XO (XI XH))))))) :: ((Npos (XO (XO (XO (XO (XI (XI
    XH))))))) :: ((Npos (XI (XO (XI (XO (XO (XI XH))))))) :: ((Npos (XO (XI
    (XO (XO (XI (XI XH))))))) :: ((Npos (XO (XO (XI (XO (XI (XI
    XH))))))) :: ((Npos (XI (XO (XO (XI (XI (XI XH))))))) :: [])))))))),
    (RTT_Keyword KK_Property)) :: ((((Npos (XO (XO (XO (XO (XI (XI
    XH))))))) :: ((Npos (XO (XI (XO (XO (XI (XI XH))))))) :: ((Npos (XI (XI
    (XI (XI (XO (XI XH))))))) :: ((Npos (XO (XO (XI (XO (XI (XI
    XH))))))) :: ((Npos (XI (XO (XI (XO (XO (XI XH))))))) :: ((Npos (XI (XI
    (XO (XO (XO (XI XH))))))) :: ((Npos (XO (XO (XI (XO (XI (XI
    XH))))))) :: ((Npos (XI (XO (XI (XO (XO (XI XH))))))) :: ((Npos (XO (XO
    (XI (XO (XO (XI XH))))))) :: []))))))))), (RTT_IdentifierOrKeyword
    KK_Protected)) :: ((((Npos (XO (XO (XO (XO (XI (XI XH))))))) :: ((Npos
    (XI (XO (XI (XO (XI (XI XH))))))) :: ((Npos (XO (XI (XO (XO (XO (XI
    XH))))))) :: ((Npos (XO (XO (XI (XI (XO (XI XH))))))) :: ((Npos (XI (XO
    (XO (XI (XO (XI XH))))))) :: ((Npos (XI (XI (XO (XO (XO (XI
    XH))))))) :: [])))))), (RTT_IdentifierOrKeyword KK_Public)) :: ((((Npos
    (XO (XO (XO (XO (XI (XI XH))))))) :: ((Npos (XI (XO (XI (XO (XI (XI
    XH))))))) :: ((Npos (XO (XI (XO (XO (XO (XI XH))))))) :: ((Npos (XO (XO
    (XI (XI (XO (XI XH))))))) :: ((Npos (XI (XO (XO (XI (XO (XI
    XH))))))) :: ((Npos (XI (XI (XO (XO (XI (XI XH))))))) :: ((Npos (XO (XO
    (XO (XI (XO (XI XH))))))) :: ((Npos (XI (XO (XI (XO (XO (XI
    XH))))))) :: ((Npos (XO (XO (XI (XO (XO (XI XH))))))) :: []))))))))),
    (RTT_IdentifierOrKeyword KK_Published)) :: ((((Npos (XO (XI (XO (XO (XI
    (XI XH))))))) :: ((Npos (XI (XO (XO (XO (XO (XI XH))))))) :: ((Npos (XI
    (XO (XO (XI (XO (XI XH))))))) :: ((Npos (XI (XI (XO (XO (XI (XI
    XH))))))) :: ((Npos (XI (XO (XI (XO (XO (XI XH))))))) :: []))))),
    (RTT_Keyword KK_Raise)) :: ((((Npos (XO (XI (XO (XO (XI (XI
    XH))))))) :: ((Npos (XI (XO (XI (XO (XO (XI XH))))))) :: ((Npos (XI (XO
    (XO (XO (XO (XI XH))))))) :: ((Npos (XO (XO (XI (XO (XO (XI
    XH))))))) :: [])))), (RTT_IdentifierOrKeyword KK_Read)) :: ((((Npos (XO
    (XI (XO (XO (XI (XI XH))))))) :: ((Npos (XI (XO (XI (XO (XO (XI
    XH))))))) :: ((Npos (XI (XO (XO (XO (XO (XI XH))))))) :: ((Npos (XO (XO
    (XI (XO (XO (XI XH))))))) :: ((Npos (XI (XI (XI (XI (XO (XI
    XH))))))) :: ((Npos (XO (XI (XI (XI (XO (XI XH))))))) :: ((Npos (XO (XO
    (XI (XI (XO (XI XH))))))) :: ((Npos (XI (XO (XO (XI (XI (XI
    XH))))))) :: [])))))))), (RTT_IdentifierOrKeyword
    KK_ReadOnly)) :: ((((Npos (XO (XI (XO (XO (XI (XI XH))))))) :: ((Npos (XI
    (XO (XI (XO (XO (XI XH))))))) :: ((Npos (XI (XI (XO (XO (XO (XI
    XH))))))) :: ((Npos (XI (XI (XI (XI (XO (XI XH))))))) :: ((Npos (XO (XI
    (XO (XO (XI (XI XH))))))) :: ((Npos (XO (XO (XI (XO (XO (XI
    XH))))))) :: [])))))), (RTT_Keyword KK_Record)) :: ((((Npos (XO (XI (XO
    (XO (XI (XI XH))))))) :: ((Npos (XI (XO (XI (XO (XO (XI
    XH))))))) :: ((Npos (XO (XI (XI (XO (XO (XI XH))))))) :: ((Npos (XI (XO
    (XI (XO (XO (XI XH))))))) :: ((Npos (XO (XI (XO (XO (XI (XI
    XH))))))) :: ((Npos (XI (XO (XI (XO (XO (XI XH))))))) :: ((Npos (XO (XI
    (XI (XI (XO (XI XH))))))) :: ((Npos (XI (XI (XO (XO (XO (XI
    XH))))))) :: ((Npos (XI (XO (XI (XO (XO (XI XH))))))) :: []))))))))),
    (RTT_IdentifierOrKeyword KK_Reference)) :: ((((Npos (XO (XI (XO (XO (XI
    (XI XH))))))) :: ((Npos (XI (XO (XI (XO (XO (XI XH))))))) :: ((Npos (XI
    (XI (XI (XO (XO (XI XH))))))) :: ((Npos (XI (XO (XO (XI (XO (XI
    XH))))))) :: ((Npos (XI (XI (XO (XO (XI (XI XH))))))) :: ((Npos (XO (XO
    (XI (XO (XI (XI XH))))))) :: ((Npos (XI (XO (XI (XO (XO (XI
    XH))))))) :: ((Npos (XO (XI (XO (XO (XI (XI XH))))))) :: [])))))))),
    (RTT_IdentifierOrKeyword KK_Register)) :: ((((Npos (XO (XI (XO (XO (XI
    (XI XH))))))) :: ((Npos (XI (XO (XI (XO (XO (XI XH))))))) :: ((Npos (XI
    (XO (XO (XI (XO (XI XH))))))) :: ((Npos (XO (XI (XI (XI (XO (XI
    XH))))))) :: ((Npos (XO (XO (XI (XO (XI (XI XH))))))) :: ((Npos (XO (XI
    (XO (XO (XI (XI XH))))))) :: ((Npos (XI (XI (XI (XI (XO (XI
    XH))))))) :: ((Npos (XO (XO (XI (XO (XO (XI XH))))))) :: ((Npos (XI (XO
    (XI (XO (XI (XI XH))))))) :: ((Npos (XI (XI (XO (XO (XO (XI
    XH))))))) :: ((Npos (XI (XO (XI (XO (XO (XI XH))))))) :: []))))))))))),
    (RTT_IdentifierOrKeyword KK_Reintroduce)) :: ((((Npos (XO (XI (XO (XO (XI
    (XI XH))))))) :: ((Npos (XI (XO (XI (XO (XO (XI XH))))))) :: ((Npos (XO
    (XO (XO (XO (XI (XI XH))))))) :: ((Npos (XI (XO (XI (XO (XO (XI
    XH))))))) :: ((Npos (XI (XO (XO (XO (XO (XI XH))))))) :: ((Npos (XO (XO
    (XI (XO (XI (XI XH))))))) :: [])))))), (RTT_Keyword
    KK_Repeat)) :: ((((Npos (XO (XI (XO (XO (XI (XI XH))))))) :: ((Npos (XI
    (XO (XI (XO (XO (XI XH))))))) :: ((Npos (XI (XO (XO (XO (XI (XI
    XH))))))) :: ((Npos (XI (XO (XI (XO (XI (XI XH))))))) :: ((Npos (XI (XO
    (XO (XI (XO (XI XH))))))) :: ((Npos (XO (XI (XO (XO (XI (XI
    XH))))))) :: ((Npos (XI (XO (XI (XO (XO (XI XH))))))) :: ((Npos (XI (XI
    (XO (XO (XI (XI XH))))))) :: [])))))))), (RTT_IdentifierOrKeyword
    KK_Requires)) :: ((((Npos (XO (XI (XO (XO (XI (XI XH))))))) :: ((Npos (XI
    (XO (XI (XO (XO (XI XH))))))) :: ((Npos (XI (XI (XO (XO (XI (XI
    XH))))))) :: ((Npos (XI (XO (XO (XI (XO (XI XH))))))) :: ((Npos (XO (XO
    (XI (XO (XO (XI XH))))))) :: ((Npos (XI (XO (XI (XO (XO (XI
    XH))))))) :: ((Npos (XO (XI (XI (XI (XO (XI XH))))))) :: ((Npos (XO (XO
    (XI (XO (XI (XI XH))))))) :: [])))))))), (RTT_IdentifierOrKeyword
    KK_Resident)) :: ((((Npos (XO (XI (XO (XO (XI (XI XH))))))) :: ((Npos (XI
    (XO (XI (XO (XO (XI XH))))))) :: ((Npos (XI (XI (XO (XO (XI (XI
    XH))))))) :: ((Npos (XI (XI (XI (XI (XO (XI XH))))))) :: ((Npos (XI (XO
    (XI (XO (XI (XI XH))))))) :: ((Npos (XO (XI (XO (XO (XI (XI
    XH))))))) :: ((Npos (XI (XI (XO (XO (XO (XI XH))))))) :: ((Npos (XI (XO
    (XI (XO (XO (XI XH))))))) :: ((Npos (XI (XI (XO (XO (XI (XI
    XH))))))) :: ((Npos (XO (XO (XI (XO (XI (XI XH))))))) :: ((Npos (XO (XI
    (XO (XO (XI (XI XH))))))) :: ((Npos (XI (XO (XO (XI (XO (XI
    XH))))))) :: ((Npos (XO (XI (XI (XI (XO (XI XH))))))) :: ((Npos (XI (XI
    (XI (XO (XO (XI XH))))))) :: [])))))))))))))), (RTT_Keyword
    KK_ResourceString)) :: ((((Npos (XI (XI (XO (XO (XI (XI
    XH))))))) :: ((Npos (XI (XO (XO (XO (XO (XI XH))))))) :: ((Npos (XO (XI
    (XI (XO (XO (XI XH))))))) :: ((Npos (XI (XO (XI (XO (XO (XI
    XH))))))) :: ((Npos (XI (XI (XO (XO (XO (XI XH))))))) :: ((Npos (XI (XO
    (XO (XO (XO (XI XH))))))) :: ((Npos (XO (XO (XI (XI (XO (XI
    XH))))))) :: ((Npos (XO (XO (XI (XI (XO (XI XH))))))) :: [])))))))),
    (RTT_IdentifierOrKeyword KK_SafeCall)) :: ((((Npos (XI (XI (XO (XO (XI
    (XI XH))))))) :: ((Npos (XI (XO (XI (XO (XO (XI XH))))))) :: ((Npos (XI
    (XO (XO (XO (XO (XI XH))))))) :: ((Npos (XO (XO (XI (XI (XO (XI
    XH))))))) :: ((Npos (XI (XO (XI (XO (XO (XI XH))))))) :: ((Npos (XO (XO
    (XI (XO (XO (XI XH))))))) :: [])))))), (RTT_IdentifierOrKeyword
    KK_Sealed)) :: ((((Npos (XI (XI (XO (XO (XI (XI XH))))))) :: ((Npos (XI
    (XO (XI (XO (XO (XI XH))))))) :: ((Npos (XO (XO (XI (XO (XI (XI
    XH))))))) :: []))), (RTT_Keyword KK_Set)) :: ((((Npos (XI (XI (XO (XO (XI
    (XI XH))))))) :: ((Npos (XO (XO (XO (XI (XO (XI XH))))))) :: ((Npos (XO
    (XO (XI (XI (XO (XI XH))))))) :: []))), (RTT_Keyword KK_Shl)) :: ((((Npos
    (XI (XI (XO (XO (XI (XI XH))))))) :: ((Npos (XO (XO (XO (XI (XO (XI
    XH))))))) :: ((Npos (XO (XI (XO (XO (XI (XI XH))))))) :: []))),
    (RTT_Keyword KK_Shr)) :: ((((Npos (XI (XI (XO (XO (XI (XI
    XH))))))) :: ((Npos (XO (XO (XI (XO (XI (XI XH))))))) :: ((Npos (XI (XO
    (XO (XO (XO (XI XH))))))) :: ((Npos (XO (XO (XI (XO (XI (XI
    XH))))))) :: ((Npos (XI (XO (XO (XI (XO (XI XH))))))) :: ((Npos (XI (XI
    (XO (XO (XO (XI XH))))))) :: [])))))), (RTT_IdentifierOrKeyword
    KK_Static)) :: ((((Npos (XI (XI (XO (XO (XI (XI XH))))))) :: ((Npos (XO
    (XO (XI (XO (XI (XI XH))))))) :: ((Npos (XO (XO (XI (XO (XO (XI
    XH))))))) :: ((Npos (XI (XI (XO (XO (XO (XI XH))))))) :: ((Npos (XI (XO
    (XO (XO (XO (XI XH))))))) :: ((Npos (XO (XO (XI (XI (XO (XI
    XH))))))) :: ((Npos (XO (XO (XI (XI (XO (XI XH))))))) :: []))))))),
    (RTT_IdentifierOrKeyword KK_StdCall)) :: ((((Npos (XI (XI (XO (XO (XI (XI
    XH))))))) :: ((Npos (XO (XO (XI (XO (XI (XI XH))))))) :: ((Npos (XI (XI
    (XI (XI (XO (XI XH))))))) :: ((Npos (XO (XI (XO (XO (XI (XI
    XH))))))) :: ((Npos (XI (XO (XI (XO (XO (XI XH))))))) :: ((Npos (XO (XO
    (XI (XO (XO (XI XH))))))) :: [])))))), (RTT_IdentifierOrKeyword
    KK_Stored)) :: ((((Npos (XI (XI (XO (XO (XI (XI XH))))))) :: ((Npos (XO
    (XO (XI (XO (XI (XI XH))))))) :: ((Npos (XO (XI (XO (XO (XI (XI
    XH))))))) :: ((Npos (XI (XO (XO (XI (XO (XI XH))))))) :: ((Npos (XI (XI
    (XO (XO (XO (XI XH))))))) :: ((Npos (XO (XO (XI (XO (XI (XI
    XH))))))) :: [])))))), (RTT_IdentifierOrKeyword KK_Strict)) :: ((((Npos
    (XI (XI (XO (XO (XI (XI XH))))))) :: ((Npos (XO (XO (XI (XO (XI (XI
    XH))))))) :: ((Npos (XO (XI (XO (XO (XI (XI XH))))))) :: ((Npos (XI (XO
    (XO (XI (XO (XI XH))))))) :: ((Npos (XO (XI (XI (XI (XO (XI
    XH))))))) :: ((Npos (XI (XI (XI (XO (XO (XI XH))))))) :: [])))))),
    (RTT_Keyword KK_String)) :: ((((Npos (XO (XO (XI (XO (XI (XI
    XH))))))) :: ((Npos (XO (XO (XO (XI (XO (XI XH))))))) :: ((Npos (XI (XO
    (XI (XO (XO (XI XH))))))) :: ((Npos (XO (XI (XI (XI (XO (XI
    XH))))))) :: [])))), (RTT_Keyword KK_Then)) :: ((((Npos (XO (XO (XI (XO
    (XI (XI XH))))))) :: ((Npos (XO (XO (XO (XI (XO (XI XH))))))) :: ((Npos
    (XO (XI (XO (XO (XI (XI XH))))))) :: ((Npos (XI (XO (XI (XO (XO (XI
    XH))))))) :: ((Npos (XI (XO (XO (XO (XO (XI XH))))))) :: ((Npos (XO (XO
    (XI (XO (XO (XI XH))))))) :: ((Npos (XO (XI (XI (XO (XI (XI
    XH))))))) :: ((Npos (XI (XO (XO (XO (XO (XI XH))))))) :: ((Npos (XO (XI
    (XO (XO (XI (XI XH))))))) :: []))))))))), (RTT_Keyword
    KK_ThreadVar)) :: ((((Npos (XO (XO (XI (XO (XI (XI XH))))))) :: ((Npos
    (XI (XI (XI (XI (XO (XI XH))))))) :: [])), (RTT_Keyword
    KK_To)) :: ((((Npos (XO (XO (XI (XO (XI (XI XH))))))) :: ((Npos (XO (XI
    (XO (XO (XI (XI XH))))))) :: ((Npos (XI (XO (XO (XI (XI (XI
    XH))))))) :: []))), (RTT_Keyword KK_Try)) :: ((((Npos (XO (XO (XI (XO (XI
    (XI XH))))))) :: ((Npos (XI (XO (XO (XI (XI (XI XH))))))) :: ((Npos (XO
    (XO (XO (XO (XI (XI XH))))))) :: ((Npos (XI (XO (XI (XO (XO (XI
    XH))))))) :: [])))), (RTT_Keyword KK_Type)) :: ((((Npos (XI (XO (XI (XO
    (XI (XI XH))))))) :: ((Npos (XO (XI (XI (XI (XO (XI XH))))))) :: ((Npos
    (XI (XO (XO (XI (XO (XI XH))))))) :: ((Npos (XO (XO (XI (XO (XI (XI
    XH))))))) :: [])))), (RTT_Keyword KK_Unit)) :: ((((Npos (XI (XO (XI (XO
    (XI (XI XH))))))) :: ((Npos (XO (XI (XI (XI (XO (XI XH))))))) :: ((Npos
    (XI (XI (XO (XO (XI (XI XH))))))) :: ((Npos (XI (XO (XO (XO (XO (XI
    XH))))))) :: ((Npos (XO (XI (XI (XO (XO (XI XH))))))) :: ((Npos (XI (XO
    (XI (XO (XO (XI XH))))))) :: [])))))), (RTT_IdentifierOrKeyword
    KK_Unsafe)) :: ((((Npos (XI (XO (XI (XO (XI (XI XH))))))) :: ((Npos (XO
    (XI (XI (XI (XO (XI XH))))))) :: ((Npos (XO (XO (XI (XO (XI (XI
    XH))))))) :: ((Npos (XI (XO (XO (XI (XO (XI XH))))))) :: ((Npos (XO (XO
    (XI (XI (XO (XI XH))))))) :: []))))), (RTT_Keyword KK_Until)) :: ((((Npos
    (XI (XO (XI (XO (XI (XI XH))))))) :: ((Npos (XI (XI (XO (XO (XI (XI
    XH))))))) :: ((Npos (XI (XO (XI (XO (XO (XI XH))))))) :: ((Npos (XI (XI
    (XO (XO (XI (XI XH))))))) :: [])))), (RTT_Keyword KK_Uses)) :: ((((Npos
    (XO (XI (XI (XO (XI (XI XH))))))) :: ((Npos (XI (XO (XO (XO (XO (XI
    XH))))))) :: ((Npos (XO (XI (XO (XO (XI (XI XH))))))) :: []))),
    (RTT_Keyword (KK_Var DK_Other))) :: ((((Npos (XO (XI (XI (XO (XI (XI
    XH))))))) :: ((Npos (XI (XO (XO (XO (XO (XI XH))))))) :: ((Npos (XO (XI
    (XO (XO (XI (XI XH))))))) :: ((Npos (XI (XO (XO (XO (XO (XI
    XH))))))) :: ((Npos (XO (XI (XO (XO (XI (XI XH))))))) :: ((Npos (XI (XI
    (XI (XO (XO (XI XH))))))) :: ((Npos (XI (XI (XO (XO (XI (XI
    XH))))))) :: []))))))), (RTT_IdentifierOrKeyword KK_VarArgs)) :: ((((Npos
    (XO (XI (XI (XO (XI (XI XH))))))) :: ((Npos (XI (XO (XO (XI (XO (XI
    XH))))))) :: ((Npos (XO (XI (XO (XO (XI (XI XH))))))) :: ((Npos (XO (XO
    (XI (XO (XI (XI XH))))))) :: ((Npos (XI (XO (XI (XO (XI (XI
    XH))))))) :: ((Npos (XI (XO (XO (XO (XO (XI XH))))))) :: ((Npos (XO (XO
    (XI (XI (XO (XI XH))))))) :: []))))))), (RTT_IdentifierOrKeyword
    KK_Virtual)) :: ((((Npos (XI (XI (XI (XO (XI (XI XH))))))) :: ((Npos (XO
    (XO (XO (XI (XO (XI XH))))))) :: ((Npos (XI (XO (XO (XI (XO (XI
    XH))))))) :: ((Npos (XO (XO (XI (XI (XO (XI XH))))))) :: ((Npos (XI (XO
    (XI (XO (XO (XI XH))))))) :: []))))), (RTT_Keyword KK_While)) :: ((((Npos
    (XI (XI (XI (XO (XI (XI XH))))))) :: ((Npos (XI (XO (XO (XI (XO (XI
    XH))))))) :: ((Npos (XO (XI (XI (XI (XO (XI XH))))))) :: ((Npos (XI (XO
    (XO (XO (XO (XI XH))))))) :: ((Npos (XO (XO (XO (XO (XI (XI
    XH))))))) :: ((Npos (XI (XO (XO (XI (XO (XI XH))))))) :: [])))))),
    (RTT_IdentifierOrKeyword KK_WinApi)) :: ((((Npos (XI (XI (XI (XO (XI (XI
    XH))))))) :: ((Npos (XI (XO (XO (XI (XO (XI XH))))))) :: ((Npos (XO (XO
    (XI (XO (XI (XI XH))))))) :: ((Npos (XO (XO (XO (XI (XO (XI
    XH))))))) :: [])))), (RTT_Keyword KK_With)) :: ((((Npos (XI (XI (XI (XO
    (XI (XI XH))))))) :: ((Npos (XO (XI (XO (XO (XI (XI XH))))))) :: ((Npos
    (XI (XO (XO (XI (XO (XI XH))))))) :: ((Npos (XO (XO (XI (XO (XI (XI
    XH))))))) :: ((Npos (XI (XO (XI (XO (XO (XI XH))))))) :: []))))),
    (RTT_IdentifierOrKeyword KK_Write)) :: ((((Npos (XI (XI (XI (XO (XI (XI
    XH))))))) :: ((Npos (XO (XI (XO (XO (XI (XI XH))))))) :: ((Npos (XI (XO
    (XO (XI (XO (XI XH))))))) :: ((Npos (XO (XO (XI (XO (XI (XI
    XH))))))) :: ((Npos (XI (XO (XI (XO (XO (XI XH))))))) :: ((Npos (XI (XI
    (XI (XI (XO (XI XH))))))) :: ((Npos (XO (XI (XI (XI (XO (XI
    XH))))))) :: ((Npos (XO (XO (XI (XI (XO (XI XH))))))) :: ((Npos (XI (XO
    (XO (XI (XI (XI XH))))))) :: []))))))))), (RTT_IdentifierOrKeyword
    KK_WriteOnly)) :: ((((Npos (XO (XO (XO (XI (XI (XI XH))))))) :: ((Npos
    (XI (XI (XI (XI (XO (XI XH))))))) :: ((Npos (XO (XI (XO (XO (XI (XI
    XH))))))) :: []))), (RTT_Keyword
    KK_Xor)) :: [])))))))))))))))))))))))))))))))))))))))))))))))))))))))))))))))))))))))))))))))))))))))))))))))))))))))))))))))))))))))))

(** val kEYWORD_ASSO_VALUES_gen : n list **)

let kEYWORD_ASSO_VALUES_gen =
  (Npos (XO (XO (XI (XO (XI (XI (XI XH)))))))) :: ((Npos (XO (XO (XI (XO (XI
    (XI (XI XH)))))))) :: ((Npos (XO (XO (XI (XO (XI (XI (XI
    XH)))))))) :: ((Npos (XO (XO (XI (XO (XI (XI (XI XH)))))))) :: ((Npos (XO
    (XO (XI (XO (XI (XI (XI XH)))))))) :: ((Npos (XO (XO (XI (XO (XI (XI (XI
    XH)))))))) :: ((Npos (XO (XO (XI (XO (XI (XI (XI XH)))))))) :: ((Npos (XO
    (XO (XI (XO (XI (XI (XI XH)))))))) :: ((Npos (XO (XO (XI (XO (XI (XI (XI
    XH)))))))) :: ((Npos (XO (XO (XI (XO (XI (XI (XI XH)))))))) :: ((Npos (XO
    (XO (XI (XO (XI (XI (XI XH)))))))) :: ((Npos (XO (XO (XI (XO (XI (XI (XI
    XH)))))))) :: ((Npos (XO (XO (XI (XO (XI (XI (XI XH)))))))) :: ((Npos (XO
    (XO (XI (XO (XI (XI (XI XH)))))))) :: ((Npos (XO (XO (XI (XO (XI (XI (XI
    XH)))))))) :: ((Npos (XO (XO (XI (XO (XI (XI (XI XH)))))))) :: ((Npos (XO
    (XO (XI (XO (XI (XI (XI XH)))))))) :: ((Npos (XO (XO (XI (XO (XI (XI (XI
    XH)))))))) :: ((Npos (XO (XO (XI (XO (XI (XI (XI XH)))))))) :: ((Npos (XO
    (XO (XI (XO (XI (XI (XI XH)))))))) :: ((Npos (XO (XO (XI (XO (XI (XI (XI
    XH)))))))) :: ((Npos (XO (XO (XI (XO (XI (XI (XI XH)))))))) :: ((Npos (XO
    (XO (XI (XO (XI (XI (XI XH)))))))) :: ((Npos (XO (XO (XI (XO (XI (XI (XI
    XH)))))))) :: ((Npos (XO (XO (XI (XO (XI (XI (XI XH)))))))) :: ((Npos (XO
    (XO (XI (XO (XI (XI (XI XH)))))))) :: ((Npos (XO (XO (XI (XO (XI (XI (XI
    XH)))))))) :: ((Npos (XO (XO (XI (XO (XI (XI (XI XH)))))))) :: ((Npos (XO
    (XO (XI (XO (XI (XI (XI XH)))))))) :: ((Npos (XO (XO (XI (XO (XI (XI (XI
    XH)))))))) :: ((Npos (XO (XO (XI (XO (XI (XI (XI XH)))))))) :: ((Npos (XO
    (XO (XI (XO (XI (XI (XI XH)))))))) :: ((Npos (XO (XO (XI (XO (XI (XI (XI
    XH)))))))) :: ((Npos (XO (XO (XI (XO (XI (XI (XI XH)))))))) :: ((Npos (XO
    (XO (XI (XO (XI (XI (XI XH)))))))) :: ((Npos (XO (XO (XI (XO (XI (XI (XI
    XH)))))))) :: ((Npos (XO (XO (XI (XO (XI (XI (XI XH)))))))) :: ((Npos (XO
    (XO (XI (XO (XI (XI (XI XH)))))))) :: ((Npos (XO (XO (XI (XO (XI (XI (XI
    XH)))))))) :: ((Npos (XO (XO (XI (XO (XI (XI (XI XH)))))))) :: ((Npos (XO
    (XO (XI (XO (XI (XI (XI XH)))))))) :: ((Npos (XO (XO (XI (XO (XI (XI (XI
    XH)))))))) :: ((Npos (XO (XO (XI (XO (XI (XI (XI XH)))))))) :: ((Npos (XO
    (XO (XI (XO (XI (XI (XI XH)))))))) :: ((Npos (XO (XO (XI (XO (XI (XI (XI
    XH)))))))) :: ((Npos (XO (XO (XI (XO (XI (XI (XI XH)))))))) :: ((Npos (XO
    (XO (XI (XO (XI (XI (XI XH)))))))) :: ((Npos (XO (XO (XI (XO (XI (XI (XI
    XH)))))))) :: ((Npos (XO (XO (XI (XO (XI (XI (XI XH)))))))) :: ((Npos (XO
    (XO (XI (XO (XI (XI (XI XH)))))))) :: ((Npos (XO (XO (XI (XO (XI (XI (XI
    XH)))))))) :: ((Npos (XO (XO (XI (XO (XI (XI (XI XH)))))))) :: ((Npos (XO
    (XO (XI (XO (XI (XI (XI XH)))))))) :: ((Npos (XO (XO (XI (XO (XI (XI (XI
    XH)))))))) :: ((Npos (XO (XO (XI (XO (XI (XI (XI XH)))))))) :: ((Npos (XO
    (XO (XI (XO (XI (XI (XI XH)))))))) :: ((Npos (XO (XO (XI (XO (XI (XI (XI
    XH)))))))) :: ((Npos (XO (XO (XI (XO (XI (XI (XI XH)))))))) :: ((Npos (XO
    (XO (XI (XO (XI (XI (XI XH)))))))) :: ((Npos (XO (XO (XI (XO (XI (XI (XI
    XH)))))))) :: ((Npos (XO (XO (XI (XO (XI (XI (XI XH)))))))) :: ((Npos (XO
    (XO (XI (XO (XI (XI (XI XH)))))))) :: ((Npos (XO (XO (XI (XO (XI (XI (XI
    XH)))))))) :: ((Npos (XO (XO (XI (XO (XI (XI (XI XH)))))))) :: ((Npos (XO
    (XO (XI (XO (XI (XI (XI XH)))))))) :: ((Npos (XI (XO (XI (XI
    XH))))) :: ((Npos (XO (XO (XI (XI (XO (XO XH))))))) :: ((Npos (XI (XO (XI
    (XI (XO XH)))))) :: ((Npos (XO (XO (XO XH)))) :: ((Npos (XO (XI
    XH))) :: ((Npos (XI (XI (XI (XI XH))))) :: ((Npos (XO (XI (XI (XI (XO (XO
    (XO XH)))))))) :: ((Npos (XO (XI (XO (XO (XI (XO XH))))))) :: ((Npos (XO
    (XI (XO (XO XH))))) :: ((Npos (XI (XO (XO XH)))) :: ((Npos (XO (XO (XI
    (XO (XI (XI (XI XH)))))))) :: ((Npos (XI (XO (XO (XI (XO
    XH)))))) :: ((Npos (XI (XO (XO (XO (XI XH)))))) :: ((Npos (XO (XI (XI
    XH)))) :: ((Npos (XO (XO (XO XH)))) :: ((Npos (XO (XO (XO (XO (XO (XO
    XH))))))) :: ((Npos (XO (XO (XO XH)))) :: ((Npos (XO (XI XH))) :: ((Npos
    (XO (XI XH))) :: ((Npos (XI (XO XH))) :: ((Npos (XI (XI (XI (XI (XO
    XH)))))) :: ((Npos (XI (XI (XO (XI (XI (XO XH))))))) :: ((Npos (XI (XI
    (XI (XO (XI (XI XH))))))) :: ((Npos (XI (XI (XO (XO (XI (XO
    XH))))))) :: ((Npos (XO (XI (XO (XI (XO (XO XH))))))) :: ((Npos (XO (XO
    (XI (XO (XI (XI (XI XH)))))))) :: ((Npos (XO (XO (XI (XO (XI (XI (XI
    XH)))))))) :: ((Npos (XO (XO (XI (XO (XI (XI (XI XH)))))))) :: ((Npos (XO
    (XO (XI (XO (XI (XI (XI XH)))))))) :: ((Npos (XO (XO (XI (XO (XI (XI (XI
    XH)))))))) :: ((Npos (XO (XO (XI (XO (XI (XI (XI XH)))))))) :: ((Npos (XO
    (XO (XI (XO (XI (XI (XI XH)))))))) :: ((Npos (XI (XO (XI (XI
    XH))))) :: ((Npos (XO (XO (XI (XI (XO (XO XH))))))) :: ((Npos (XI (XO (XI
    (XI (XO XH)))))) :: ((Npos (XO (XO (XO XH)))) :: ((Npos (XO (XI
    XH))) :: ((Npos (XI (XI (XI (XI XH))))) :: ((Npos (XO (XI (XI (XI (XO (XO
    (XO XH)))))))) :: ((Npos (XO (XI (XO (XO (XI (XO XH))))))) :: ((Npos (XO
    (XI (XO (XO XH))))) :: ((Npos (XI (XO (XO XH)))) :: ((Npos (XO (XO (XI
    (XO (XI (XI (XI XH)))))))) :: ((Npos (XI (XO (XO (XI (XO
    XH)))))) :: ((Npos (XI (XO (XO (XO (XI XH)))))) :: ((Npos (XO (XI (XI
    XH)))) :: ((Npos (XO (XO (XO XH)))) :: ((Npos (XO (XO (XO (XO (XO (XO
    XH))))))) :: ((Npos (XO (XO (XO XH)))) :: ((Npos (XO (XI XH))) :: ((Npos
    (XO (XI XH))) :: ((Npos (XI (XO XH))) :: ((Npos (XI (XI (XI (XI (XO
    XH)))))) :: ((Npos (XI (XI (XO (XI (XI (XO XH))))))) :: ((Npos (XI (XI
    (XI (XO (XI (XI XH))))))) :: ((Npos (XI (XI (XO (XO (XI (XO
    XH))))))) :: ((Npos (XO (XI (XO (XI (XO (XO XH))))))) :: ((Npos (XO (XO
    (XI (XO (XI (XI (XI XH)))))))) :: ((Npos (XO (XO (XI (XO (XI (XI (XI
    XH)))))))) :: ((Npos (XO (XO (XI (XO (XI (XI (XI XH)))))))) :: ((Npos (XO
    (XO (XI (XO (XI (XI (XI XH)))))))) :: ((Npos (XO (XO (XI (XO (XI (XI (XI
    XH)))))))) :: ((Npos (XO (XO (XI (XO (XI (XI (XI XH)))))))) :: ((Npos (XO
    (XO (XI (XO (XI (XI (XI XH)))))))) :: ((Npos (XO (XO (XI (XO (XI (XI (XI
    XH)))))))) :: ((Npos (XO (XO (XI (XO (XI (XI (XI XH)))))))) :: ((Npos (XO
    (XO (XI (XO (XI (XI (XI XH)))))))) :: ((Npos (XO (XO (XI (XO (XI (XI (XI
    XH)))))))) :: ((Npos (XO (XO (XI (XO (XI (XI (XI XH)))))))) :: ((Npos (XO
    (XO (XI (XO (XI (XI (XI XH)))))))) :: ((Npos (XO (XO (XI (XO (XI (XI (XI
    XH)))))))) :: ((Npos (XO (XO (XI (XO (XI (XI (XI XH)))))))) :: ((Npos (XO
    (XO (XI (XO (XI (XI (XI XH)))))))) :: ((Npos (XO (XO (XI (XO (XI (XI (XI
    XH)))))))) :: ((Npos (XO (XO (XI (XO (XI (XI (XI XH)))))))) :: ((Npos (XO
    (XO (XI (XO (XI (XI (XI XH)))))))) :: ((Npos (XO (XO (XI (XO (XI (XI (XI
    XH)))))))) :: ((Npos (XO (XO (XI (XO (XI (XI (XI XH)))))))) :: ((Npos (XO
    (XO (XI (XO (XI (XI (XI XH)))))))) :: ((Npos (XO (XO (XI (XO (XI (XI (XI
    XH)))))))) :: ((Npos (XO (XO (XI (XO (XI (XI (XI XH)))))))) :: ((Npos (XO
    (XO (XI (XO (XI (XI (XI XH)))))))) :: ((Npos (XO (XO (XI (XO (XI (XI (XI
    XH)))))))) :: ((Npos (XO (XO (XI (XO (XI (XI (XI XH)))))))) :: ((Npos (XO
    (XO (XI (XO (XI (XI (XI XH)))))))) :: ((Npos (XO (XO (XI (XO (XI (XI (XI
    XH)))))))) :: ((Npos (XO (XO (XI (XO (XI (XI (XI XH)))))))) :: ((Npos (XO
    (XO (XI (XO (XI (XI (XI XH)))))))) :: ((Npos (XO (XO (XI (XO (XI (XI (XI
    XH)))))))) :: ((Npos (XO (XO (XI (XO (XI (XI (XI XH)))))))) :: ((Npos (XO
    (XO (XI (XO (XI (XI (XI XH)))))))) :: ((Npos (XO (XO (XI (XO (XI (XI (XI
    XH)))))))) :: ((Npos (XO (XO (XI (XO (XI (XI (XI XH)))))))) :: ((Npos (XO
    (XO (XI (XO (XI (XI (XI XH)))))))) :: ((Npos (XO (XO (XI (XO (XI (XI (XI
    XH)))))))) :: ((Npos (XO (XO (XI (XO (XI (XI (XI XH)))))))) :: ((Npos (XO
    (XO (XI (XO (XI (XI (XI XH)))))))) :: ((Npos (XO (XO (XI (XO (XI (XI (XI
    XH)))))))) :: ((Npos (XO (XO (XI (XO (XI (XI (XI XH)))))))) :: ((Npos (XO
    (XO (XI (XO (XI (XI (XI XH)))))))) :: ((Npos (XO (XO (XI (XO (XI (XI (XI
    XH)))))))) :: ((Npos (XO (XO (XI (XO (XI (XI (XI XH)))))))) :: ((Npos (XO
    (XO (XI (XO (XI (XI (XI XH)))))))) :: ((Npos (XO (XO (XI (XO (XI (XI (XI
    XH)))))))) :: ((Npos (XO (XO (XI (XO (XI (XI (XI XH)))))))) :: ((Npos (XO
    (XO (XI (XO (XI (XI (XI XH)))))))) :: ((Npos (XO (XO (XI (XO (XI (XI (XI
    XH)))))))) :: ((Npos (XO (XO (XI (XO (XI (XI (XI XH)))))))) :: ((Npos (XO
    (XO (XI (XO (XI (XI (XI XH)))))))) :: ((Npos (XO (XO (XI (XO (XI (XI (XI
    XH)))))))) :: ((Npos (XO (XO (XI (XO (XI (XI (XI XH)))))))) :: ((Npos (XO
    (XO (XI (XO (XI (XI (XI XH)))))))) :: ((Npos (XO (XO (XI (XO (XI (XI (XI
    XH)))))))) :: ((Npos (XO (XO (XI (XO (XI (XI (XI XH)))))))) :: ((Npos (XO
    (XO (XI (XO (XI (XI (XI XH)))))))) :: ((Npos (XO (XO (XI (XO (XI (XI (XI
    XH)))))))) :: ((Npos (XO (XO (XI (XO (XI (XI (XI XH)))))))) :: ((Npos (XO
    (XO (XI (XO (XI (XI (XI XH)))))))) :: ((Npos (XO (XO (XI (XO (XI (XI (XI
    XH)))))))) :: ((Npos (XO (XO (XI (XO (XI (XI (XI XH)))))))) :: ((Npos (XO
    (XO (XI (XO (XI (XI (XI XH)))))))) :: ((Npos (XO (XO (XI (XO (XI (XI (XI
    XH)))))))) :: ((Npos (XO (XO (XI (XO (XI (XI (XI XH)))))))) :: ((Npos (XO
    (XO (XI (XO (XI (XI (XI XH)))))))) :: ((Npos (XO (XO (XI (XO (XI (XI (XI
    XH)))))))) :: ((Npos (XO (XO (XI (XO (XI (XI (XI XH)))))))) :: ((Npos (XO
    (XO (XI (XO (XI (XI (XI XH)))))))) :: ((Npos (XO (XO (XI (XO (XI (XI (XI
    XH)))))))) :: ((Npos (XO (XO (XI (XO (XI (XI (XI XH)))))))) :: ((Npos (XO
    (XO (XI (XO (XI (XI (XI XH)))))))) :: ((Npos (XO (XO (XI (XO (XI (XI (XI
    XH)))))))) :: ((Npos (XO (XO (XI (XO (XI (XI (XI XH)))))))) :: ((Npos (XO
    (XO (XI (XO (XI (XI (XI XH)))))))) :: ((Npos (XO (XO (XI (XO (XI (XI (XI
    XH)))))))) :: ((Npos (XO (XO (XI (XO (XI (XI (XI XH)))))))) :: ((Npos (XO
    (XO (XI (XO (XI (XI (XI XH)))))))) :: ((Npos (XO (XO (XI (XO (XI (XI (XI
    XH)))))))) :: ((Npos (XO (XO (XI (XO (XI (XI (XI XH)))))))) :: ((Npos (XO
    (XO (XI (XO (XI (XI (XI XH)))))))) :: ((Npos (XO (XO (XI (XO (XI (XI (XI
    XH)))))))) :: ((Npos (XO (XO (XI (XO (XI (XI (XI XH)))))))) :: ((Npos (XO
    (XO (XI (XO (XI (XI (XI XH)))))))) :: ((Npos (XO (XO (XI (XO (XI (XI (XI
    XH)))))))) :: ((Npos (XO (XO (XI (XO (XI (XI (XI XH)))))))) :: ((Npos (XO
    (XO (XI (XO (XI (XI (XI XH)))))))) :: ((Npos (XO (XO (XI (XO (XI (XI (XI
    XH)))))))) :: ((Npos (XO (XO (XI (XO (XI (XI (XI XH)))))))) :: ((Npos (XO
    (XO (XI (XO (XI (XI (XI XH)))))))) :: ((Npos (XO (XO (XI (XO (XI (XI (XI
    XH)))))))) :: ((Npos (XO (XO (XI (XO (XI (XI (XI XH)))))))) :: ((Npos (XO
    (XO (XI (XO (XI (XI (XI XH)))))))) :: ((Npos (XO (XO (XI (XO (XI (XI (XI
    XH)))))))) :: ((Npos (XO (XO (XI (XO (XI (XI (XI XH)))))))) :: ((Npos (XO
    (XO (XI (XO (XI (XI (XI XH)))))))) :: ((Npos (XO (XO (XI (XO (XI (XI (XI
    XH)))))))) :: ((Npos (XO (XO (XI (XO (XI (XI (XI XH)))))))) :: ((Npos (XO
    (XO (XI (XO (XI (XI (XI XH)))))))) :: ((Npos (XO (XO (XI (XO (XI (XI (XI
    XH)))))))) :: ((Npos (XO (XO (XI (XO (XI (XI (XI XH)))))))) :: ((Npos (XO
    (XO (XI (XO (XI (XI (XI XH)))))))) :: ((Npos (XO (XO (XI (XO (XI (XI (XI
    XH)))))))) :: ((Npos (XO (XO (XI (XO (XI (XI (XI XH)))))))) :: ((Npos (XO
    (XO (XI (XO (XI (XI (XI XH)))))))) :: ((Npos (XO (XO (XI (XO (XI (XI (XI
    XH)))))))) :: ((Npos (XO (XO (XI (XO (XI (XI (XI XH)))))))) :: ((Npos (XO
    (XO (XI (XO (XI (XI (XI XH)))))))) :: ((Npos (XO (XO (XI (XO (XI (XI (XI
    XH)))))))) :: ((Npos (XO (XO (XI (XO (XI (XI (XI XH)))))))) :: ((Npos (XO
    (XO (XI (XO (XI (XI (XI XH)))))))) :: ((Npos (XO (XO (XI (XO (XI (XI (XI
    XH)))))))) :: ((Npos (XO (XO (XI (XO (XI (XI (XI XH)))))))) :: ((Npos (XO
    (XO (XI (XO (XI (XI (XI XH)))))))) :: ((Npos (XO (XO (XI (XO (XI (XI (XI
    XH)))))))) :: ((Npos (XO (XO (XI (XO (XI (XI (XI XH)))))))) :: ((Npos (XO
    (XO (XI (XO (XI (XI (XI XH)))))))) :: ((Npos (XO (XO (XI (XO (XI (XI (XI
    XH)))))))) :: ((Npos (XO (XO (XI (XO (XI (XI (XI XH)))))))) :: ((Npos (XO
    (XO (XI (XO (XI (XI (XI XH)))))))) :: ((Npos (XO (XO (XI (XO (XI (XI (XI
    XH)))))))) :: ((Npos (XO (XO (XI (XO (XI (XI (XI XH)))))))) :: ((Npos (XO
    (XO (XI (XO (XI (XI (XI XH)))))))) :: ((Npos (XO (XO (XI (XO (XI (XI (XI
    XH)))))))) :: ((Npos (XO (XO (XI (XO (XI (XI (XI XH)))))))) :: ((Npos (XO
    (XO (XI (XO (XI (XI (XI XH)))))))) :: ((Npos (XO (XO (XI (XO (XI (XI (XI
    XH)))))))) :: ((Npos (XO (XO (XI (XO (XI (XI (XI XH)))))))) :: ((Npos (XO
    (XO (XI (XO (XI (XI (XI XH)))))))) :: ((Npos (XO (XO (XI (XO (XI (XI (XI
    XH)))))))) :: ((Npos (XO (XO (XI (XO (XI (XI (XI XH)))))))) :: ((Npos (XO
    (XO (XI (XO (XI (XI (XI XH)))))))) :: ((Npos (XO (XO (XI (XO (XI (XI (XI
    XH)))))))) :: [])))))))))))))))))))))))))))))))))))))))))))))))))))))))))))))))))))))))))))))))))))))))))))))))))))))))))))))))))))))))))))))))))))))))))))))))))))))))))))))))))))))))))))))))))))))))))))))))))))))))))))))))))))))))))))))))))))))))))))))))))))))))))))))))

(** val find_first : (byte -> bool) -> bytes -> nat option **)

let rec find_first p = function
| [] -> None
| b :: t -> if p b then Some O else option_map (fun x -> S x) (find_first p t)

(** val find_sub : bytes -> bytes -> nat option **)

let rec find_sub pat l =
  if is_prefix pat l
  then Some O
  else (match l with
        | [] -> None
        | _ :: t -> option_map (fun x -> S x) (find_sub pat t))

(** val next_is : byte -> bytes -> bool **)

let next_is c = function
| [] -> false
| x :: _ -> N.eqb x c

(** val count_ws : bytes -> nat **)

let rec count_ws = function
| [] -> O
| a :: t ->
  if N.leb a (Npos (XO (XO (XO (XO (XO XH))))))
  then S (count_ws t)
  else (match t with
        | [] -> O
        | b :: l0 ->
          (match l0 with
           | [] -> O
           | c :: t' ->
             if (&&)
                  ((&&)
                    (N.eqb a (Npos (XI (XI (XO (XO (XO (XI (XI XH)))))))))
                    (N.eqb b (Npos (XO (XO (XO (XO (XO (XO (XO XH))))))))))
                  (N.eqb c (Npos (XO (XO (XO (XO (XO (XO (XO XH)))))))))
             then S (S (S (count_ws t')))
             else O))

(** val all_ws : bytes -> bool **)

let all_ws l =
  Nat.eqb (count_ws l) (length l)

(** val trimmed_len : bytes -> nat **)

let rec trimmed_len l = match l with
| [] -> O
| _ :: t -> if all_ws l then O else S (trimmed_len t)

(** val is_ident_ascii : byte -> bool **)

let is_ident_ascii b =
  (||) (is_alnum b) (N.eqb b (Npos (XI (XI (XI (XI (XI (XO XH))))))))

(** val is_dec : byte -> bool **)

let is_dec b =
  (||) (N.eqb b (Npos (XI (XI (XI (XI (XI (XO XH)))))))) (is_digit b)

(** val is_hex : byte -> bool **)

let is_hex b =
  (||)
    ((||)
      ((||) (N.eqb b (Npos (XI (XI (XI (XI (XI (XO XH)))))))) (is_digit b))
      ((&&) (N.leb (Npos (XI (XO (XO (XO (XO (XI XH))))))) b)
        (N.leb b (Npos (XO (XI (XI (XO (XO (XI XH))))))))))
    ((&&) (N.leb (Npos (XI (XO (XO (XO (XO (XO XH))))))) b)
      (N.leb b (Npos (XO (XI (XI (XO (XO (XO XH)))))))))

(** val is_bin : byte -> bool **)

let is_bin b =
  (||)
    ((||) (N.eqb b (Npos (XI (XI (XI (XI (XI (XO XH))))))))
      (N.eqb b (Npos (XO (XO (XO (XO (XI XH))))))))
    (N.eqb b (Npos (XI (XO (XO (XO (XI XH)))))))

(** val count_decimal : bytes -> nat **)

let count_decimal l =
  count_while is_dec l

(** val count_hex : bytes -> nat **)

let count_hex l =
  count_while is_hex l

(** val count_binary : bytes -> nat **)

let count_binary l =
  count_while is_bin l

(** val count_full_decimal : bytes -> nat **)

let count_full_decimal l =
  if next_is (Npos (XI (XI (XI (XI (XI (XO XH))))))) l
  then O
  else count_decimal l

(** val kEYWORDS_table : (bytes * rawTokenType) list **)

let kEYWORDS_table =
  kEYWORDS_gen

(** val eq_ignore_case : bytes -> bytes -> bool **)

let eq_ignore_case w kw =
  bytes_eqb (lower w) kw

(** val keyword_lookup :
    (bytes * rawTokenType) list -> bytes -> rawTokenType **)

let rec keyword_lookup tbl w =
  match tbl with
  | [] -> RTT_Identifier
  | p :: rest ->
    let (k, ty) = p in
    if eq_ignore_case w k then ty else keyword_lookup rest w

(** val get_word_token_type : bytes -> rawTokenType **)

let get_word_token_type w =
  keyword_lookup kEYWORDS_table w

(** val kEYWORD_ASSO_VALUES : n list **)

let kEYWORD_ASSO_VALUES =
  kEYWORD_ASSO_VALUES_gen

(** val asso : byte -> n **)

let asso b =
  nth (N.to_nat b) kEYWORD_ASSO_VALUES (Npos (XO (XO (XI (XO (XI (XI (XI
    XH))))))))

(** val hash_keyword : bytes -> n **)

let hash_keyword w =
  let len = length w in
  N.add
    (N.add
      (N.add (N.of_nat len)
        (if Nat.leb (S (S (S O))) len then asso (nth (S (S O)) w N0) else N0))
      (if Nat.leb (S (S O)) len then asso (nth (S O) w N0) else N0))
    (if Nat.leb (S O) len
     then N.add (asso (nth O w N0)) (asso (last w N0))
     else N0)

(** val set_nth : nat -> 'a1 -> 'a1 list -> 'a1 list **)

let rec set_nth i x = function
| [] -> []
| a :: t -> (match i with
             | O -> x :: t
             | S j -> a :: (set_nth j x t))

(** val make_keyword_lookup_table :
    (bytes * rawTokenType) list -> (bytes * rawTokenType) option list ->
    (bytes * rawTokenType) option list option **)

let rec make_keyword_lookup_table kws out =
  match kws with
  | [] -> Some out
  | kw :: rest ->
    let h = N.to_nat (hash_keyword (fst kw)) in
    (match nth_error out h with
     | Some o ->
       (match o with
        | Some _ -> None
        | None -> make_keyword_lookup_table rest (set_nth h (Some kw) out))
     | None -> None)

(** val kEYWORD_LOOKUP_TABLE : (bytes * rawTokenType) option list option **)

let kEYWORD_LOOKUP_TABLE =
  make_keyword_lookup_table kEYWORDS_table
    (repeat None (N.to_nat (nth O kEYWORD_ASSO_VALUES N0)))

(** val mAX_WORD_LENGTH : nat **)

let mAX_WORD_LENGTH =
  fold_right (fun kw acc -> Nat.max (length (fst kw)) acc) O kEYWORDS_table

(** val get_word_token_type_hash : bytes -> rawTokenType option **)

let get_word_token_type_hash w =
  match kEYWORD_LOOKUP_TABLE with
  | Some tbl ->
    Some
      (if Nat.leb (length w) mAX_WORD_LENGTH
       then (match nth_error tbl (N.to_nat (hash_keyword w)) with
             | Some o ->
               (match o with
                | Some p ->
                  let (candidate, keyword) = p in
                  if eq_ignore_case w candidate
                  then keyword
                  else RTT_Identifier
                | None -> RTT_Identifier)
             | None -> RTT_Identifier)
       else RTT_Identifier)
  | None -> None

(** val is_u3000_at : bytes -> bool **)

let is_u3000_at l =
  is_prefix ((Npos (XI (XI (XO (XO (XO (XI (XI XH)))))))) :: ((Npos (XO (XO
    (XO (XO (XO (XO (XO XH)))))))) :: ((Npos (XO (XO (XO (XO (XO (XO (XO
    XH)))))))) :: []))) l

(** val ident_end_generic : bytes -> nat **)

let rec ident_end_generic l = match l with
| [] -> O
| b :: t ->
  if is_ident_ascii b
  then S (ident_end_generic t)
  else if (&&) (N.leb (Npos (XO (XO (XO (XO (XO (XO (XO XH)))))))) b)
            (negb (is_u3000_at l))
       then S (ident_end_generic t)
       else O

(** val to_i8 : byte -> z **)

let to_i8 b =
  if N.ltb b (Npos (XO (XO (XO (XO (XO (XO (XO XH))))))))
  then Z.of_N b
  else Z.sub (Z.of_N b) (Zpos (XO (XO (XO (XO (XO (XO (XO (XO XH)))))))))

(** val range_mask : byte -> byte -> byte -> bool **)

let range_mask x lo hi =
  (&&) (Z.ltb (to_i8 x) (Z.add (to_i8 hi) (Zpos XH)))
    (Z.ltb (Z.sub (to_i8 lo) (Zpos XH)) (to_i8 x))

(** val ident_mask_bit : byte -> bool **)

let ident_mask_bit x =
  (||) (N.eqb x (Npos (XI (XI (XI (XI (XI (XO XH))))))))
    ((||)
      (range_mask x (Npos (XI (XO (XO (XO (XO (XO XH))))))) (Npos (XO (XI (XO
        (XI (XI (XO XH))))))))
      ((||)
        (range_mask x (Npos (XI (XO (XO (XO (XO (XI XH))))))) (Npos (XO (XI
          (XO (XI (XI (XI XH))))))))
        (range_mask x (Npos (XO (XO (XO (XO (XI XH)))))) (Npos (XI (XO (XO
          (XI (XI XH)))))))))

(** val any_non_ascii : bytes -> bool **)

let any_non_ascii chunk =
  existsb (fun b -> N.leb (Npos (XO (XO (XO (XO (XO (XO (XO XH)))))))) b)
    chunk

(** val trailing_ones : bool list -> nat **)

let trailing_ones mask0 =
  count_while (fun x -> x) mask0

(** val avx2_loop : nat -> bytes -> nat **)

let rec avx2_loop fuel l =
  match fuel with
  | O -> ident_end_generic l
  | S f ->
    if Nat.leb (S (S (S (S (S (S (S (S (S (S (S (S (S (S (S (S (S (S (S (S (S
         (S (S (S (S (S (S (S (S (S (S (S O))))))))))))))))))))))))))))))))
         (length l)
    then let chunk =
           firstn (S (S (S (S (S (S (S (S (S (S (S (S (S (S (S (S (S (S (S (S
             (S (S (S (S (S (S (S (S (S (S (S (S
             O)))))))))))))))))))))))))))))))) l
         in
         if any_non_ascii chunk
         then ident_end_generic l
         else let mask0 = map ident_mask_bit chunk in
              if negb (forallb (fun x -> x) mask0)
              then trailing_ones mask0
              else add (S (S (S (S (S (S (S (S (S (S (S (S (S (S (S (S (S (S
                     (S (S (S (S (S (S (S (S (S (S (S (S (S (S
                     O))))))))))))))))))))))))))))))))
                     (avx2_loop f
                       (skipn (S (S (S (S (S (S (S (S (S (S (S (S (S (S (S (S
                         (S (S (S (S (S (S (S (S (S (S (S (S (S (S (S (S
                         O)))))))))))))))))))))))))))))))) l))
    else ident_end_generic l

(** val ident_end_avx2 : bytes -> nat **)

let ident_end_avx2 l =
  avx2_loop (length l) l

(** val find_identifier_end : bytes -> nat **)

let find_identifier_end =
  ident_end_generic

(** val unicode_identifier : bytes -> nat **)

let unicode_identifier t =
  let c = count_while is_cont t in add c (find_identifier_end (skipn c t))

(** val is_asm_ident : byte -> bool **)

let is_asm_ident b =
  (||) (is_ident_ascii b) (N.eqb b (Npos (XO (XO (XO (XO (XO (XO XH))))))))

(** val asm_label : bytes -> nat **)

let asm_label t =
  count_while is_asm_ident t

(** val dec_number_literal : bytes -> nat **)

let dec_number_literal l =
  let n1 = count_decimal l in
  let r1 = skipn n1 l in
  let n2 =
    if next_is (Npos (XO (XI (XI (XI (XO XH)))))) r1
    then let f = count_full_decimal (tl r1) in if Nat.eqb f O then O else S f
    else O
  in
  let r2 = skipn n2 r1 in
  let n3 =
    if (||) (next_is (Npos (XI (XO (XI (XO (XO (XI XH))))))) r2)
         (next_is (Npos (XI (XO (XI (XO (XO (XO XH))))))) r2)
    then let r3 = tl r2 in
         if (||) (next_is (Npos (XI (XI (XO (XI (XO XH)))))) r3)
              (next_is (Npos (XI (XO (XI (XI (XO XH)))))) r3)
         then S (S (count_full_decimal (tl r3)))
         else S (count_full_decimal r3)
    else O
  in
  add (add n1 n2) n3

(** val asm_number_literal : byte -> bytes -> nat * rawTokenType **)

let asm_number_literal first t =
  let n0 = count_hex t in
  let r = skipn n0 t in
  if (||) (next_is (Npos (XI (XI (XI (XI (XO (XO XH))))))) r)
       (next_is (Npos (XI (XI (XI (XI (XO (XI XH))))))) r)
  then ((S n0), (RTT_NumberLiteral NK_Octal))
  else if (||) (next_is (Npos (XO (XO (XO (XI (XO (XO XH))))))) r)
            (next_is (Npos (XO (XO (XO (XI (XO (XI XH))))))) r)
       then ((S n0), (RTT_NumberLiteral NK_Hex))
       else let prev = nth n0 (first :: t) N0 in
            if (||) (N.eqb prev (Npos (XO (XI (XO (XO (XO (XO XH))))))))
                 (N.eqb prev (Npos (XO (XI (XO (XO (XO (XI XH))))))))
            then (n0, (RTT_NumberLiteral NK_Binary))
            else (n0, (RTT_NumberLiteral NK_Decimal))

type tl_state =
| TL_E
| TL_H
| TL_D
| TL_X0
| TL_X
| TL_B0
| TL_B
| TL_S

type tl_act =
| TGo of tl_state
| TStop of textLiteralKind

(** val tl_step_E : byte -> tl_act **)

let tl_step_E b =
  if N.eqb b (Npos (XI (XI (XO (XO (XO XH))))))
  then TGo TL_H
  else if N.eqb b (Npos (XI (XI (XI (XO (XO XH))))))
       then TGo TL_S
       else TStop TK_SingleLine

(** val tl_step : tl_state -> byte -> tl_act **)

let tl_step s b =
  match s with
  | TL_E -> tl_step_E b
  | TL_H ->
    if is_dec b
    then TGo TL_D
    else if N.eqb b (Npos (XO (XO (XI (XO (XO XH))))))
         then TGo TL_X0
         else if N.eqb b (Npos (XI (XO (XI (XO (XO XH))))))
              then TGo TL_B0
              else TStop TK_Unterminated
  | TL_D -> if is_dec b then TGo TL_D else tl_step_E b
  | TL_X0 -> if is_hex b then TGo TL_X else TStop TK_Unterminated
  | TL_X -> if is_hex b then TGo TL_X else tl_step_E b
  | TL_B0 -> if is_bin b then TGo TL_B else TStop TK_Unterminated
  | TL_B -> if is_bin b then TGo TL_B else tl_step_E b
  | TL_S ->
    if N.eqb b (Npos (XI (XI (XI (XO (XO XH))))))
    then TGo TL_E
    else if (||) (N.eqb b (Npos (XO (XI (XO XH)))))
              (N.eqb b (Npos (XI (XO (XI XH)))))
         then TStop TK_Unterminated
         else TGo TL_S

(** val tl_end : tl_state -> textLiteralKind **)

let tl_end = function
| TL_E -> TK_SingleLine
| TL_D -> TK_SingleLine
| TL_X -> TK_SingleLine
| TL_B -> TK_SingleLine
| _ -> TK_Unterminated

(** val tl_run : tl_state -> bytes -> nat * textLiteralKind **)

let rec tl_run s = function
| [] -> (O, (tl_end s))
| b :: t ->
  (match tl_step s b with
   | TGo s' -> let r = tl_run s' t in ((S (fst r)), (snd r))
   | TStop k -> (O, k))

(** val text_literal : byte -> bytes -> nat * rawTokenType **)

let text_literal b t =
  let q =
    if N.eqb b (Npos (XI (XI (XI (XO (XO XH))))))
    then S
           (count_while (fun c -> N.eqb c (Npos (XI (XI (XI (XO (XO XH)))))))
             t)
    else O
  in
  let body = skipn (sub q (S O)) t in
  if (&&) ((&&) (Nat.leb (S (S (S O))) q) (Nat.odd q))
       ((||) (next_is (Npos (XI (XO (XI XH)))) body)
         (next_is (Npos (XO (XI (XO XH)))) body))
  then (match find_sub (repeat (Npos (XI (XI (XI (XO (XO XH)))))) q) body with
        | Some pos ->
          ((add (add (sub q (S O)) pos) q), (RTT_TextLiteral TK_MultiLine))
        | None -> ((length t), (RTT_TextLiteral TK_Unterminated)))
  else let r =
         tl_run
           (if N.eqb b (Npos (XI (XI (XI (XO (XO XH)))))) then TL_S else TL_H)
           t
       in
       ((fst r), (RTT_TextLiteral (snd r)))

(** val asm_text_literal : bytes -> nat * rawTokenType **)

let rec asm_text_literal = function
| [] -> (O, (RTT_TextLiteral TK_Unterminated))
| b :: t1 ->
  if N.eqb b (Npos (XO (XO (XI (XI (XI (XO XH)))))))
  then (match t1 with
        | [] -> ((S O), (RTT_TextLiteral TK_Unterminated))
        | _ :: t2 -> let r = asm_text_literal t2 in ((S (S (fst r))), (snd r)))
  else if N.eqb b (Npos (XO (XI (XO (XO (XO XH))))))
       then ((S O), (RTT_TextLiteral TK_Asm))
       else if (||) (N.eqb b (Npos (XO (XI (XO XH)))))
                 (N.eqb b (Npos (XI (XO (XI XH)))))
            then (O, (RTT_TextLiteral TK_Unterminated))
            else let r = asm_text_literal t1 in ((S (fst r)), (snd r))

type blockCommentKind =
| BCK_ParenStar
| BCK_Brace

(** val is_paren_star : blockCommentKind -> bool **)

let is_paren_star = function
| BCK_ParenStar -> true
| BCK_Brace -> false

(** val find_block_comment_end : blockCommentKind -> bytes -> nat option **)

let find_block_comment_end k l =
  match k with
  | BCK_ParenStar ->
    option_map (fun o -> add o (S (S O)))
      (find_sub ((Npos (XO (XI (XO (XI (XO XH)))))) :: ((Npos (XI (XO (XO (XI
        (XO XH)))))) :: [])) l)
  | BCK_Brace ->
    option_map (fun x -> S x)
      (find_first (fun b -> N.eqb b (Npos (XI (XO (XI (XI (XI (XI XH))))))))
        l)

(** val block_comment_kind : bool -> bool -> commentKind **)

let block_comment_kind nl_before = function
| true -> CoK_MultilineBlock
| false -> if nl_before then CoK_IndividualBlock else CoK_InlineBlock

(** val block_comment :
    blockCommentKind -> bool -> bytes -> nat * rawTokenType **)

let block_comment k nlb l =
  match find_block_comment_end k l with
  | Some e ->
    (e, (RTT_Comment
      (block_comment_kind nlb
        (contains_byte (Npos (XO (XI (XO XH)))) (firstn e l)))))
  | None -> ((trimmed_len l), (RTT_Comment CoK_MultilineBlock))

(** val is_eol : byte -> bool **)

let is_eol b =
  (||) (N.eqb b (Npos (XO (XI (XO XH))))) (N.eqb b (Npos (XI (XO (XI XH)))))

(** val line_comment_len : bytes -> nat **)

let line_comment_len l =
  count_while (fun b -> negb (is_eol b)) l

(** val line_comment : bool -> bytes -> nat * rawTokenType **)

let line_comment nlb l =
  ((line_comment_len l), (RTT_Comment
    (if nlb then CoK_IndividualLine else CoK_InlineLine)))

(** val conditional_directive_kind :
    bytes -> conditionalDirectiveKind option **)

let conditional_directive_kind name =
  if eq_ignore_case name ((Npos (XI (XO (XO (XI (XO (XI XH))))))) :: ((Npos
       (XO (XI (XI (XO (XO (XI XH))))))) :: []))
  then Some CDK_If
  else if eq_ignore_case name ((Npos (XI (XO (XO (XI (XO (XI
            XH))))))) :: ((Npos (XO (XI (XI (XO (XO (XI XH))))))) :: ((Npos
            (XO (XO (XI (XO (XO (XI XH))))))) :: ((Npos (XI (XO (XI (XO (XO
            (XI XH))))))) :: ((Npos (XO (XI (XI (XO (XO (XI
            XH))))))) :: [])))))
       then Some CDK_Ifdef
       else if eq_ignore_case name ((Npos (XI (XO (XO (XI (XO (XI
                 XH))))))) :: ((Npos (XO (XI (XI (XO (XO (XI
                 XH))))))) :: ((Npos (XO (XI (XI (XI (XO (XI
                 XH))))))) :: ((Npos (XO (XO (XI (XO (XO (XI
                 XH))))))) :: ((Npos (XI (XO (XI (XO (XO (XI
                 XH))))))) :: ((Npos (XO (XI (XI (XO (XO (XI
                 XH))))))) :: []))))))
            then Some CDK_Ifndef
            else if eq_ignore_case name ((Npos (XI (XO (XO (XI (XO (XI
                      XH))))))) :: ((Npos (XO (XI (XI (XO (XO (XI
                      XH))))))) :: ((Npos (XI (XI (XI (XI (XO (XI
                      XH))))))) :: ((Npos (XO (XO (XO (XO (XI (XI
                      XH))))))) :: ((Npos (XO (XO (XI (XO (XI (XI
                      XH))))))) :: [])))))
                 then Some CDK_Ifopt
                 else if eq_ignore_case name ((Npos (XI (XO (XI (XO (XO (XI
                           XH))))))) :: ((Npos (XO (XO (XI (XI (XO (XI
                           XH))))))) :: ((Npos (XI (XI (XO (XO (XI (XI
                           XH))))))) :: ((Npos (XI (XO (XI (XO (XO (XI
                           XH))))))) :: ((Npos (XI (XO (XO (XI (XO (XI
                           XH))))))) :: ((Npos (XO (XI (XI (XO (XO (XI
                           XH))))))) :: []))))))
                      then Some CDK_Elseif
                      else if eq_ignore_case name ((Npos (XI (XO (XI (XO (XO
                                (XI XH))))))) :: ((Npos (XO (XO (XI (XI (XO
                                (XI XH))))))) :: ((Npos (XI (XI (XO (XO (XI
                                (XI XH))))))) :: ((Npos (XI (XO (XI (XO (XO
                                (XI XH))))))) :: []))))
                           then Some CDK_Else
                           else if eq_ignore_case name ((Npos (XI (XO (XO (XI
                                     (XO (XI XH))))))) :: ((Npos (XO (XI (XI
                                     (XO (XO (XI XH))))))) :: ((Npos (XI (XO
                                     (XI (XO (XO (XI XH))))))) :: ((Npos (XO
                                     (XI (XI (XI (XO (XI XH))))))) :: ((Npos
                                     (XO (XO (XI (XO (XO (XI
                                     XH))))))) :: [])))))
                                then Some CDK_Ifend
                                else if eq_ignore_case name ((Npos (XI (XO
                                          (XI (XO (XO (XI XH))))))) :: ((Npos
                                          (XO (XI (XI (XI (XO (XI
                                          XH))))))) :: ((Npos (XO (XO (XI (XO
                                          (XO (XI XH))))))) :: ((Npos (XI (XO
                                          (XO (XI (XO (XI XH))))))) :: ((Npos
                                          (XO (XI (XI (XO (XO (XI
                                          XH))))))) :: [])))))
                                     then Some CDK_Endif
                                     else None

(** val directive_token_type :
    conditionalDirectiveKind option -> rawTokenType **)

let directive_token_type = function
| Some k -> RTT_ConditionalDirective k
| None -> RTT_CompilerDirective

(** val cdk_has_expr : conditionalDirectiveKind option -> bool **)

let cdk_has_expr = function
| Some c -> (match c with
             | CDK_If -> true
             | CDK_Elseif -> true
             | _ -> false)
| None -> false

type dres =
| DEnd of nat
| DUnterminated
| DFuel

(** val dshift : nat -> dres -> dres **)

let dshift k r = match r with
| DEnd n0 -> DEnd (add k n0)
| _ -> r

(** val dres_of_option : nat option -> dres **)

let dres_of_option = function
| Some n0 -> DEnd n0
| None -> DUnterminated

(** val parse_directive_end :
    (blockCommentKind -> bytes -> dres) -> blockCommentKind -> bytes -> dres **)

let parse_directive_end expr_end k l =
  let n0 = count_while is_ident_ascii l in
  let r = skipn n0 l in
  if cdk_has_expr (conditional_directive_kind (firstn n0 l))
  then dshift n0 (expr_end k r)
  else dshift n0 (dres_of_option (find_block_comment_end k r))

(** val find_directive_expr_end : nat -> blockCommentKind -> bytes -> dres **)

let rec find_directive_expr_end fuel kind l =
  match fuel with
  | O -> DFuel
  | S f ->
    let continue = fun m ->
      dshift m (find_directive_expr_end f kind (skipn m l))
    in
    let and_then = fun pre r ->
      match r with
      | DEnd m -> continue (add pre m)
      | _ -> r
    in
    (match l with
     | [] -> DUnterminated
     | b :: t ->
       if (&&) (is_paren_star kind)
            (is_prefix ((Npos (XO (XI (XO (XI (XO XH)))))) :: ((Npos (XI (XO
              (XO (XI (XO XH)))))) :: [])) l)
       then DEnd (S (S O))
       else if (&&) (negb (is_paren_star kind))
                 (N.eqb b (Npos (XI (XO (XI (XI (XI (XI XH))))))))
            then DEnd (S O)
            else if is_prefix ((Npos (XO (XO (XO (XI (XO XH)))))) :: ((Npos
                      (XO (XI (XO (XI (XO XH)))))) :: ((Npos (XO (XO (XI (XO
                      (XO XH)))))) :: []))) l
                 then and_then (S (S (S O)))
                        (parse_directive_end (find_directive_expr_end f)
                          BCK_ParenStar (skipn (S (S (S O))) l))
                 else if is_prefix ((Npos (XI (XI (XO (XI (XI (XI
                           XH))))))) :: ((Npos (XO (XO (XI (XO (XO
                           XH)))))) :: [])) l
                      then and_then (S (S O))
                             (parse_directive_end (find_directive_expr_end f)
                               BCK_Brace (skipn (S (S O)) l))
                      else if is_prefix ((Npos (XO (XO (XO (XI (XO
                                XH)))))) :: ((Npos (XO (XI (XO (XI (XO
                                XH)))))) :: [])) l
                           then continue
                                  (add (S (S O))
                                    (fst
                                      (block_comment BCK_ParenStar false
                                        (skipn (S (S O)) l))))
                           else if N.eqb b (Npos (XI (XI (XO (XI (XI (XI
                                     XH)))))))
                                then continue
                                       (add (S O)
                                         (fst
                                           (block_comment BCK_Brace false t)))
                                else if N.eqb b (Npos (XI (XI (XI (XO (XO
                                          XH))))))
                                     then continue (S
                                            (fst
                                              (text_literal (Npos (XI (XI (XI
                                                (XO (XO XH)))))) t)))
                                     else if is_prefix ((Npos (XI (XI (XI (XI
                                               (XO XH)))))) :: ((Npos (XI (XI
                                               (XI (XI (XO XH)))))) :: [])) l
                                          then continue
                                                 (add (S (S O))
                                                   (line_comment_len
                                                     (skipn (S (S O)) l)))
                                          else continue (S O))

type tres =
| TOk of nat * rawTokenType
| TFuel

(** val tok : (nat * rawTokenType) -> tres **)

let tok r =
  TOk ((fst r), (snd r))

(** val tshift : nat -> tres -> tres **)

let tshift k = function
| TOk (n0, ty) -> TOk ((add k n0), ty)
| TFuel -> TFuel

(** val compiler_directive : blockCommentKind -> bytes -> tres **)

let compiler_directive k l =
  let n0 = count_while is_ident_ascii l in
  let ty = directive_token_type (conditional_directive_kind (firstn n0 l)) in
  (match parse_directive_end (find_directive_expr_end (S (length l))) k l with
   | DEnd e -> TOk (e, ty)
   | DUnterminated -> TOk ((trimmed_len l), ty)
   | DFuel -> TFuel)

(** val compiler_directive_or_comment :
    blockCommentKind -> bool -> bytes -> tres **)

let compiler_directive_or_comment k nlb l =
  if next_is (Npos (XO (XO (XI (XO (XO XH)))))) l
  then tshift (S O) (compiler_directive k (tl l))
  else tok (block_comment k nlb l)

(** val ampersand : bytes -> nat * rawTokenType **)

let ampersand t =
  let k = count_while (fun b -> N.eqb b (Npos (XO (XI (XI (XO (XO XH))))))) t
  in
  (match skipn k t with
   | [] -> (k, RTT_Unknown)
   | c :: r ->
     if N.eqb c (Npos (XO (XO (XI (XO (XO XH))))))
     then ((add (add k (S O)) (count_hex r)), (RTT_NumberLiteral NK_Hex))
     else if N.eqb c (Npos (XI (XO (XI (XO (XO XH))))))
          then ((add (add k (S O)) (count_binary r)), (RTT_NumberLiteral
                 NK_Binary))
          else if is_digit c
               then ((add (add k (S O)) (dec_number_literal r)),
                      (RTT_NumberLiteral NK_Decimal))
               else if (||) (is_alpha c)
                         (N.eqb c (Npos (XI (XI (XI (XI (XI (XO XH))))))))
                    then ((add (add k (S O)) (find_identifier_end r)),
                           RTT_Identifier)
                    else if N.leb (Npos (XO (XO (XO (XO (XO (XO (XO
                              XH)))))))) c
                         then ((add (add k (S O)) (unicode_identifier r)),
                                RTT_Identifier)
                         else (k, RTT_Unknown))

type lstate = { ls_first : bool; ls_asm : bool; ls_prev : rawTokenType option }

(** val prev_is_dot : lstate -> bool **)

let prev_is_dot st =
  match st.ls_prev with
  | Some r ->
    (match r with
     | RTT_Op k -> (match k with
                    | OK_Dot -> true
                    | _ -> false)
     | _ -> false)
  | None -> false

(** val is_kw_asm : rawTokenType -> bool **)

let is_kw_asm = function
| RTT_Keyword k -> (match k with
                    | KK_Asm -> true
                    | _ -> false)
| _ -> false

(** val identifier_or_keyword :
    lstate -> byte -> bytes -> nat * rawTokenType **)

let identifier_or_keyword st b t =
  let n0 = find_identifier_end t in
  (n0,
  (if prev_is_dot st
   then RTT_Identifier
   else get_word_token_type (b :: (firstn n0 t))))

(** val asm_identifier : byte -> bytes -> (nat * rawTokenType) * bool **)

let asm_identifier b t =
  let n0 = find_identifier_end t in
  let w = b :: (firstn n0 t) in
  if eq_ignore_case w ((Npos (XI (XO (XI (XO (XO (XI XH))))))) :: ((Npos (XO
       (XI (XI (XI (XO (XI XH))))))) :: ((Npos (XO (XO (XI (XO (XO (XI
       XH))))))) :: [])))
  then ((n0, (RTT_Keyword KK_End)), false)
  else if eq_ignore_case w ((Npos (XI (XO (XO (XO (XO (XI XH))))))) :: ((Npos
            (XI (XI (XO (XO (XI (XI XH))))))) :: ((Npos (XI (XO (XI (XI (XO
            (XI XH))))))) :: [])))
       then ((n0, (RTT_Keyword KK_Asm)), true)
       else ((n0, RTT_Identifier), true)

(** val op : nat -> operatorKind -> tres **)

let op n0 k =
  TOk (n0, (RTT_Op k))

(** val lex_common : lstate -> bool -> byte -> bytes -> tres **)

let lex_common st nlb b t =
  if N.eqb b (Npos (XO (XO (XO (XI (XO XH))))))
  then if next_is (Npos (XO (XI (XO (XI (XO XH)))))) t
       then tshift (S O)
              (compiler_directive_or_comment BCK_ParenStar nlb (tl t))
       else if next_is (Npos (XO (XI (XI (XI (XO XH)))))) t
            then op (S O) OK_LBrack
            else op O OK_LParen
  else if N.eqb b (Npos (XI (XI (XO (XI (XI (XI XH)))))))
       then compiler_directive_or_comment BCK_Brace nlb t
       else if N.eqb b (Npos (XI (XI (XI (XI (XO XH))))))
            then if next_is (Npos (XI (XI (XI (XI (XO XH)))))) t
                 then tshift (S O) (tok (line_comment nlb (tl t)))
                 else op O OK_Slash
            else if N.eqb b (Npos (XO (XI (XO (XI (XI XH))))))
                 then if next_is (Npos (XI (XO (XI (XI (XI XH)))))) t
                      then op (S O) OK_Assign
                      else op O OK_Colon
                 else if N.eqb b (Npos (XO (XO (XI (XI (XI XH))))))
                      then if next_is (Npos (XI (XO (XI (XI (XI XH)))))) t
                           then op (S O) OK_LessEqual
                           else if next_is (Npos (XO (XI (XI (XI (XI XH))))))
                                     t
                                then op (S O) OK_NotEqual
                                else op O (OK_LessThan ChK_Comp)
                      else if N.eqb b (Npos (XO (XI (XI (XI (XI XH))))))
                           then if next_is (Npos (XI (XO (XI (XI (XI XH))))))
                                     t
                                then op (S O) OK_GreaterEqual
                                else op O (OK_GreaterThan ChK_Comp)
                           else if N.eqb b (Npos (XO (XI (XI (XI (XO XH))))))
                                then if next_is (Npos (XO (XI (XI (XI (XO
                                          XH)))))) t
                                     then op (S O) OK_DotDot
                                     else if next_is (Npos (XI (XO (XO (XI
                                               (XO XH)))))) t
                                          then op (S O) OK_RBrack
                                          else op O OK_Dot
                                else if N.eqb b (Npos (XI (XI (XO (XI (XO
                                          XH))))))
                                     then op O OK_Plus
                                     else if N.eqb b (Npos (XI (XO (XI (XI
                                               (XO XH))))))
                                          then op O OK_Minus
                                          else if N.eqb b (Npos (XO (XI (XO
                                                    (XI (XO XH))))))
                                               then op O OK_Star
                                               else if N.eqb b (Npos (XO (XO
                                                         (XI (XI (XO XH))))))
                                                    then op O OK_Comma
                                                    else if N.eqb b (Npos (XI
                                                              (XI (XO (XI (XI
                                                              XH))))))
                                                         then op O
                                                                OK_Semicolon
                                                         else if N.eqb b
                                                                   (Npos (XI
                                                                   (XO (XI
                                                                   (XI (XI
                                                                   XH))))))
                                                              then op O
                                                                    (OK_Equal
                                                                    EK_Comp)
                                                              else if 
                                                                    N.eqb b
                                                                    (Npos (XO
                                                                    (XI (XI
                                                                    (XI (XI
                                                                    (XO
                                                                    XH)))))))
                                                                   then 
                                                                    op O
                                                                    (OK_Caret
                                                                    CaK_Deref)
                                                                   else 
                                                                    if 
                                                                    N.eqb b
                                                                    (Npos (XO
                                                                    (XO (XO
                                                                    (XO (XO
                                                                    (XO
                                                                    XH)))))))
                                                                    then 
                                                                    op O
                                                                    OK_AddressOf
                                                                    else 
                                                                    if 
                                                                    N.eqb b
                                                                    (Npos (XI
                                                                    (XI (XO
                                                                    (XI (XI
                                                                    (XO
                                                                    XH)))))))
                                                                    then 
                                                                    op O
                                                                    OK_LBrack
                                                                    else 
                                                                    if 
                                                                    N.eqb b
                                                                    (Npos (XI
                                                                    (XO (XI
                                                                    (XI (XI
                                                                    (XO
                                                                    XH)))))))
                                                                    then 
                                                                    op O
                                                                    OK_RBrack
                                                                    else 
                                                                    if 
                                                                    N.eqb b
                                                                    (Npos (XI
                                                                    (XO (XO
                                                                    (XI (XO
                                                                    XH))))))
                                                                    then 
                                                                    op O
                                                                    OK_RParen
                                                                    else 
                                                                    if 
                                                                    (||)
                                                                    (N.eqb b
                                                                    (Npos (XI
                                                                    (XI (XI
                                                                    (XO (XO
                                                                    XH)))))))
                                                                    (N.eqb b
                                                                    (Npos (XI
                                                                    (XI (XO
                                                                    (XO (XO
                                                                    XH)))))))
                                                                    then 
                                                                    tok
                                                                    (text_literal
                                                                    b t)
                                                                    else 
                                                                    if 
                                                                    N.eqb b
                                                                    (Npos (XO
                                                                    (XI (XI
                                                                    (XO (XO
                                                                    XH))))))
                                                                    then 
                                                                    tok
                                                                    (ampersand
                                                                    t)
                                                                    else 
                                                                    if 
                                                                    N.eqb b
                                                                    (Npos (XI
                                                                    (XO (XI
                                                                    (XO (XO
                                                                    XH))))))
                                                                    then 
                                                                    TOk
                                                                    ((count_binary
                                                                    t),
                                                                    (RTT_NumberLiteral
                                                                    NK_Binary))
                                                                    else 
                                                                    if 
                                                                    N.eqb b
                                                                    (Npos (XO
                                                                    (XO (XI
                                                                    (XO (XO
                                                                    XH))))))
                                                                    then 
                                                                    TOk
                                                                    ((count_hex
                                                                    t),
                                                                    (RTT_NumberLiteral
                                                                    NK_Hex))
                                                                    else 
                                                                    if 
                                                                    is_digit b
                                                                    then 
                                                                    TOk
                                                                    ((dec_number_literal
                                                                    t),
                                                                    (RTT_NumberLiteral
                                                                    NK_Decimal))
                                                                    else 
                                                                    if 
                                                                    is_alpha b
                                                                    then 
                                                                    tok
                                                                    (identifier_or_keyword
                                                                    st b t)
                                                                    else 
                                                                    if 
                                                                    N.eqb b
                                                                    (Npos (XI
                                                                    (XI (XI
                                                                    (XI (XI
                                                                    (XO
                                                                    XH)))))))
                                                                    then 
                                                                    TOk
                                                                    ((find_identifier_end
                                                                    t),
                                                                    RTT_Identifier)
                                                                    else 
                                                                    if 
                                                                    N.leb
                                                                    (Npos (XO
                                                                    (XO (XO
                                                                    (XO (XO
                                                                    (XO (XO
                                                                    XH))))))))
                                                                    b
                                                                    then 
                                                                    TOk
                                                                    ((unicode_identifier
                                                                    t),
                                                                    RTT_Identifier)
                                                                    else 
                                                                    TOk (O,
                                                                    RTT_Unknown)

(** val is_aAeE : byte -> bool **)

let is_aAeE b =
  (||)
    ((||)
      ((||) (N.eqb b (Npos (XI (XO (XO (XO (XO (XI XH))))))))
        (N.eqb b (Npos (XI (XO (XO (XO (XO (XO XH)))))))))
      (N.eqb b (Npos (XI (XO (XI (XO (XO (XI XH)))))))))
    (N.eqb b (Npos (XI (XO (XI (XO (XO (XO XH))))))))

(** val lex_token :
    lstate -> bool -> byte -> bytes -> ((nat * rawTokenType) * bool) option **)

let lex_token st nlb b t =
  if st.ls_asm
  then if N.eqb b (Npos (XO (XO (XO (XO (XO (XO XH)))))))
       then Some (((asm_label t), RTT_Identifier), true)
       else if N.eqb b (Npos (XO (XI (XO (XO (XO XH))))))
            then let r = asm_text_literal t in Some (((fst r), (snd r)), true)
            else if is_digit b
                 then let r = asm_number_literal b t in
                      Some (((fst r), (snd r)), true)
                 else if is_aAeE b
                      then Some (asm_identifier b t)
                      else if is_alpha b
                           then Some (((find_identifier_end t),
                                  RTT_Identifier), true)
                           else (match lex_common st nlb b t with
                                 | TOk (n0, ty) -> Some ((n0, ty), true)
                                 | TFuel -> None)
  else (match lex_common st nlb b t with
        | TOk (n0, ty) ->
          Some ((n0, ty), (if is_alpha b then is_kw_asm ty else false))
        | TFuel -> None)

(** val init_state : lstate **)

let init_state =
  { ls_first = true; ls_asm = false; ls_prev = None }

(** val lex_loop :
    nat -> lstate -> bytes -> ((nat * nat) * rawTokenType) list option **)

let rec lex_loop fuel st l =
  match fuel with
  | O -> None
  | S f ->
    let w = count_ws l in
    (match skipn w l with
     | [] -> Some (((w, O), RTT_Eof) :: [])
     | b :: t ->
       let nlb =
         (||) (contains_byte (Npos (XO (XI (XO XH)))) (firstn w l))
           st.ls_first
       in
       (match lex_token st nlb b t with
        | Some p ->
          let (p0, asm') = p in
          let (n0, ty) = p0 in
          let st' = { ls_first = false; ls_asm = asm'; ls_prev =
            (if rawTokenType_is_comment_or_directive ty
             then st.ls_prev
             else Some ty) }
          in
          (match lex_loop f st' (skipn n0 t) with
           | Some ts -> Some (((w, (S n0)), ty) :: ts)
           | None -> None)
        | None -> None))

(** val lex : bytes -> ((nat * nat) * rawTokenType) list option **)

let lex s =
  lex_loop (S (length s)) init_state s

(** val in_range : byte -> byte -> byte -> bool **)

let in_range lo hi b =
  (&&) (N.leb lo b) (N.leb b hi)

(** val valid_utf8 : bytes -> bool **)

let rec valid_utf8 = function
| [] -> true
| a :: t ->
  if N.ltb a (Npos (XO (XO (XO (XO (XO (XO (XO XH))))))))
  then valid_utf8 t
  else (match t with
        | [] -> false
        | b :: t1 ->
          if in_range (Npos (XO (XI (XO (XO (XO (XO (XI XH)))))))) (Npos (XI
               (XI (XI (XI (XI (XO (XI XH)))))))) a
          then (&&) (is_cont b) (valid_utf8 t1)
          else (match t1 with
                | [] -> false
                | c :: t2 ->
                  if in_range (Npos (XO (XO (XO (XO (XO (XI (XI XH))))))))
                       (Npos (XI (XI (XI (XI (XO (XI (XI XH)))))))) a
                  then (&&)
                         ((&&)
                           (if N.eqb a (Npos (XO (XO (XO (XO (XO (XI (XI
                                 XH))))))))
                            then in_range (Npos (XO (XO (XO (XO (XO (XI (XO
                                   XH)))))))) (Npos (XI (XI (XI (XI (XI (XI
                                   (XO XH)))))))) b
                            else if N.eqb a (Npos (XI (XO (XI (XI (XO (XI (XI
                                      XH))))))))
                                 then in_range (Npos (XO (XO (XO (XO (XO (XO
                                        (XO XH)))))))) (Npos (XI (XI (XI (XI
                                        (XI (XO (XO XH)))))))) b
                                 else is_cont b) (is_cont c)) (valid_utf8 t2)
                  else (match t2 with
                        | [] -> false
                        | d :: t3 ->
                          if in_range (Npos (XO (XO (XO (XO (XI (XI (XI
                               XH)))))))) (Npos (XO (XO (XI (XO (XI (XI (XI
                               XH)))))))) a
                          then (&&)
                                 ((&&)
                                   ((&&)
                                     (if N.eqb a (Npos (XO (XO (XO (XO (XI
                                           (XI (XI XH))))))))
                                      then in_range (Npos (XO (XO (XO (XO (XI
                                             (XO (XO XH)))))))) (Npos (XI (XI
                                             (XI (XI (XI (XI (XO XH)))))))) b
                                      else if N.eqb a (Npos (XO (XO (XI (XO
                                                (XI (XI (XI XH))))))))
                                           then in_range (Npos (XO (XO (XO
                                                  (XO (XO (XO (XO XH))))))))
                                                  (Npos (XI (XI (XI (XI (XO
                                                  (XO (XO XH)))))))) b
                                           else is_cont b) (is_cont c))
                                   (is_cont d)) (valid_utf8 t3)
                          else false)))

type action =
| Keep
| SetTo of n
| Min1

(** val apply_action : action -> n -> n **)

let apply_action a v =
  match a with
  | Keep -> v
  | SetTo n0 -> n0
  | Min1 -> N.min (Npos XH) v

(** val spaces_before : tokenType option -> n -> action **)

let spaces_before prev spaces =
  match prev with
  | Some t ->
    (match t with
     | TT_Op k ->
       (match k with
        | OK_LessThan k0 ->
          (match k0 with
           | ChK_Generic -> SetTo N0
           | ChK_Comp -> SetTo spaces)
        | OK_LBrack -> SetTo N0
        | OK_LParen -> SetTo N0
        | _ -> SetTo spaces)
     | _ -> SetTo spaces)
  | None -> SetTo N0

(** val spaces_after : tokenType option -> n -> action **)

let spaces_after next spaces =
  match next with
  | Some t ->
    (match t with
     | TT_Op k ->
       (match k with
        | OK_GreaterThan k0 ->
          (match k0 with
           | ChK_Generic -> SetTo N0
           | ChK_Comp -> SetTo spaces)
        | OK_RBrack -> SetTo N0
        | OK_RParen -> SetTo N0
        | _ -> SetTo spaces)
     | _ -> SetTo spaces)
  | None -> SetTo spaces

(** val one_space_either_side :
    tokenType option -> tokenType option -> action * action **)

let one_space_either_side prev next =
  ((spaces_before prev (Npos XH)), (spaces_after next (Npos XH)))

(** val one_space_before : tokenType option -> action * action **)

let one_space_before prev =
  ((spaces_before prev (Npos XH)), (SetTo N0))

(** val max_one_either_side : tokenType option -> action * action **)

let max_one_either_side next =
  (Min1, (match next with
          | Some _ -> Min1
          | None -> Keep))

(** val binary_op_spacing : action * action **)

let binary_op_spacing =
  ((SetTo (Npos XH)), (SetTo (Npos XH)))

(** val space_operator :
    operatorKind -> tokenType option -> tokenType option -> tokenType option
    -> action * action **)

let space_operator op0 prev next prev_real =
  match op0 with
  | OK_Plus ->
    (match prev_real with
     | Some t ->
       (match t with
        | TT_Op k ->
          (match k with
           | OK_GreaterThan k0 ->
             (match k0 with
              | ChK_Generic -> binary_op_spacing
              | ChK_Comp -> (Keep, (SetTo N0)))
           | OK_RBrack -> binary_op_spacing
           | OK_RParen -> binary_op_spacing
           | _ -> (Keep, (SetTo N0)))
        | TT_Keyword k ->
          (match k with
           | KK_Inherited -> binary_op_spacing
           | KK_Nil -> binary_op_spacing
           | _ -> (Keep, (SetTo N0)))
        | TT_ConditionalDirective _ -> (Keep, (SetTo N0))
        | TT_CompilerDirective -> (Keep, (SetTo N0))
        | TT_Comment _ -> (Keep, (SetTo N0))
        | _ -> binary_op_spacing)
     | None -> (Keep, (SetTo N0)))
  | OK_Minus ->
    (match prev_real with
     | Some t ->
       (match t with
        | TT_Op k ->
          (match k with
           | OK_GreaterThan k0 ->
             (match k0 with
              | ChK_Generic -> binary_op_spacing
              | ChK_Comp -> (Keep, (SetTo N0)))
           | OK_RBrack -> binary_op_spacing
           | OK_RParen -> binary_op_spacing
           | _ -> (Keep, (SetTo N0)))
        | TT_Keyword k ->
          (match k with
           | KK_Inherited -> binary_op_spacing
           | KK_Nil -> binary_op_spacing
           | _ -> (Keep, (SetTo N0)))
        | TT_ConditionalDirective _ -> (Keep, (SetTo N0))
        | TT_CompilerDirective -> (Keep, (SetTo N0))
        | TT_Comment _ -> (Keep, (SetTo N0))
        | _ -> binary_op_spacing)
     | None -> (Keep, (SetTo N0)))
  | OK_Comma -> ((SetTo N0), (SetTo (Npos XH)))
  | OK_Semicolon -> ((SetTo N0), (SetTo (Npos XH)))
  | OK_Colon -> ((SetTo N0), (SetTo (Npos XH)))
  | OK_LessThan k ->
    (match k with
     | ChK_Generic -> ((SetTo N0), (SetTo N0))
     | ChK_Comp -> binary_op_spacing)
  | OK_GreaterThan k ->
    (match k with
     | ChK_Generic ->
       ((SetTo N0),
         (match next with
          | Some t ->
            (match t with
             | TT_Op _ -> SetTo N0
             | _ -> SetTo (Npos XH))
          | None -> SetTo (Npos XH)))
     | ChK_Comp -> binary_op_spacing)
  | OK_LBrack ->
    (match prev with
     | Some t ->
       (match t with
        | TT_Identifier -> ((SetTo N0), (SetTo N0))
        | TT_Keyword k ->
          (match k with
           | KK_Array -> ((SetTo N0), (SetTo N0))
           | KK_Class -> ((SetTo N0), (SetTo N0))
           | KK_Function -> ((SetTo N0), (SetTo N0))
           | KK_Interface -> ((SetTo N0), (SetTo N0))
           | KK_Procedure -> ((SetTo N0), (SetTo N0))
           | KK_String -> ((SetTo N0), (SetTo N0))
           | KK_Abstract -> ((SetTo N0), (SetTo N0))
           | KK_Helper -> ((SetTo N0), (SetTo N0))
           | KK_Sealed -> ((SetTo N0), (SetTo N0))
           | _ -> ((SetTo (Npos XH)), (SetTo N0)))
        | _ -> (Keep, (SetTo N0)))
     | None -> (Keep, (SetTo N0)))
  | OK_RBrack ->
    (match next with
     | Some t ->
       (match t with
        | TT_Identifier -> ((SetTo N0), (SetTo (Npos XH)))
        | TT_Keyword _ -> ((SetTo N0), (SetTo (Npos XH)))
        | _ -> ((SetTo N0), (SetTo N0)))
     | None -> ((SetTo N0), (SetTo N0)))
  | OK_LParen ->
    (match prev with
     | Some t ->
       (match t with
        | TT_Identifier -> ((SetTo N0), (SetTo N0))
        | TT_Keyword k ->
          (match k with
           | KK_Array -> ((SetTo N0), (SetTo N0))
           | KK_Class -> ((SetTo N0), (SetTo N0))
           | KK_Function -> ((SetTo N0), (SetTo N0))
           | KK_Interface -> ((SetTo N0), (SetTo N0))
           | KK_Procedure -> ((SetTo N0), (SetTo N0))
           | KK_String -> ((SetTo N0), (SetTo N0))
           | KK_Abstract -> ((SetTo N0), (SetTo N0))
           | KK_Helper -> ((SetTo N0), (SetTo N0))
           | KK_Sealed -> ((SetTo N0), (SetTo N0))
           | _ -> ((SetTo (Npos XH)), (SetTo N0)))
        | _ -> (Keep, (SetTo N0)))
     | None -> (Keep, (SetTo N0)))
  | OK_RParen ->
    (match next with
     | Some t ->
       (match t with
        | TT_Identifier -> ((SetTo N0), (SetTo (Npos XH)))
        | TT_Keyword _ -> ((SetTo N0), (SetTo (Npos XH)))
        | _ -> ((SetTo N0), (SetTo N0)))
     | None -> ((SetTo N0), (SetTo N0)))
  | OK_Caret k ->
    (match k with
     | CaK_Type -> (Keep, (SetTo N0))
     | CaK_Deref -> ((SetTo N0), (SetTo N0)))
  | OK_AddressOf -> one_space_before prev
  | OK_Dot -> ((SetTo N0), (SetTo N0))
  | OK_DotDot -> ((SetTo N0), (SetTo N0))
  | _ -> binary_op_spacing

(** val rule :
    tokenType option -> tokenType -> tokenType option -> tokenType option ->
    action * action **)

let rule prev cur next prev_real =
  match cur with
  | TT_Op op0 -> space_operator op0 prev next prev_real
  | TT_Identifier -> (Keep, (SetTo (Npos XH)))
  | TT_Keyword _ -> one_space_either_side prev next
  | TT_ConditionalDirective _ -> one_space_either_side prev next
  | TT_CompilerDirective -> one_space_either_side prev next
  | TT_Comment k ->
    (match k with
     | CoK_InlineLine -> ((SetTo (Npos XH)), Keep)
     | _ -> one_space_either_side prev next)
  | _ -> max_one_either_side next

(** val set_sp : fmt -> n -> fmt **)

let set_sp f n0 =
  { f_ignored = f.f_ignored; f_nl = f.f_nl; f_ind = f.f_ind; f_cont =
    f.f_cont; f_sp = n0 }

(** val ty_of : ftoken -> tokenType **)

let ty_of p =
  (fst p).t_ty

(** val head_ty : ftoken list -> tokenType option **)

let head_ty = function
| [] -> None
| p :: _ -> Some (ty_of p)

(** val next_prev_real : tokenType option -> tokenType -> tokenType option **)

let next_prev_real pr ty =
  if tokenType_is_comment_or_directive ty then pr else Some ty

(** val spacing_go :
    tokenType option -> tokenType option -> action -> ftoken list -> ftoken
    list **)

let rec spacing_go prev prev_real pend = function
| [] -> []
| p :: r ->
  let ty = ty_of p in
  let f = snd p in
  let v1 = if is_eof ty then f.f_sp else apply_action pend f.f_sp in
  let ba = rule prev ty (head_ty r) prev_real in
  ((fst p),
  (set_sp f (apply_action (fst ba) v1))) :: (spacing_go (Some ty)
                                              (next_prev_real prev_real ty)
                                              (snd ba) r)

(** val zero_first : ftoken list -> ftoken list **)

let zero_first = function
| [] -> []
| p :: r -> ((fst p), (set_sp (snd p) N0)) :: r

(** val token_spacing : ftoken list -> ftoken list **)

let token_spacing l =
  zero_first (spacing_go None None Keep l)

(** val after_of : tokenType -> tokenType -> tokenType option -> action **)

let after_of tl0 tr pr_l =
  snd (rule None tl0 (Some tr) pr_l)

(** val before_of : tokenType -> tokenType -> tokenType option -> action **)

let before_of tl0 tr pr_l =
  fst (rule (Some tl0) tr None (next_prev_real pr_l tl0))

(** val gap_fn : tokenType -> tokenType -> tokenType option -> n -> n **)

let gap_fn tl0 tr pr_l orig =
  apply_action (before_of tl0 tr pr_l)
    (if is_eof tr then orig else apply_action (after_of tl0 tr pr_l) orig)

(** val keeps_orig : tokenType -> tokenType -> tokenType option -> bool **)

let keeps_orig tl0 tr pr_l =
  match before_of tl0 tr pr_l with
  | Keep ->
    (||) (is_eof tr)
      (match after_of tl0 tr pr_l with
       | Keep -> true
       | _ -> false)
  | _ -> false

(** val reads_orig : tokenType -> tokenType -> tokenType option -> bool **)

let reads_orig tl0 tr pr_l =
  match before_of tl0 tr pr_l with
  | SetTo _ -> false
  | _ ->
    (||) (is_eof tr)
      (match after_of tl0 tr pr_l with
       | SetTo _ -> false
       | _ -> true)

(** val starts_wordish : tokenType -> bool **)

let starts_wordish = function
| TT_Identifier -> true
| TT_Keyword _ -> true
| TT_NumberLiteral _ -> true
| _ -> false

(** val glue_safe : tokenType -> tokenType -> bool **)

let glue_safe tl0 tr = match tr with
| TT_Eof -> negb (is_eof tl0)
| _ ->
  (match tl0 with
   | TT_Op k ->
     (match k with
      | OK_Slash ->
        (match tr with
         | TT_Op k0 -> (match k0 with
                        | OK_Slash -> false
                        | _ -> true)
         | TT_Comment k0 ->
           (match k0 with
            | CoK_InlineLine -> false
            | CoK_IndividualLine -> false
            | _ -> true)
         | _ -> true)
      | OK_Colon ->
        (match tr with
         | TT_Op k0 -> (match k0 with
                        | OK_Equal _ -> false
                        | _ -> true)
         | _ -> true)
      | OK_LessThan _ ->
        (match tr with
         | TT_Op k0 ->
           (match k0 with
            | OK_Equal _ -> false
            | OK_GreaterThan _ -> false
            | OK_GreaterEqual -> false
            | _ -> true)
         | _ -> true)
      | OK_GreaterThan _ ->
        (match tr with
         | TT_Op k0 -> (match k0 with
                        | OK_Equal _ -> false
                        | _ -> true)
         | _ -> true)
      | OK_LParen ->
        (match tr with
         | TT_Op k0 ->
           (match k0 with
            | OK_Star -> false
            | OK_RBrack -> false
            | OK_Dot -> false
            | OK_DotDot -> false
            | _ -> true)
         | _ -> true)
      | OK_Dot ->
        (match tr with
         | TT_Op k0 ->
           (match k0 with
            | OK_RBrack -> false
            | OK_RParen -> false
            | OK_Dot -> false
            | OK_DotDot -> false
            | _ -> true)
         | TT_NumberLiteral _ -> false
         | _ -> true)
      | _ -> true)
   | TT_Identifier ->
     (match tr with
      | TT_Op k ->
        (match k with
         | OK_AddressOf -> false
         | _ -> negb (starts_wordish tr))
      | _ -> negb (starts_wordish tr))
   | TT_Keyword _ -> negb (starts_wordish tr)
   | TT_TextLiteral k ->
     (match k with
      | TK_Unterminated -> false
      | _ ->
        (match tr with
         | TT_TextLiteral _ -> false
         | _ -> negb (starts_wordish tr)))
   | TT_NumberLiteral k ->
     (match k with
      | NK_Decimal ->
        (match tr with
         | TT_Op k0 ->
           (match k0 with
            | OK_Plus -> false
            | OK_Minus -> false
            | _ -> negb (starts_wordish tr))
         | _ -> negb (starts_wordish tr))
      | _ -> negb (starts_wordish tr))
   | TT_Comment k ->
     (match k with
      | CoK_InlineLine -> false
      | CoK_IndividualLine -> false
      | _ -> true)
   | TT_Eof -> false
   | TT_Unknown ->
     (match tr with
      | TT_Unknown -> false
      | _ -> negb (starts_wordish tr))
   | _ -> true)

(** val u16_sat : n -> n **)

let u16_sat n0 =
  N.min (Npos (XI (XI (XI (XI (XI (XI (XI (XI (XI (XI (XI (XI (XI (XI (XI
    XH)))))))))))))))) n0

(** val count_lf0 : bytes -> n **)

let count_lf0 ws =
  N.of_nat (length (filter (N.eqb (Npos (XO (XI (XO XH))))) ws))

(** val take_until_lf : bytes -> bytes **)

let rec take_until_lf = function
| [] -> []
| b :: t ->
  if N.eqb b (Npos (XO (XI (XO XH)))) then [] else b :: (take_until_lf t)

(** val after_last_lf : bytes -> bytes **)

let after_last_lf ws =
  rev (take_until_lf (rev ws))

(** val drop_trailing_cr_rev : bytes -> bytes **)

let rec drop_trailing_cr_rev r = match r with
| [] -> []
| b :: t ->
  if N.eqb b (Npos (XI (XO (XI XH)))) then drop_trailing_cr_rev t else r

(** val trim_end_cr : bytes -> bytes **)

let trim_end_cr l =
  rev (drop_trailing_cr_rev (rev l))

(** val ws_prefix_len : bytes -> nat **)

let rec ws_prefix_len = function
| [] -> O
| a :: t ->
  if (||)
       ((&&) (N.leb (Npos (XI (XO (XO XH)))) a)
         (N.leb a (Npos (XI (XO (XI XH))))))
       (N.eqb a (Npos (XO (XO (XO (XO (XO XH)))))))
  then S (ws_prefix_len t)
  else (match t with
        | [] -> O
        | b :: l0 ->
          (match l0 with
           | [] -> O
           | c :: t' ->
             if (&&)
                  ((&&)
                    (N.eqb a (Npos (XI (XI (XO (XO (XO (XI (XI XH)))))))))
                    (N.eqb b (Npos (XO (XO (XO (XO (XO (XO (XO XH))))))))))
                  (N.eqb c (Npos (XO (XO (XO (XO (XO (XO (XO XH)))))))))
             then S (S (S (ws_prefix_len t')))
             else O))

(** val fmt_of_ws : bytes -> bool -> fmt **)

let fmt_of_ws ws ignored =
  let last_line = trim_end_cr (after_last_lf ws) in
  { f_ignored = ignored; f_nl = (u16_sat (count_lf0 ws)); f_ind = N0;
  f_cont = N0; f_sp = (u16_sat (N.of_nat (ws_prefix_len last_line))) }

(** val scalar_ok : n -> bool **)

let scalar_ok c =
  (||)
    (N.ltb c (Npos (XO (XO (XO (XO (XO (XO (XO (XO (XO (XO (XO (XI (XI (XO
      (XI XH)))))))))))))))))
    ((&&)
      (N.ltb (Npos (XI (XI (XI (XI (XI (XI (XI (XI (XI (XI (XI (XI (XI (XO
        (XI XH)))))))))))))))) c)
      (N.leb c (Npos (XI (XI (XI (XI (XI (XI (XI (XI (XI (XI (XI (XI (XI (XI
        (XI (XI (XO (XO (XO (XO XH)))))))))))))))))))))))

type text = n list

(** val ocons : n -> n list option -> n list option **)

let ocons c = function
| Some l -> Some (c :: l)
| None -> None

(** val utf8_encode_char : n -> bytes **)

let utf8_encode_char c =
  if N.ltb c (Npos (XO (XO (XO (XO (XO (XO (XO XH))))))))
  then c :: []
  else if N.ltb c (Npos (XO (XO (XO (XO (XO (XO (XO (XO (XO (XO (XO
            XH))))))))))))
       then (N.add (Npos (XO (XO (XO (XO (XO (XO (XI XH))))))))
              (N.div c (Npos (XO (XO (XO (XO (XO (XO XH))))))))) :: (
              (N.add (Npos (XO (XO (XO (XO (XO (XO (XO XH))))))))
                (N.modulo c (Npos (XO (XO (XO (XO (XO (XO XH))))))))) :: [])
       else if N.ltb c (Npos (XO (XO (XO (XO (XO (XO (XO (XO (XO (XO (XO (XO
                 (XO (XO (XO (XO XH)))))))))))))))))
            then (N.add (Npos (XO (XO (XO (XO (XO (XI (XI XH))))))))
                   (N.div c (Npos (XO (XO (XO (XO (XO (XO (XO (XO (XO (XO (XO
                     (XO XH))))))))))))))) :: ((N.add (Npos (XO (XO (XO (XO
                                                 (XO (XO (XO XH))))))))
                                                 (N.modulo
                                                   (N.div c (Npos (XO (XO (XO
                                                     (XO (XO (XO XH))))))))
                                                   (Npos (XO (XO (XO (XO (XO
                                                   (XO XH))))))))) :: (
                   (N.add (Npos (XO (XO (XO (XO (XO (XO (XO XH))))))))
                     (N.modulo c (Npos (XO (XO (XO (XO (XO (XO XH))))))))) :: []))
            else (N.add (Npos (XO (XO (XO (XO (XI (XI (XI XH))))))))
                   (N.div c (Npos (XO (XO (XO (XO (XO (XO (XO (XO (XO (XO (XO
                     (XO (XO (XO (XO (XO (XO (XO XH))))))))))))))))))))) :: (
                   (N.add (Npos (XO (XO (XO (XO (XO (XO (XO XH))))))))
                     (N.modulo
                       (N.div c (Npos (XO (XO (XO (XO (XO (XO (XO (XO (XO (XO
                         (XO (XO XH)))))))))))))) (Npos (XO (XO (XO (XO (XO
                       (XO XH))))))))) :: ((N.add (Npos (XO (XO (XO (XO (XO
                                             (XO (XO XH))))))))
                                             (N.modulo
                                               (N.div c (Npos (XO (XO (XO (XO
                                                 (XO (XO XH)))))))) (Npos (XO
                                               (XO (XO (XO (XO (XO XH))))))))) :: (
                   (N.add (Npos (XO (XO (XO (XO (XO (XO (XO XH))))))))
                     (N.modulo c (Npos (XO (XO (XO (XO (XO (XO XH))))))))) :: [])))

(** val utf8_encode : text -> bytes **)

let utf8_encode t =
  flat_map utf8_encode_char t

(** val utf8_decode : bytes -> text option **)

let rec utf8_decode = function
| [] -> Some []
| b0 :: r0 ->
  if N.ltb b0 (Npos (XO (XO (XO (XO (XO (XO (XO XH))))))))
  then ocons b0 (utf8_decode r0)
  else if (&&) (N.leb (Npos (XO (XI (XO (XO (XO (XO (XI XH)))))))) b0)
            (N.leb b0 (Npos (XI (XI (XI (XI (XI (XO (XI XH)))))))))
       then (match r0 with
             | [] -> None
             | b1 :: r1 ->
               if is_cont b1
               then ocons
                      (N.add
                        (N.mul
                          (N.sub b0 (Npos (XO (XO (XO (XO (XO (XO (XI
                            XH))))))))) (Npos (XO (XO (XO (XO (XO (XO
                          XH))))))))
                        (N.sub b1 (Npos (XO (XO (XO (XO (XO (XO (XO
                          XH)))))))))) (utf8_decode r1)
               else None)
       else if (&&) (N.leb (Npos (XO (XO (XO (XO (XO (XI (XI XH)))))))) b0)
                 (N.leb b0 (Npos (XI (XI (XI (XI (XO (XI (XI XH)))))))))
            then (match r0 with
                  | [] -> None
                  | b1 :: l0 ->
                    (match l0 with
                     | [] -> None
                     | b2 :: r2 ->
                       let c =
                         N.add
                           (N.add
                             (N.mul
                               (N.sub b0 (Npos (XO (XO (XO (XO (XO (XI (XI
                                 XH))))))))) (Npos (XO (XO (XO (XO (XO (XO
                               (XO (XO (XO (XO (XO (XO XH))))))))))))))
                             (N.mul
                               (N.sub b1 (Npos (XO (XO (XO (XO (XO (XO (XO
                                 XH))))))))) (Npos (XO (XO (XO (XO (XO (XO
                               XH)))))))))
                           (N.sub b2 (Npos (XO (XO (XO (XO (XO (XO (XO
                             XH)))))))))
                       in
                       if (&&)
                            ((&&) ((&&) (is_cont b1) (is_cont b2))
                              (N.leb (Npos (XO (XO (XO (XO (XO (XO (XO (XO
                                (XO (XO (XO XH)))))))))))) c)) (scalar_ok c)
                       then ocons c (utf8_decode r2)
                       else None))
            else if (&&)
                      (N.leb (Npos (XO (XO (XO (XO (XI (XI (XI XH)))))))) b0)
                      (N.leb b0 (Npos (XO (XO (XI (XO (XI (XI (XI XH)))))))))
                 then (match r0 with
                       | [] -> None
                       | b1 :: l0 ->
                         (match l0 with
                          | [] -> None
                          | b2 :: l1 ->
                            (match l1 with
                             | [] -> None
                             | b3 :: r3 ->
                               let c =
                                 N.add
                                   (N.add
                                     (N.add
                                       (N.mul
                                         (N.sub b0 (Npos (XO (XO (XO (XO (XI
                                           (XI (XI XH))))))))) (Npos (XO (XO
                                         (XO (XO (XO (XO (XO (XO (XO (XO (XO
                                         (XO (XO (XO (XO (XO (XO (XO
                                         XH))))))))))))))))))))
                                       (N.mul
                                         (N.sub b1 (Npos (XO (XO (XO (XO (XO
                                           (XO (XO XH))))))))) (Npos (XO (XO
                                         (XO (XO (XO (XO (XO (XO (XO (XO (XO
                                         (XO XH)))))))))))))))
                                     (N.mul
                                       (N.sub b2 (Npos (XO (XO (XO (XO (XO
                                         (XO (XO XH))))))))) (Npos (XO (XO
                                       (XO (XO (XO (XO XH)))))))))
                                   (N.sub b3 (Npos (XO (XO (XO (XO (XO (XO
                                     (XO XH)))))))))
                               in
                               if (&&)
                                    ((&&)
                                      ((&&) ((&&) (is_cont b1) (is_cont b2))
                                        (is_cont b3))
                                      (N.leb (Npos (XO (XO (XO (XO (XO (XO
                                        (XO (XO (XO (XO (XO (XO (XO (XO (XO
                                        (XO XH))))))))))))))))) c))
                                    (N.leb c (Npos (XI (XI (XI (XI (XI (XI
                                      (XI (XI (XI (XI (XI (XI (XI (XI (XI (XI
                                      (XO (XO (XO (XO XH))))))))))))))))))))))
                               then ocons c (utf8_decode r3)
                               else None)))
                 else None

(** val utf16_units_char : n -> n list **)

let utf16_units_char c =
  if N.ltb c (Npos (XO (XO (XO (XO (XO (XO (XO (XO (XO (XO (XO (XO (XO (XO
       (XO (XO XH)))))))))))))))))
  then c :: []
  else (N.add (Npos (XO (XO (XO (XO (XO (XO (XO (XO (XO (XO (XO (XI (XI (XO
         (XI XH))))))))))))))))
         (N.div
           (N.sub c (Npos (XO (XO (XO (XO (XO (XO (XO (XO (XO (XO (XO (XO (XO
             (XO (XO (XO XH)))))))))))))))))) (Npos (XO (XO (XO (XO (XO (XO
           (XO (XO (XO (XO XH))))))))))))) :: ((N.add (Npos (XO (XO (XO (XO
                                                 (XO (XO (XO (XO (XO (XO (XI
                                                 (XI (XI (XO (XI
                                                 XH))))))))))))))))
                                                 (N.modulo
                                                   (N.sub c (Npos (XO (XO (XO
                                                     (XO (XO (XO (XO (XO (XO
                                                     (XO (XO (XO (XO (XO (XO
                                                     (XO XH))))))))))))))))))
                                                   (Npos (XO (XO (XO (XO (XO
                                                   (XO (XO (XO (XO (XO
                                                   XH))))))))))))) :: [])

(** val utf16_units : text -> n list **)

let utf16_units t =
  flat_map utf16_units_char t

(** val u16_le : n -> bytes **)

let u16_le u =
  (N.modulo u (Npos (XO (XO (XO (XO (XO (XO (XO (XO XH)))))))))) :: (
    (N.div u (Npos (XO (XO (XO (XO (XO (XO (XO (XO XH)))))))))) :: [])

(** val u16_be : n -> bytes **)

let u16_be u =
  (N.div u (Npos (XO (XO (XO (XO (XO (XO (XO (XO XH)))))))))) :: ((N.modulo u
                                                                    (Npos (XO
                                                                    (XO (XO
                                                                    (XO (XO
                                                                    (XO (XO
                                                                    (XO
                                                                    XH)))))))))) :: [])

(** val encode_utf16 : (n -> bytes) -> text -> bytes **)

let encode_utf16 u16_encoder t =
  flat_map u16_encoder (utf16_units t)

(** val encode_utf16le : text -> bytes **)

let encode_utf16le =
  encode_utf16 u16_le

(** val encode_utf16be : text -> bytes **)

let encode_utf16be =
  encode_utf16 u16_be

(** val units_of_bytes : bool -> bytes -> n list option **)

let rec units_of_bytes le = function
| [] -> Some []
| a :: l0 ->
  (match l0 with
   | [] -> None
   | b :: r ->
     if (&&) (N.ltb a (Npos (XO (XO (XO (XO (XO (XO (XO (XO XH))))))))))
          (N.ltb b (Npos (XO (XO (XO (XO (XO (XO (XO (XO XH))))))))))
     then ocons
            (if le
             then N.add a
                    (N.mul (Npos (XO (XO (XO (XO (XO (XO (XO (XO XH)))))))))
                      b)
             else N.add
                    (N.mul (Npos (XO (XO (XO (XO (XO (XO (XO (XO XH)))))))))
                      a) b) (units_of_bytes le r)
     else None)

(** val is_high : n -> bool **)

let is_high u =
  (&&)
    (N.leb (Npos (XO (XO (XO (XO (XO (XO (XO (XO (XO (XO (XO (XI (XI (XO (XI
      XH)))))))))))))))) u)
    (N.leb u (Npos (XI (XI (XI (XI (XI (XI (XI (XI (XI (XI (XO (XI (XI (XO
      (XI XH)))))))))))))))))

(** val is_low : n -> bool **)

let is_low u =
  (&&)
    (N.leb (Npos (XO (XO (XO (XO (XO (XO (XO (XO (XO (XO (XI (XI (XI (XO (XI
      XH)))))))))))))))) u)
    (N.leb u (Npos (XI (XI (XI (XI (XI (XI (XI (XI (XI (XI (XI (XI (XI (XO
      (XI XH)))))))))))))))))

(** val utf16_scalars : n list -> text option **)

let rec utf16_scalars = function
| [] -> Some []
| u :: r ->
  if is_high u
  then (match r with
        | [] -> None
        | v :: r' ->
          if is_low v
          then ocons
                 (N.add
                   (N.add (Npos (XO (XO (XO (XO (XO (XO (XO (XO (XO (XO (XO
                     (XO (XO (XO (XO (XO XH)))))))))))))))))
                     (N.mul
                       (N.sub u (Npos (XO (XO (XO (XO (XO (XO (XO (XO (XO (XO
                         (XO (XI (XI (XO (XI XH))))))))))))))))) (Npos (XO
                       (XO (XO (XO (XO (XO (XO (XO (XO (XO XH)))))))))))))
                   (N.sub v (Npos (XO (XO (XO (XO (XO (XO (XO (XO (XO (XO (XI
                     (XI (XI (XO (XI XH)))))))))))))))))) (utf16_scalars r')
          else None)
  else if is_low u then None else ocons u (utf16_scalars r)

(** val utf16_decode : bool -> bytes -> text option **)

let utf16_decode le b =
  match units_of_bytes le b with
  | Some us -> utf16_scalars us
  | None -> None

(** val utf16le_decode : bytes -> text option **)

let utf16le_decode =
  utf16_decode true

(** val utf16be_decode : bytes -> text option **)

let utf16be_decode =
  utf16_decode false

type enc =
| Utf8
| Utf16le
| Utf16be
| Legacy of nat

(** val bom_utf8 : bytes **)

let bom_utf8 =
  (Npos (XI (XI (XI (XI (XO (XI (XI XH)))))))) :: ((Npos (XI (XI (XO (XI (XI
    (XI (XO XH)))))))) :: ((Npos (XI (XI (XI (XI (XI (XI (XO
    XH)))))))) :: []))

(** val bom_utf16le : bytes **)

let bom_utf16le =
  (Npos (XI (XI (XI (XI (XI (XI (XI XH)))))))) :: ((Npos (XO (XI (XI (XI (XI
    (XI (XI XH)))))))) :: [])

(** val bom_utf16be : bytes **)

let bom_utf16be =
  (Npos (XO (XI (XI (XI (XI (XI (XI XH)))))))) :: ((Npos (XI (XI (XI (XI (XI
    (XI (XI XH)))))))) :: [])

(** val for_bom : bytes -> (enc * nat) option **)

let for_bom buf =
  if is_prefix bom_utf8 buf
  then Some (Utf8, (S (S (S O))))
  else if is_prefix bom_utf16le buf
       then Some (Utf16le, (S (S O)))
       else if is_prefix bom_utf16be buf
            then Some (Utf16be, (S (S O)))
            else None

(** val bom_bytes : bytes option -> bytes **)

let bom_bytes = function
| Some b -> b
| None -> []

(** val decode_with :
    (nat -> bytes -> text option) -> enc -> bytes -> text option **)

let decode_with legacy_decode e body =
  match e with
  | Utf8 -> utf8_decode body
  | Utf16le -> utf16le_decode body
  | Utf16be -> utf16be_decode body
  | Legacy id -> legacy_decode id body

(** val select_encoding : enc -> bytes -> (enc * bytes option) * bytes **)

let select_encoding configured buf =
  match for_bom buf with
  | Some p -> let (e, n0) = p in ((e, (Some (firstn n0 buf))), (skipn n0 buf))
  | None -> ((configured, None), buf)

(** val decode_file :
    (nat -> bytes -> text option) -> enc -> bytes -> ((bytes
    option * enc) * text) option **)

let decode_file legacy_decode configured buf =
  let (p, body) = select_encoding configured buf in
  let (e, bom) = p in
  (match decode_with legacy_decode e body with
   | Some t -> Some ((bom, e), t)
   | None -> None)

(** val encode_with :
    (nat -> text -> bytes option) -> enc -> text -> bytes option **)

let encode_with legacy_encode e t =
  match e with
  | Utf8 -> Some (utf8_encode t)
  | Utf16le -> Some (encode_utf16le t)
  | Utf16be -> Some (encode_utf16be t)
  | Legacy id -> legacy_encode id t

(** val write_bytes :
    (nat -> text -> bytes option) -> enc -> bytes option -> text -> bytes
    option **)

let write_bytes legacy_encode e bom t =
  match encode_with legacy_encode e t with
  | Some b -> Some (app (bom_bytes bom) b)
  | None -> None

type file = { f_content : bytes; f_pos : nat; f_writable : bool }

(** val zeros : nat -> bytes **)

let zeros n0 =
  repeat N0 n0

(** val read_to_end : file -> bytes -> bytes * file **)

let read_to_end f buf =
  ((app buf (skipn f.f_pos f.f_content)), { f_content = f.f_content; f_pos =
    (Nat.max f.f_pos (length f.f_content)); f_writable = f.f_writable })

(** val seek0 : file -> file **)

let seek0 f =
  { f_content = f.f_content; f_pos = O; f_writable = f.f_writable }

(** val overwrite : nat -> bytes -> bytes -> bytes **)

let overwrite p data c =
  app (firstn p c)
    (app (zeros (sub p (length c)))
      (app data (skipn (add p (length data)) c)))

(** val write_all : bytes -> file -> file option **)

let write_all data f =
  match data with
  | [] -> Some f
  | _ :: _ ->
    if f.f_writable
    then Some { f_content = (overwrite f.f_pos data f.f_content); f_pos =
           (add f.f_pos (length data)); f_writable = true }
    else None

(** val set_len : nat -> file -> file option **)

let set_len n0 f =
  if f.f_writable
  then Some { f_content =
         (app (firstn n0 f.f_content) (zeros (sub n0 (length f.f_content))));
         f_pos = f.f_pos; f_writable = true }
  else None

(** val stdout_write_all : bytes -> bytes -> bytes option **)

let stdout_write_all data w =
  Some (app w data)

(** val write_to :
    (nat -> text -> bytes option) -> (bytes -> 'a1 -> 'a1 option) -> 'a1 ->
    enc -> bytes option -> text -> 'a1 * nat option **)

let write_to legacy_encode wa w e bom data =
  match encode_with legacy_encode e data with
  | Some ob ->
    (match match bom with
           | Some b -> wa b w
           | None -> Some w with
     | Some w1 ->
       (match wa ob w1 with
        | Some w2 -> (w2, (Some (add (length (bom_bytes bom)) (length ob))))
        | None -> (w1, None))
     | None -> (w, None))
  | None -> (w, None)

type result_op =
  file -> ((bytes option * enc) * text) -> text -> (file * bytes) * bool

(** val exec_one :
    (nat -> bytes -> text option) -> (text -> text) -> bool -> result_op ->
    bytes -> enc -> bytes -> (bytes * bytes) * bool **)

let exec_one legacy_decode format writable op0 prev cfg c =
  let f0 = { f_content = c; f_pos = O; f_writable = writable } in
  let (buf, f1) = read_to_end f0 prev in
  (match decode_file legacy_decode cfg buf with
   | Some d ->
     let (_, t) = d in
     let (p, err) = op0 f1 d (format t) in
     let (f2, out) = p in ((f2.f_content, out), err)
   | None -> ((f1.f_content, []), true))

(** val op_format_files : (nat -> text -> bytes option) -> result_op **)

let op_format_files legacy_encode f d out =
  let (p, t) = d in
  let (bom, e) = p in
  if bytes_eqb t out
  then ((f, []), false)
  else let f2 = seek0 f in
       let (f3, o) = write_to legacy_encode write_all f2 e bom out in
       (match o with
        | Some n0 ->
          (match set_len n0 f3 with
           | Some f4 -> ((f4, []), false)
           | None -> ((f3, []), true))
        | None -> ((f3, []), true))

(** val op_files_to_stdout : bytes -> result_op **)

let op_files_to_stdout path f _ out =
  ((f,
    (app path
      (app ((Npos (XO (XI (XO (XI (XI XH)))))) :: ((Npos (XO (XI (XO
        XH)))) :: []))
        (app (utf8_encode out) ((Npos (XO (XI (XO XH)))) :: []))))), false)

(** val op_check : result_op **)

let op_check f d out =
  let (_, t) = d in ((f, []), (negb (bytes_eqb t out)))

(** val files_mode_from :
    (nat -> bytes -> text option) -> (nat -> text -> bytes option) -> (text
    -> text) -> bytes -> enc -> bytes -> (bytes * bytes) * bool **)

let files_mode_from legacy_decode legacy_encode format prev =
  exec_one legacy_decode format true (op_format_files legacy_encode) prev

(** val files_mode :
    (nat -> bytes -> text option) -> (nat -> text -> bytes option) -> (text
    -> text) -> enc -> bytes -> (bytes * bytes) * bool **)

let files_mode legacy_decode legacy_encode format =
  files_mode_from legacy_decode legacy_encode format []

(** val files_to_stdout_mode :
    (nat -> bytes -> text option) -> (text -> text) -> bytes -> enc -> bytes
    -> (bytes * bytes) * bool **)

let files_to_stdout_mode legacy_decode format path =
  exec_one legacy_decode format false (op_files_to_stdout path) []

(** val check_files_mode :
    (nat -> bytes -> text option) -> (text -> text) -> enc -> bytes ->
    (bytes * bytes) * bool **)

let check_files_mode legacy_decode format =
  exec_one legacy_decode format false op_check []

(** val stdin_mode :
    (nat -> bytes -> text option) -> (nat -> text -> bytes option) -> (text
    -> text) -> bool -> enc -> bytes -> bytes * bool **)

let stdin_mode legacy_decode legacy_encode format tty cfg input =
  match decode_file legacy_decode cfg input with
  | Some p ->
    let (p0, t) = p in
    let (bom, e) = p0 in
    let out = format t in
    if tty
    then let e' = Utf8 in
         let bom' = None in
         let (w, o) = write_to legacy_encode stdout_write_all [] e' bom' out
         in
         (match o with
          | Some _ -> (w, false)
          | None -> (w, true))
    else let (w, o) = write_to legacy_encode stdout_write_all [] e bom out in
         (match o with
          | Some _ -> (w, false)
          | None -> (w, true))
  | None -> ([], true)

(** val check_stdin_mode :
    (nat -> bytes -> text option) -> (text -> text) -> enc -> bytes -> bool **)

let check_stdin_mode legacy_decode format cfg input =
  match decode_file legacy_decode cfg input with
  | Some p -> let (_, t) = p in negb (bytes_eqb t (format t))
  | None -> true

type kev =
| KT
| KS
| KL
| KC
| Kc
| KR
| Kr

type kstate = { k_lines : nat list list; k_cur : nat list; k_pi : nat;
                k_last : nat }

(** val k_init : kstate **)

let k_init =
  { k_lines = ([] :: []); k_cur = (O :: []); k_pi = O; k_last = O }

(** val upd_nth : nat -> ('a1 -> 'a1) -> 'a1 list -> 'a1 list **)

let rec upd_nth i f = function
| [] -> []
| a :: t -> (match i with
             | O -> (f a) :: t
             | S j -> a :: (upd_nth j f t))

(** val k_top : kstate -> nat **)

let k_top s =
  hd O s.k_cur

(** val pop_keep : nat list -> nat list **)

let pop_keep l = match l with
| [] -> l
| _ :: l0 -> (match l0 with
              | [] -> l
              | b :: t -> b :: t)

(** val k_step : nat list -> kstate -> kev -> kstate **)

let k_step pass s = function
| KT ->
  (match nth_error pass s.k_pi with
   | Some t ->
     { k_lines = (upd_nth (k_top s) (fun l -> app l (t :: [])) s.k_lines);
       k_cur = s.k_cur; k_pi = (S s.k_pi); k_last = s.k_last }
   | None ->
     { k_lines = s.k_lines; k_cur = s.k_cur; k_pi = (S s.k_pi); k_last =
       s.k_last })
| KS ->
  { k_lines = s.k_lines; k_cur = s.k_cur; k_pi = (S s.k_pi); k_last =
    s.k_last }
| KL ->
  let n0 = length s.k_lines in
  { k_lines = (app s.k_lines ([] :: [])); k_cur =
  (match s.k_cur with
   | [] -> n0 :: []
   | _ :: r -> n0 :: r); k_pi = s.k_pi; k_last = (k_top s) }
| KC ->
  let n0 = length s.k_lines in
  { k_lines = (app s.k_lines ([] :: [])); k_cur = (n0 :: s.k_cur); k_pi =
  s.k_pi; k_last = n0 }
| KR ->
  { k_lines = s.k_lines; k_cur = (s.k_last :: s.k_cur); k_pi = s.k_pi;
    k_last = s.k_last }
| _ ->
  { k_lines = s.k_lines; k_cur = (pop_keep s.k_cur); k_pi = s.k_pi; k_last =
    s.k_last }

(** val k_run : nat list -> kev list -> kstate **)

let k_run pass evs =
  fold_left (k_step pass) evs k_init

(** val k_skips : kev list -> nat -> nat list **)

let rec k_skips evs pi =
  match evs with
  | [] -> []
  | k :: r ->
    (match k with
     | KT -> k_skips r (S pi)
     | KS -> pi :: (k_skips r (S pi))
     | _ -> k_skips r pi)

(** val nat_list_eqb : nat list -> nat list -> bool **)

let rec nat_list_eqb a b =
  match a with
  | [] -> (match b with
           | [] -> true
           | _ :: _ -> false)
  | x :: a' ->
    (match b with
     | [] -> false
     | y :: b' -> (&&) (Nat.eqb x y) (nat_list_eqb a' b'))

(** val consolidate_pass : nat list list -> nat list list -> nat list list **)

let consolidate_pass acc pass_lines =
  fold_left (fun acc0 l ->
    match l with
    | [] -> acc0
    | _ :: _ ->
      if existsb (nat_list_eqb l) acc0 then acc0 else app acc0 (l :: []))
    pass_lines acc

(** val parse_file_lines :
    (nat -> bool) -> nat -> nat list list list -> nat list list **)

let parse_file_lines is_directive ntok pass_results =
  let merged = fold_left consolidate_pass pass_results [] in
  let pushed = concat merged in
  let dirs =
    filter (fun i ->
      (&&) (is_directive i) (negb (existsb (Nat.eqb i) pushed))) (seq O ntok)
  in
  consolidate_pass merged (map (fun i -> i :: []) dirs)

(** val lT_G : tokenType **)

let lT_G =
  TT_Op (OK_LessThan ChK_Generic)

(** val gT_G : tokenType **)

let gT_G =
  TT_Op (OK_GreaterThan ChK_Generic)

(** val set_nth0 : nat -> tokenType -> tokenType list -> tokenType list **)

let rec set_nth0 i v = function
| [] -> []
| x :: r -> (match i with
             | O -> v :: r
             | S i' -> x :: (set_nth0 i' v r))

type arm =
| A_Lt
| A_Comma
| A_Plain
| A_Gt
| A_LBrack
| A_RBrack
| A_InBrack
| A_Break

(** val arm_of : tokenType option -> bool -> nat -> arm **)

let arm_of t prev_was_string brack_count =
  match t with
  | Some t0 ->
    (match t0 with
     | TT_Op k ->
       (match k with
        | OK_Comma -> A_Comma
        | OK_Semicolon -> A_Plain
        | OK_Colon -> A_Plain
        | OK_LessThan _ -> A_Lt
        | OK_GreaterThan _ -> A_Gt
        | OK_LBrack ->
          if (||) prev_was_string (Nat.ltb O brack_count)
          then A_LBrack
          else A_Break
        | OK_RBrack -> if Nat.ltb O brack_count then A_RBrack else A_Break
        | OK_Dot -> A_Plain
        | _ -> if Nat.ltb O brack_count then A_InBrack else A_Break)
     | TT_Keyword kk ->
       (match kk with
        | KK_Array -> A_Plain
        | KK_Class -> A_Plain
        | KK_Constructor -> A_Plain
        | KK_Of -> A_Plain
        | KK_Record -> A_Plain
        | KK_Set -> A_Plain
        | KK_String -> A_Plain
        | _ ->
          if (&&) (Nat.ltb O brack_count) (keywordKind_is_numeric_operator kk)
          then A_InBrack
          else A_Break)
     | TT_TextLiteral _ ->
       if Nat.ltb O brack_count then A_InBrack else A_Break
     | TT_NumberLiteral _ ->
       if Nat.ltb O brack_count then A_InBrack else A_Break
     | TT_Eof -> A_Break
     | TT_Unknown -> A_Break
     | _ -> A_Plain)
  | None -> A_Break

(** val gt_blocked : tokenType option -> bool **)

let gt_blocked = function
| Some t ->
  (match t with
   | TT_Op k -> (match k with
                 | OK_AddressOf -> true
                 | _ -> false)
   | TT_Identifier -> true
   | TT_Keyword k -> (match k with
                      | KK_Not -> true
                      | _ -> false)
   | _ -> false)
| None -> false

(** val pws_next : tokenType option -> bool -> bool **)

let pws_next t prev_was_string =
  match t with
  | Some ty ->
    if tokenType_is_comment_or_directive ty
    then prev_was_string
    else (match ty with
          | TT_Keyword k -> (match k with
                             | KK_String -> true
                             | _ -> false)
          | _ -> false)
  | None -> prev_was_string

(** val rbrack_pop : (nat * nat) list -> nat -> (nat * nat) list * nat **)

let rec rbrack_pop st brack_count =
  match st with
  | [] -> ([], brack_count)
  | p :: r ->
    if Nat.ltb (snd p) brack_count
    then ((p :: r), (sub brack_count (S O)))
    else rbrack_pop r brack_count

type ires =
| I_Done of tokenType list * nat
| I_Fuel
| I_Panic

(** val generics_inner :
    nat -> tokenType list -> (nat * nat) list -> bool -> bool -> nat -> nat
    -> ires **)

let rec generics_inner fuel toks st comma_found prev_was_string brack_count next_idx =
  match st with
  | [] -> I_Done (toks, next_idx)
  | top :: rest ->
    (match fuel with
     | O -> I_Fuel
     | S fuel' ->
       let t = nth_error toks next_idx in
       let pws' = pws_next t prev_was_string in
       (match arm_of t prev_was_string brack_count with
        | A_Lt ->
          generics_inner fuel' toks ((next_idx, brack_count) :: st)
            comma_found pws' brack_count (S next_idx)
        | A_Comma ->
          generics_inner fuel' toks st true pws' brack_count (S next_idx)
        | A_Gt ->
          if (&&) comma_found (gt_blocked (nth_error toks (S next_idx)))
          then I_Done (toks, next_idx)
          else let open_idx = fst top in
               if (&&) (Nat.ltb open_idx (length toks))
                    (Nat.ltb next_idx (length toks))
               then generics_inner fuel'
                      (set_nth0 next_idx gT_G (set_nth0 open_idx lT_G toks))
                      rest comma_found pws' (snd top) (S next_idx)
               else I_Panic
        | A_LBrack ->
          generics_inner fuel' toks st comma_found pws' (S brack_count) (S
            next_idx)
        | A_RBrack ->
          let r = rbrack_pop st brack_count in
          generics_inner fuel' toks (fst r) comma_found pws' (snd r) (S
            next_idx)
        | A_Break -> I_Done (toks, next_idx)
        | _ ->
          generics_inner fuel' toks st comma_found pws' brack_count (S
            next_idx)))

type gres =
| G_Ok of tokenType list
| G_Fuel
| G_Panic

(** val is_less_than : tokenType option -> bool **)

let is_less_than = function
| Some t0 ->
  (match t0 with
   | TT_Op k -> (match k with
                 | OK_LessThan _ -> true
                 | _ -> false)
   | _ -> false)
| None -> false

(** val generics_outer : nat -> tokenType list -> nat -> gres **)

let rec generics_outer fuel toks token_idx =
  if Nat.leb (length toks) token_idx
  then G_Ok toks
  else (match fuel with
        | O -> G_Fuel
        | S fuel' ->
          if is_less_than (nth_error toks token_idx)
          then (match generics_inner (S (length toks)) toks ((token_idx,
                        O) :: []) false false O (S token_idx) with
                | I_Done (toks', next_idx) ->
                  generics_outer fuel' toks' next_idx
                | I_Fuel -> G_Fuel
                | I_Panic -> G_Panic)
          else generics_outer fuel' toks (S token_idx))

(** val generics_run : tokenType list -> gres **)

let generics_run toks =
  generics_outer (S (length toks)) toks O

(** val generics_consolidate : tokenType list -> tokenType list **)

let generics_consolidate toks =
  match generics_run toks with
  | G_Ok r -> r
  | _ -> toks

type decisionRequirement =
| DR_Indifferent
| DR_Invalid
| DR_MustBreak
| DR_MustNotBreak

(** val formatting_invariant :
    tokenType option -> tokenType option -> bool -> decisionRequirement option **)

let formatting_invariant prev cur cd_outside_line0 =
  match prev with
  | Some t ->
    (match t with
     | TT_Op _ ->
       (match cur with
        | Some t0 ->
          (match t0 with
           | TT_TextLiteral k0 ->
             (match k0 with
              | TK_MultiLine -> Some DR_MustBreak
              | _ -> None)
           | TT_Comment k0 ->
             (match k0 with
              | CoK_InlineBlock -> Some DR_MustNotBreak
              | CoK_InlineLine -> Some DR_MustNotBreak
              | _ -> Some DR_MustBreak)
           | _ -> None)
        | None -> None)
     | TT_Keyword _ ->
       (match cur with
        | Some t0 ->
          (match t0 with
           | TT_TextLiteral k0 ->
             (match k0 with
              | TK_MultiLine -> Some DR_MustBreak
              | _ -> None)
           | TT_Comment k0 ->
             (match k0 with
              | CoK_InlineBlock -> Some DR_MustNotBreak
              | CoK_InlineLine -> Some DR_MustNotBreak
              | _ -> Some DR_MustBreak)
           | _ -> None)
        | None -> None)
     | TT_TextLiteral k ->
       (match k with
        | TK_Unterminated ->
          (match cur with
           | Some t0 ->
             (match t0 with
              | TT_Comment k0 ->
                (match k0 with
                 | CoK_InlineBlock -> Some DR_MustNotBreak
                 | CoK_InlineLine -> Some DR_MustNotBreak
                 | _ -> Some DR_MustBreak)
              | _ -> Some DR_MustBreak)
           | None -> Some DR_MustBreak)
        | _ ->
          (match cur with
           | Some t0 ->
             (match t0 with
              | TT_TextLiteral k0 ->
                (match k0 with
                 | TK_MultiLine -> Some DR_MustBreak
                 | _ -> None)
              | TT_Comment k0 ->
                (match k0 with
                 | CoK_InlineBlock -> Some DR_MustNotBreak
                 | CoK_InlineLine -> Some DR_MustNotBreak
                 | _ -> Some DR_MustBreak)
              | _ -> None)
           | None -> None))
     | TT_NumberLiteral _ ->
       (match cur with
        | Some t0 ->
          (match t0 with
           | TT_TextLiteral k0 ->
             (match k0 with
              | TK_MultiLine -> Some DR_MustBreak
              | _ -> None)
           | TT_Comment k0 ->
             (match k0 with
              | CoK_InlineBlock -> Some DR_MustNotBreak
              | CoK_InlineLine -> Some DR_MustNotBreak
              | _ -> Some DR_MustBreak)
           | _ -> None)
        | None -> None)
     | TT_ConditionalDirective _ ->
       (match cur with
        | Some t0 ->
          (match t0 with
           | TT_TextLiteral k0 ->
             (match k0 with
              | TK_MultiLine -> Some DR_MustBreak
              | _ -> if cd_outside_line0 then Some DR_MustBreak else None)
           | TT_Comment k0 ->
             (match k0 with
              | CoK_InlineBlock -> Some DR_MustNotBreak
              | CoK_InlineLine -> Some DR_MustNotBreak
              | _ -> Some DR_MustBreak)
           | _ -> if cd_outside_line0 then Some DR_MustBreak else None)
        | None -> if cd_outside_line0 then Some DR_MustBreak else None)
     | TT_Comment k ->
       (match k with
        | CoK_InlineBlock ->
          (match cur with
           | Some t0 ->
             (match t0 with
              | TT_TextLiteral k0 ->
                (match k0 with
                 | TK_MultiLine -> Some DR_MustBreak
                 | _ -> None)
              | TT_Comment k0 ->
                (match k0 with
                 | CoK_InlineBlock -> Some DR_MustNotBreak
                 | CoK_InlineLine -> Some DR_MustNotBreak
                 | _ -> Some DR_MustBreak)
              | _ -> None)
           | None -> None)
        | CoK_IndividualBlock ->
          (match cur with
           | Some t0 ->
             (match t0 with
              | TT_TextLiteral k0 ->
                (match k0 with
                 | TK_MultiLine -> Some DR_MustBreak
                 | _ -> None)
              | TT_Comment k0 ->
                (match k0 with
                 | CoK_InlineBlock -> Some DR_MustNotBreak
                 | CoK_InlineLine -> Some DR_MustNotBreak
                 | _ -> Some DR_MustBreak)
              | _ -> None)
           | None -> None)
        | _ ->
          (match cur with
           | Some t0 ->
             (match t0 with
              | TT_Comment k0 ->
                (match k0 with
                 | CoK_InlineBlock -> Some DR_MustNotBreak
                 | CoK_InlineLine -> Some DR_MustNotBreak
                 | _ -> Some DR_MustBreak)
              | _ -> Some DR_MustBreak)
           | None -> Some DR_MustBreak))
     | _ ->
       (match cur with
        | Some t0 ->
          (match t0 with
           | TT_TextLiteral k ->
             (match k with
              | TK_MultiLine -> Some DR_MustBreak
              | _ -> None)
           | TT_Comment k ->
             (match k with
              | CoK_InlineBlock -> Some DR_MustNotBreak
              | CoK_InlineLine -> Some DR_MustNotBreak
              | _ -> Some DR_MustBreak)
           | _ -> None)
        | None -> None))
  | None -> Some DR_MustNotBreak

(** val cd_outside_line : nat list -> nat -> bool **)

let cd_outside_line line_tokens line_index =
  let a = match line_index with
          | O -> None
          | S k -> nth_error line_tokens k in
  let b = nth_error line_tokens line_index in
  (match a with
   | Some x ->
     (match b with
      | Some idx -> negb (Nat.eqb idx (S x))
      | None -> true)
   | None -> (match b with
              | Some _ -> true
              | None -> false))

(** val token_type_for_line_index :
    tokenType list -> nat list -> nat -> tokenType option **)

let token_type_for_line_index types line_tokens line_index =
  match nth_error line_tokens line_index with
  | Some token_index -> nth_error types token_index
  | None -> None

(** val prev_token_type_for_line_index :
    tokenType list -> nat list -> nat -> tokenType option **)

let prev_token_type_for_line_index types line_tokens line_index =
  match nth_error line_tokens line_index with
  | Some token_index ->
    (match token_index with
     | O -> None
     | S prev_index -> nth_error types prev_index)
  | None -> None

(** val get_formatting_invariant :
    tokenType list -> nat list -> nat -> decisionRequirement option **)

let get_formatting_invariant types line_tokens line_index =
  formatting_invariant
    (prev_token_type_for_line_index types line_tokens line_index)
    (token_type_for_line_index types line_tokens line_index)
    (cd_outside_line line_tokens line_index)

(** val respects : decisionRequirement option -> bool -> bool **)

let respects inv brk =
  match inv with
  | Some d ->
    (match d with
     | DR_MustBreak -> brk
     | DR_MustNotBreak -> negb brk
     | _ -> true)
  | None -> true

(** val line_violations :
    tokenType list -> bool list -> nat list -> nat list **)

let line_violations types brks line_tokens =
  flat_map (fun li ->
    match nth_error line_tokens li with
    | Some ti ->
      if respects (get_formatting_invariant types line_tokens li)
           (nth ti brks false)
      then []
      else ti :: []
    | None -> []) (seq O (length line_tokens))

(** val lines_violations :
    tokenType list -> bool list -> nat list list -> nat list **)

let lines_violations types brks lines =
  flat_map (line_violations types brks) lines

module MLStringJoin =
 struct
  (** val join : bytes -> bytes list -> bytes **)

  let rec join nl = function
  | [] -> []
  | l :: r -> (match r with
               | [] -> l
               | _ :: _ -> app l (app nl (join nl r)))
 end
