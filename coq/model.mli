
val negb : bool -> bool

type nat =
| O
| S of nat

val option_map : ('a1 -> 'a2) -> 'a1 option -> 'a2 option

val fst : ('a1 * 'a2) -> 'a1

val snd : ('a1 * 'a2) -> 'a2

val length : 'a1 list -> nat

val app : 'a1 list -> 'a1 list -> 'a1 list

type comparison =
| Eq
| Lt
| Gt

val compOpp : comparison -> comparison

val add : nat -> nat -> nat

val mul : nat -> nat -> nat

val sub : nat -> nat -> nat

module Nat :
 sig
  val add : nat -> nat -> nat

  val eqb : nat -> nat -> bool

  val leb : nat -> nat -> bool

  val ltb : nat -> nat -> bool

  val max : nat -> nat -> nat

  val even : nat -> bool

  val odd : nat -> bool
 end

val hd : 'a1 -> 'a1 list -> 'a1

val tl : 'a1 list -> 'a1 list

val nth : nat -> 'a1 list -> 'a1 -> 'a1

val nth_error : 'a1 list -> nat -> 'a1 option

val last : 'a1 list -> 'a1 -> 'a1

val removelast : 'a1 list -> 'a1 list

val rev : 'a1 list -> 'a1 list

val concat : 'a1 list list -> 'a1 list

val map : ('a1 -> 'a2) -> 'a1 list -> 'a2 list

val flat_map : ('a1 -> 'a2 list) -> 'a1 list -> 'a2 list

val fold_left : ('a1 -> 'a2 -> 'a1) -> 'a2 list -> 'a1 -> 'a1

val fold_right : ('a2 -> 'a1 -> 'a1) -> 'a1 -> 'a2 list -> 'a1

val existsb : ('a1 -> bool) -> 'a1 list -> bool

val forallb : ('a1 -> bool) -> 'a1 list -> bool

val filter : ('a1 -> bool) -> 'a1 list -> 'a1 list

val combine : 'a1 list -> 'a2 list -> ('a1 * 'a2) list

val firstn : nat -> 'a1 list -> 'a1 list

val skipn : nat -> 'a1 list -> 'a1 list

val seq : nat -> nat -> nat list

val repeat : 'a1 -> nat -> 'a1 list

type positive =
| XI of positive
| XO of positive
| XH

type n =
| N0
| Npos of positive

type z =
| Z0
| Zpos of positive
| Zneg of positive

module Pos :
 sig
  type mask =
  | IsNul
  | IsPos of positive
  | IsNeg
 end

module Coq_Pos :
 sig
  val succ : positive -> positive

  val add : positive -> positive -> positive

  val add_carry : positive -> positive -> positive

  val pred_double : positive -> positive

  type mask = Pos.mask =
  | IsNul
  | IsPos of positive
  | IsNeg

  val succ_double_mask : mask -> mask

  val double_mask : mask -> mask

  val double_pred_mask : positive -> mask

  val sub_mask : positive -> positive -> mask

  val sub_mask_carry : positive -> positive -> mask

  val mul : positive -> positive -> positive

  val compare_cont : comparison -> positive -> positive -> comparison

  val compare : positive -> positive -> comparison

  val eqb : positive -> positive -> bool

  val iter_op : ('a1 -> 'a1 -> 'a1) -> positive -> 'a1 -> 'a1

  val to_nat : positive -> nat

  val of_succ_nat : nat -> positive
 end

module N :
 sig
  val succ_double : n -> n

  val double : n -> n

  val add : n -> n -> n

  val sub : n -> n -> n

  val mul : n -> n -> n

  val compare : n -> n -> comparison

  val eqb : n -> n -> bool

  val leb : n -> n -> bool

  val ltb : n -> n -> bool

  val min : n -> n -> n

  val pos_div_eucl : positive -> n -> n * n

  val div_eucl : n -> n -> n * n

  val div : n -> n -> n

  val modulo : n -> n -> n

  val to_nat : n -> nat

  val of_nat : nat -> n
 end

module Z :
 sig
  val double : z -> z

  val succ_double : z -> z

  val pred_double : z -> z

  val pos_sub : positive -> positive -> z

  val add : z -> z -> z

  val opp : z -> z

  val sub : z -> z -> z

  val mul : z -> z -> z

  val compare : z -> z -> comparison

  val leb : z -> z -> bool

  val ltb : z -> z -> bool

  val max : z -> z -> z

  val to_nat : z -> nat

  val to_N : z -> n

  val of_N : n -> z

  val pos_div_eucl : positive -> z -> z * z

  val div_eucl : z -> z -> z * z

  val modulo : z -> z -> z
 end

type byte = n

type bytes = n list

val repeat_app : nat -> 'a1 list -> 'a1 list

val nrepeat : n -> 'a1 list -> 'a1 list

val count_while : ('a1 -> bool) -> 'a1 list -> nat

val is_prefix : bytes -> bytes -> bool

val bytes_eqb : bytes -> bytes -> bool

val is_cont : byte -> bool

val strip : bytes -> bytes

val is_upper : byte -> bool

val is_lower : byte -> bool

val is_alpha : byte -> bool

val is_digit : byte -> bool

val is_alnum : byte -> bool

val to_lower : byte -> byte

val to_upper : byte -> byte

val lower : bytes -> bytes

val upper : bytes -> bytes

val is_ascii_ws : byte -> bool

val fold_case : bytes -> bytes

type inKind =
| IK_ForLoop
| IK_Op
| IK_Import

val all_InKind : inKind list

type declKind =
| DK_Section
| DK_Inline
| DK_Param
| DK_AnonSection
| DK_Other

val all_DeclKind : declKind list

type keywordKind =
| KK_And
| KK_Array
| KK_As
| KK_Asm
| KK_Begin
| KK_Case
| KK_Class
| KK_Const of declKind
| KK_Constructor
| KK_Destructor
| KK_DispInterface
| KK_Div
| KK_Do
| KK_Downto
| KK_Else
| KK_End
| KK_Except
| KK_Exports
| KK_File
| KK_Finalization
| KK_Finally
| KK_For
| KK_Function
| KK_Goto
| KK_If
| KK_Implementation
| KK_In of inKind
| KK_Inherited
| KK_Initialization
| KK_Inline
| KK_Interface
| KK_Is
| KK_Label
| KK_Library
| KK_Mod
| KK_Nil
| KK_Not
| KK_Object
| KK_Of
| KK_Or
| KK_Packed
| KK_Procedure
| KK_Program
| KK_Property
| KK_Raise
| KK_Record
| KK_Repeat
| KK_ResourceString
| KK_Set
| KK_Shl
| KK_Shr
| KK_String
| KK_Then
| KK_ThreadVar
| KK_To
| KK_Try
| KK_Type
| KK_Unit
| KK_Until
| KK_Uses
| KK_Var of declKind
| KK_While
| KK_With
| KK_Xor
| KK_Absolute
| KK_Abstract
| KK_Align
| KK_Assembler
| KK_At
| KK_Automated
| KK_Cdecl
| KK_Contains
| KK_Default
| KK_Delayed
| KK_Deprecated
| KK_DispId
| KK_Dynamic
| KK_Experimental
| KK_Export
| KK_External
| KK_Far
| KK_Final
| KK_Forward
| KK_Helper
| KK_Implements
| KK_Index
| KK_Local
| KK_Message
| KK_Name
| KK_Near
| KK_NoDefault
| KK_On
| KK_Operator
| KK_Out
| KK_Overload
| KK_Override
| KK_Package
| KK_Pascal
| KK_Platform
| KK_Private
| KK_Protected
| KK_Public
| KK_Published
| KK_Read
| KK_ReadOnly
| KK_Reference
| KK_Register
| KK_Reintroduce
| KK_Requires
| KK_Resident
| KK_SafeCall
| KK_Sealed
| KK_Static
| KK_StdCall
| KK_Stored
| KK_Strict
| KK_Unsafe
| KK_VarArgs
| KK_Virtual
| KK_WinApi
| KK_Write
| KK_WriteOnly

val all_KeywordKind : keywordKind list

type eqKind =
| EK_Decl
| EK_Comp

val all_EqKind : eqKind list

type chevronKind =
| ChK_Generic
| ChK_Comp

val all_ChevronKind : chevronKind list

type caretKind =
| CaK_Type
| CaK_Deref

val all_CaretKind : caretKind list

type operatorKind =
| OK_Plus
| OK_Minus
| OK_Star
| OK_Slash
| OK_Assign
| OK_Comma
| OK_Semicolon
| OK_Colon
| OK_Equal of eqKind
| OK_NotEqual
| OK_LessThan of chevronKind
| OK_LessEqual
| OK_GreaterThan of chevronKind
| OK_GreaterEqual
| OK_LBrack
| OK_RBrack
| OK_LParen
| OK_RParen
| OK_Caret of caretKind
| OK_AddressOf
| OK_Dot
| OK_DotDot

val all_OperatorKind : operatorKind list

type numberLiteralKind =
| NK_Decimal
| NK_Octal
| NK_Hex
| NK_Binary

val all_NumberLiteralKind : numberLiteralKind list

type commentKind =
| CoK_InlineBlock
| CoK_IndividualBlock
| CoK_MultilineBlock
| CoK_InlineLine
| CoK_IndividualLine

val all_CommentKind : commentKind list

type conditionalDirectiveKind =
| CDK_If
| CDK_Ifdef
| CDK_Ifndef
| CDK_Ifopt
| CDK_Elseif
| CDK_Else
| CDK_Ifend
| CDK_Endif

val all_ConditionalDirectiveKind : conditionalDirectiveKind list

type textLiteralKind =
| TK_SingleLine
| TK_MultiLine
| TK_Asm
| TK_Unterminated

val all_TextLiteralKind : textLiteralKind list

type rawTokenType =
| RTT_Op of operatorKind
| RTT_Identifier
| RTT_IdentifierOrKeyword of keywordKind
| RTT_Keyword of keywordKind
| RTT_TextLiteral of textLiteralKind
| RTT_NumberLiteral of numberLiteralKind
| RTT_ConditionalDirective of conditionalDirectiveKind
| RTT_CompilerDirective
| RTT_Comment of commentKind
| RTT_Eof
| RTT_Unknown

val all_RawTokenType : rawTokenType list

type tokenType =
| TT_Op of operatorKind
| TT_Identifier
| TT_Keyword of keywordKind
| TT_TextLiteral of textLiteralKind
| TT_NumberLiteral of numberLiteralKind
| TT_ConditionalDirective of conditionalDirectiveKind
| TT_CompilerDirective
| TT_Comment of commentKind
| TT_Eof
| TT_Unknown

val all_TokenType : tokenType list

type logicalLineType =
| LLT_Assignment
| LLT_ConditionalDirective
| LLT_CompilerDirective
| LLT_ForLoop
| LLT_Eof
| LLT_ImportClause
| LLT_ExportClause
| LLT_AsmInstruction
| LLT_PropertyDeclaration
| LLT_RoutineHeader
| LLT_InlineDeclaration
| LLT_Guid
| LLT_Attribute
| LLT_CaseHeader
| LLT_CaseArm
| LLT_Declaration
| LLT_VariantRecordCaseArm
| LLT_Unknown
| LLT_Voided

val all_LogicalLineType : logicalLineType list

val keywordKind_is_numeric_operator : keywordKind -> bool

val commentKind_is_singleline : commentKind -> bool

val conditionalDirectiveKind_is_if : conditionalDirectiveKind -> bool

val conditionalDirectiveKind_is_else : conditionalDirectiveKind -> bool

val rawTokenType_is_comment_or_directive : rawTokenType -> bool

val tokenType_is_comment_or_directive : tokenType -> bool

val tt_of_raw : rawTokenType -> tokenType

type token = { t_ws : bytes; t_content : bytes; t_ty : tokenType }

type fmt = { f_ignored : bool; f_nl : n; f_ind : n; f_cont : n; f_sp : n }

type rsettings = { rs_newline : bytes; rs_indent : bytes; rs_cont : bytes }

type ftoken = token * fmt

val is_eof : tokenType -> bool

val is_sl_comment : tokenType -> bool

val is_comment : tokenType -> bool

val is_keyword : tokenType -> bool

val is_ml_string : tokenType -> bool

val contains_byte : byte -> bytes -> bool

val rs_new : bool -> bool -> n -> n -> rsettings

val u8_sat_mul : n -> n -> n

val rs_of_config : bool -> bool -> n -> n -> rsettings

val has_break : bytes -> bool

val emit_ws : rsettings -> bool -> ftoken -> bytes

val recon : rsettings -> bool -> ftoken list -> bytes

val reconstruct : rsettings -> ftoken list -> bytes

val set_content : token -> bytes -> token

val lowercase_tok : ftoken -> ftoken

val lowercase_keywords : ftoken list -> ftoken list

val drop_while : ('a1 -> bool) -> 'a1 list -> 'a1 list

val trim_ascii_end : bytes -> bytes

val drop_blank_rev : bytes -> bytes

val trim_blank_end : bytes -> bytes

val strip_prefix : bytes -> bytes -> bytes option

val utf8_len : byte -> nat

val first_char : bytes -> bytes

val all_chunks_eq : nat -> bytes -> bytes -> bool

val comment_is_separator : (bytes -> bool) -> bytes -> bool

val flc_comment : bytes -> bytes

val flc_new1 : (bytes -> bool) -> bytes -> bytes -> bytes option

val format_line_comment : (bytes -> bool) -> bytes -> bytes option

type dstate =
| DBefore
| DAfterPlusMinus
| DAfterDigit
| DAfterComma
| DAfterLetter
| DAfterWord

val is_word_byte : byte -> bool

val dir_scan : dstate -> bool -> bytes -> nat -> nat option

val format_compiler_directive : bytes -> bytes option

val comment_tok : (bytes -> bool) -> ftoken -> ftoken

val comment_formatter : (bytes -> bool) -> ftoken list -> ftoken list

val eof_newline_once : ftoken list -> ftoken list

val is_directive_ty : tokenType -> bool

val r01_b : tokenType -> bytes -> bytes -> bool

val tok_ok_b : bytes -> bytes -> bool

type toggle =
| TOn
| TOff

val starts_with_icase : bytes -> bytes -> bool

val strip_prefix_icase : bytes -> bytes -> bytes option

val parse_pasfmt_toggle : bytes -> toggle option

val pasfmt_word : bytes

val parse_pasfmt_directive_comment_contents : bytes -> toggle option

val strip_prefix_b : bytes -> bytes -> bytes option

val parse_toggle : bytes -> toggle option

val toggle_marks : bool -> token list -> bool list

val asm_marked : (logicalLineType * nat list) list -> nat -> bool

val ignore_marks :
  token list -> (logicalLineType * nat list) list -> bool list

val void_lines :
  bool list -> (logicalLineType * nat list) list -> (logicalLineType * nat
  list) list

val canon_tok : bool -> ftoken -> bool

val canon_fmt_from : bool -> ftoken list -> bool

val canon_fmt : ftoken list -> bool

val canon_first_bad : bool -> ftoken list -> nat -> nat option

val eof_canon : ftoken list -> bool

val ends_nonblank : bytes -> bool

type tree =
| Tree of section list
and section =
| Flat of bool * nat * nat
| Nested of tree list

type itok = nat * rawTokenType

val enumerate_from : nat -> rawTokenType list -> itok list

val cd_kind : rawTokenType -> conditionalDirectiveKind option

val parse_flat_go :
  nat option -> (nat * nat) -> itok list ->
  ((nat * nat) * conditionalDirectiveKind option) * itok list

val parse_flat :
  itok list -> (section * conditionalDirectiveKind option) * itok list

val parse_sections :
  nat -> bool -> itok list -> ((section list * conditionalDirectiveKind
  option) * itok list) option

val parse_branches : nat -> itok list -> (tree list * itok list) option

val parse_next :
  nat -> bool -> itok list -> ((tree * conditionalDirectiveKind
  option) * itok list) option

val parse_fuel : rawTokenType list -> nat

val parse_opt : rawTokenType list -> tree option

val parse : rawTokenType list -> tree

val explored : tree -> bool

val explored_section : section -> bool

val pass_all : ('a1 -> 'a1 * nat list) -> 'a1 list -> 'a1 list * nat list

val pass_find_or_last :
  ('a1 -> 'a1 * nat list) -> ('a1 -> bool) -> 'a1 list -> 'a1 list * nat list

val range_list : nat -> nat -> nat list

val pass_tree : tree -> tree * nat list

val pass_section : section -> section * nat list

val passes_opt : tree -> nat -> nat list list option

val passes : tree -> nat -> nat list list

type flat_entry = bool * (nat * nat)

val flat_list : tree -> flat_entry list

val flat_list_section : section -> flat_entry list

val nflat : tree -> nat

val passes_fuel : tree -> nat

val all_passes : rawTokenType list -> nat list list

val blen : bytes -> n

val u16 : n -> n

val u32 : n -> n

val u32z : z -> n

val count_lf : bytes -> n

val rfind_lf : bytes -> n option

val first_line_len : bytes -> n

val split_lf : bytes -> bytes list

val nsum : n list -> n

val last_opt : 'a1 list -> 'a1 option

val is_char_boundary : bytes -> nat -> bool

type rtok = (bytes * bytes) * rawTokenType

val r_ws : rtok -> bytes

val r_content : rtok -> bytes

val r_ty : rtok -> rawTokenType

val r_str : rtok -> bytes

type tokpos =
| PContent of n
| PMultiline of n * n
| PWhitespace of n * n

val is_multiline_raw : rawTokenType -> bool

val find_cursor : rtok list -> nat -> z -> ((nat * rtok) * z) option

val col_back_pre : rtok list -> n

val col_for_token_end_pre_fmt : rtok list -> nat -> n

val tokpos_of : rtok list -> nat -> rtok -> z -> tokpos

val process_cursor : rtok list -> n -> nat * tokpos

val process_cursor_ok : rtok list -> n -> bool

val nl_len : rsettings -> n

val nonbreaking_ws_len : rsettings -> ftoken -> n * bool

val ws_len : rsettings -> ftoken -> n

val col_back_post : rsettings -> ftoken list -> n

val col_for_token_end_post_fmt : rsettings -> ftoken list -> nat -> n

val offset_for_token : rsettings -> ftoken list -> nat -> n

val offset_from_end : bytes -> n -> n -> n

val relocate_target : ftoken list -> nat -> tokpos -> (ftoken * tokpos) option

val lines_back : n -> n -> n

val lf_positions_from : n -> bytes -> n list

val kept_len_ignored : bytes -> nat -> n

val kept_len : rsettings -> ftoken -> n -> n

val clamp : n -> n -> n -> n

val relocate_at : rsettings -> ftoken list -> nat -> ftoken -> tokpos -> z

val relocate : rsettings -> ftoken list -> nat -> tokpos -> z option

val track_cursor : rsettings -> rtok list -> ftoken list -> n -> z option

val track_cursor_u32 : rsettings -> rtok list -> ftoken list -> n -> n

val is_lf : byte -> bool

val is_cr : byte -> bool

val is_term : byte -> bool

val is_quote : byte -> bool

val cons_to_first : byte -> bytes list -> bytes list

val ml_drop_while : (byte -> bool) -> bytes -> bytes

val trim_start_by : (byte -> bool) -> bytes -> bytes

val trim_end_by : (byte -> bool) -> bytes -> bytes

val trim_by : (byte -> bool) -> bytes -> bytes

val ml_strip_prefix : bytes -> bytes -> bytes option

val is_nil : 'a1 list -> bool

val split_incl_custom : bool -> bytes -> bytes list

val lines_custom : bytes -> bytes list

val last_opt0 : 'a1 list -> 'a1 option

val is_u3000 : byte -> byte -> byte -> bool

val count_leading_whitespace : bytes -> nat

val ml_indent : rsettings -> n -> n -> bytes

val rewrite_line : bytes -> bytes -> bytes -> bytes option

val rewrite_lines : bytes -> bytes -> bytes -> bytes list -> bytes option

val try_rewrite_string : rsettings -> n -> n -> bytes -> bytes -> bytes option

val leading_ws : bytes -> bytes

val ml_base_of_last_line : bytes -> bytes option

val rewrite_ml_token : rsettings -> n -> n -> bytes -> bytes option

val line_ok : n list -> n list -> bool

val strip_indent : n list -> n list -> n list

val closing_line : n list -> n list

val closing_indent : n list -> n list

val interior : n list -> n list list

val ml_value : n list -> n list list

val eligible : n list -> bool

type lline = { ll_type : logicalLineType; ll_level : n;
               ll_parent : (nat * nat) option; ll_toks : nat list }

val strictly_increasing : nat list -> bool

val line_ok0 : nat -> lline -> bool

val count_in_lines : lline list -> nat -> nat

val is_cond_directive : tokenType -> bool

val lines_cover : tokenType list -> lline list -> bool

val parents_ok_from : lline list -> nat -> lline list -> bool

val parents_ok : lline list -> bool

val eof_line_ok : tokenType list -> lline list -> bool

val kEYWORDS_gen : (n list * rawTokenType) list

val kEYWORD_ASSO_VALUES_gen : n list

val find_first : (byte -> bool) -> bytes -> nat option

val find_sub : bytes -> bytes -> nat option

val next_is : byte -> bytes -> bool

val count_ws : bytes -> nat

val all_ws : bytes -> bool

val trimmed_len : bytes -> nat

val is_ident_ascii : byte -> bool

val is_dec : byte -> bool

val is_hex : byte -> bool

val is_bin : byte -> bool

val count_decimal : bytes -> nat

val count_hex : bytes -> nat

val count_binary : bytes -> nat

val count_full_decimal : bytes -> nat

val kEYWORDS_table : (bytes * rawTokenType) list

val eq_ignore_case : bytes -> bytes -> bool

val keyword_lookup : (bytes * rawTokenType) list -> bytes -> rawTokenType

val get_word_token_type : bytes -> rawTokenType

val kEYWORD_ASSO_VALUES : n list

val asso : byte -> n

val hash_keyword : bytes -> n

val set_nth : nat -> 'a1 -> 'a1 list -> 'a1 list

val make_keyword_lookup_table :
  (bytes * rawTokenType) list -> (bytes * rawTokenType) option list ->
  (bytes * rawTokenType) option list option

val kEYWORD_LOOKUP_TABLE : (bytes * rawTokenType) option list option

val mAX_WORD_LENGTH : nat

val get_word_token_type_hash : bytes -> rawTokenType option

val is_u3000_at : bytes -> bool

val ident_end_generic : bytes -> nat

val to_i8 : byte -> z

val range_mask : byte -> byte -> byte -> bool

val ident_mask_bit : byte -> bool

val any_non_ascii : bytes -> bool

val trailing_ones : bool list -> nat

val avx2_loop : nat -> bytes -> nat

val ident_end_avx2 : bytes -> nat

val find_identifier_end : bytes -> nat

val unicode_identifier : bytes -> nat

val is_asm_ident : byte -> bool

val asm_label : bytes -> nat

val dec_number_literal : bytes -> nat

val asm_number_literal : byte -> bytes -> nat * rawTokenType

type tl_state =
| TL_E
| TL_H
| TL_D
| TL_X0
| TL_X
| TL_B0
| TL_B
| TL_S

type tl_act =
| TGo of tl_state
| TStop of textLiteralKind

val tl_step_E : byte -> tl_act

val tl_step : tl_state -> byte -> tl_act

val tl_end : tl_state -> textLiteralKind

val tl_run : tl_state -> bytes -> nat * textLiteralKind

val text_literal : byte -> bytes -> nat * rawTokenType

val asm_text_literal : bytes -> nat * rawTokenType

type blockCommentKind =
| BCK_ParenStar
| BCK_Brace

val is_paren_star : blockCommentKind -> bool

val find_block_comment_end : blockCommentKind -> bytes -> nat option

val block_comment_kind : bool -> bool -> commentKind

val block_comment : blockCommentKind -> bool -> bytes -> nat * rawTokenType

val is_eol : byte -> bool

val line_comment_len : bytes -> nat

val line_comment : bool -> bytes -> nat * rawTokenType

val conditional_directive_kind : bytes -> conditionalDirectiveKind option

val directive_token_type : conditionalDirectiveKind option -> rawTokenType

val cdk_has_expr : conditionalDirectiveKind option -> bool

type dres =
| DEnd of nat
| DUnterminated
| DFuel

val dshift : nat -> dres -> dres

val dres_of_option : nat option -> dres

val parse_directive_end :
  (blockCommentKind -> bytes -> dres) -> blockCommentKind -> bytes -> dres

val find_directive_expr_end : nat -> blockCommentKind -> bytes -> dres

type tres =
| TOk of nat * rawTokenType
| TFuel

val tok : (nat * rawTokenType) -> tres

val tshift : nat -> tres -> tres

val compiler_directive : blockCommentKind -> bytes -> tres

val compiler_directive_or_comment : blockCommentKind -> bool -> bytes -> tres

val ampersand : bytes -> nat * rawTokenType

type lstate = { ls_first : bool; ls_asm : bool; ls_prev : rawTokenType option }

val prev_is_dot : lstate -> bool

val is_kw_asm : rawTokenType -> bool

val identifier_or_keyword : lstate -> byte -> bytes -> nat * rawTokenType

val asm_identifier : byte -> bytes -> (nat * rawTokenType) * bool

val op : nat -> operatorKind -> tres

val lex_common : lstate -> bool -> byte -> bytes -> tres

val is_aAeE : byte -> bool

val lex_token :
  lstate -> bool -> byte -> bytes -> ((nat * rawTokenType) * bool) option

val init_state : lstate

val lex_loop :
  nat -> lstate -> bytes -> ((nat * nat) * rawTokenType) list option

val lex : bytes -> ((nat * nat) * rawTokenType) list option

val in_range : byte -> byte -> byte -> bool

val valid_utf8 : bytes -> bool

type action =
| Keep
| SetTo of n
| Min1

val apply_action : action -> n -> n

val spaces_before : tokenType option -> n -> action

val spaces_after : tokenType option -> n -> action

val one_space_either_side :
  tokenType option -> tokenType option -> action * action

val one_space_before : tokenType option -> action * action

val max_one_either_side : tokenType option -> action * action

val binary_op_spacing : action * action

val space_operator :
  operatorKind -> tokenType option -> tokenType option -> tokenType option ->
  action * action

val rule :
  tokenType option -> tokenType -> tokenType option -> tokenType option ->
  action * action

val set_sp : fmt -> n -> fmt

val ty_of : ftoken -> tokenType

val head_ty : ftoken list -> tokenType option

val next_prev_real : tokenType option -> tokenType -> tokenType option

val spacing_go :
  tokenType option -> tokenType option -> action -> ftoken list -> ftoken list

val zero_first : ftoken list -> ftoken list

val token_spacing : ftoken list -> ftoken list

val after_of : tokenType -> tokenType -> tokenType option -> action

val before_of : tokenType -> tokenType -> tokenType option -> action

val gap_fn : tokenType -> tokenType -> tokenType option -> n -> n

val keeps_orig : tokenType -> tokenType -> tokenType option -> bool

val reads_orig : tokenType -> tokenType -> tokenType option -> bool

val starts_wordish : tokenType -> bool

val glue_safe : tokenType -> tokenType -> bool

val u16_sat : n -> n

val count_lf0 : bytes -> n

val take_until_lf : bytes -> bytes

val after_last_lf : bytes -> bytes

val drop_trailing_cr_rev : bytes -> bytes

val trim_end_cr : bytes -> bytes

val ws_prefix_len : bytes -> nat

val fmt_of_ws : bytes -> bool -> fmt

val scalar_ok : n -> bool

type text = n list

val ocons : n -> n list option -> n list option

val utf8_encode_char : n -> bytes

val utf8_encode : text -> bytes

val utf8_decode : bytes -> text option

val utf16_units_char : n -> n list

val utf16_units : text -> n list

val u16_le : n -> bytes

val u16_be : n -> bytes

val encode_utf16 : (n -> bytes) -> text -> bytes

val encode_utf16le : text -> bytes

val encode_utf16be : text -> bytes

val units_of_bytes : bool -> bytes -> n list option

val is_high : n -> bool

val is_low : n -> bool

val utf16_scalars : n list -> text option

val utf16_decode : bool -> bytes -> text option

val utf16le_decode : bytes -> text option

val utf16be_decode : bytes -> text option

type enc =
| Utf8
| Utf16le
| Utf16be
| Legacy of nat

val bom_utf8 : bytes

val bom_utf16le : bytes

val bom_utf16be : bytes

val for_bom : bytes -> (enc * nat) option

val bom_bytes : bytes option -> bytes

val decode_with : (nat -> bytes -> text option) -> enc -> bytes -> text option

val select_encoding : enc -> bytes -> (enc * bytes option) * bytes

val decode_file :
  (nat -> bytes -> text option) -> enc -> bytes -> ((bytes
  option * enc) * text) option

val encode_with : (nat -> text -> bytes option) -> enc -> text -> bytes option

val write_bytes :
  (nat -> text -> bytes option) -> enc -> bytes option -> text -> bytes option

type file = { f_content : bytes; f_pos : nat; f_writable : bool }

val zeros : nat -> bytes

val read_to_end : file -> bytes -> bytes * file

val seek0 : file -> file

val overwrite : nat -> bytes -> bytes -> bytes

val write_all : bytes -> file -> file option

val set_len : nat -> file -> file option

val stdout_write_all : bytes -> bytes -> bytes option

val write_to :
  (nat -> text -> bytes option) -> (bytes -> 'a1 -> 'a1 option) -> 'a1 -> enc
  -> bytes option -> text -> 'a1 * nat option

type result_op =
  file -> ((bytes option * enc) * text) -> text -> (file * bytes) * bool

val exec_one :
  (nat -> bytes -> text option) -> (text -> text) -> bool -> result_op ->
  bytes -> enc -> bytes -> (bytes * bytes) * bool

val op_format_files : (nat -> text -> bytes option) -> result_op

val op_files_to_stdout : bytes -> result_op

val op_check : result_op

val files_mode_from :
  (nat -> bytes -> text option) -> (nat -> text -> bytes option) -> (text ->
  text) -> bytes -> enc -> bytes -> (bytes * bytes) * bool

val files_mode :
  (nat -> bytes -> text option) -> (nat -> text -> bytes option) -> (text ->
  text) -> enc -> bytes -> (bytes * bytes) * bool

val files_to_stdout_mode :
  (nat -> bytes -> text option) -> (text -> text) -> bytes -> enc -> bytes ->
  (bytes * bytes) * bool

val check_files_mode :
  (nat -> bytes -> text option) -> (text -> text) -> enc -> bytes ->
  (bytes * bytes) * bool

val stdin_mode :
  (nat -> bytes -> text option) -> (nat -> text -> bytes option) -> (text ->
  text) -> bool -> enc -> bytes -> bytes * bool

val check_stdin_mode :
  (nat -> bytes -> text option) -> (text -> text) -> enc -> bytes -> bool

type kev =
| KT
| KS
| KL
| KC
| Kc
| KR
| Kr

type kstate = { k_lines : nat list list; k_cur : nat list; k_pi : nat;
                k_last : nat }

val k_init : kstate

val upd_nth : nat -> ('a1 -> 'a1) -> 'a1 list -> 'a1 list

val k_top : kstate -> nat

val pop_keep : nat list -> nat list

val k_step : nat list -> kstate -> kev -> kstate

val k_run : nat list -> kev list -> kstate

val k_skips : kev list -> nat -> nat list

val nat_list_eqb : nat list -> nat list -> bool

val consolidate_pass : nat list list -> nat list list -> nat list list

val parse_file_lines :
  (nat -> bool) -> nat -> nat list list list -> nat list list

val lT_G : tokenType

val gT_G : tokenType

val set_nth0 : nat -> tokenType -> tokenType list -> tokenType list

type arm =
| A_Lt
| A_Comma
| A_Plain
| A_Gt
| A_LBrack
| A_RBrack
| A_InBrack
| A_Break

val arm_of : tokenType option -> bool -> nat -> arm

val gt_blocked : tokenType option -> bool

val pws_next : tokenType option -> bool -> bool

val rbrack_pop : (nat * nat) list -> nat -> (nat * nat) list * nat

type ires =
| I_Done of tokenType list * nat
| I_Fuel
| I_Panic

val generics_inner :
  nat -> tokenType list -> (nat * nat) list -> bool -> bool -> nat -> nat ->
  ires

type gres =
| G_Ok of tokenType list
| G_Fuel
| G_Panic

val is_less_than : tokenType option -> bool

val generics_outer : nat -> tokenType list -> nat -> gres

val generics_run : tokenType list -> gres

val generics_consolidate : tokenType list -> tokenType list

type decisionRequirement =
| DR_Indifferent
| DR_Invalid
| DR_MustBreak
| DR_MustNotBreak

val formatting_invariant :
  tokenType option -> tokenType option -> bool -> decisionRequirement option

val cd_outside_line : nat list -> nat -> bool

val token_type_for_line_index :
  tokenType list -> nat list -> nat -> tokenType option

val prev_token_type_for_line_index :
  tokenType list -> nat list -> nat -> tokenType option

val get_formatting_invariant :
  tokenType list -> nat list -> nat -> decisionRequirement option

val respects : decisionRequirement option -> bool -> bool

val line_violations : tokenType list -> bool list -> nat list -> nat list

val lines_violations :
  tokenType list -> bool list -> nat list list -> nat list

module MLStringJoin :
 sig
  val join : bytes -> bytes list -> bytes
 end
