(* Base/Bytes.v — bytes, blanks, the non-blank projection used by C01, small list utilities.
   Conventions (DESIGN.md §4): byte := N (< 256 by convention, never relied on), text = list N.
   Never pattern-match on byte literals; test with N.eqb. *)
From Coq Require Export List NArith ZArith Lia Bool.
Export ListNotations.
Open Scope N_scope.

Arguments N.add : simpl never.
Arguments N.sub : simpl never.
Arguments N.mul : simpl never.
Arguments N.eqb : simpl never.
Arguments N.ltb : simpl never.
Arguments N.leb : simpl never.
Arguments N.min : simpl never.
Arguments N.max : simpl never.

Definition byte := N.
Definition bytes := list N.

(* ------------------------------------------------------------------ *)
(* generic list helpers *)

Fixpoint repeat_app {A} (n : nat) (s : list A) : list A :=
  match n with O => [] | S k => s ++ repeat_app k s end.

Definition nrepeat {A} (n : N) (s : list A) : list A := repeat_app (N.to_nat n) s.

Lemma repeat_app_length {A} n (s : list A) : length (repeat_app n s) = (n * length s)%nat.
Proof. induction n as [|n IH]; simpl; [reflexivity|]. rewrite app_length, IH. reflexivity. Qed.

Lemma Forall_repeat_app {A} (P : A -> Prop) n (s : list A) :
  Forall P s -> Forall P (repeat_app n s).
Proof. intros H. induction n as [|n IH]; simpl; [constructor|]. apply Forall_app. split; assumption. Qed.

Fixpoint count_while {A} (p : A -> bool) (l : list A) : nat :=
  match l with b :: t => if p b then S (count_while p t) else O | [] => O end.

Lemma count_while_le {A} (p : A -> bool) l : (count_while p l <= length l)%nat.
Proof. induction l as [|b t IH]; simpl; [lia|]. destruct (p b); simpl; lia. Qed.

Lemma count_while_firstn {A} (p : A -> bool) l : forallb p (firstn (count_while p l) l) = true.
Proof. induction l as [|b t IH]; simpl; [reflexivity|]. destruct (p b) eqn:E; simpl; [rewrite E; exact IH|reflexivity]. Qed.

Fixpoint is_prefix (p l : bytes) : bool :=
  match p, l with
  | [], _ => true
  | a :: p', b :: l' => (a =? b) && is_prefix p' l'
  | _ :: _, [] => false
  end.

Lemma is_prefix_spec p l : is_prefix p l = true <-> exists r, l = p ++ r.
Proof.
  revert l; induction p as [|a p IH]; intros l; simpl.
  - split; [intros _; exists l; reflexivity|reflexivity].
  - destruct l as [|b l]; [split; [discriminate|intros [r Hr]; discriminate]|].
    rewrite andb_true_iff, N.eqb_eq, IH. split.
    + intros [-> [r ->]]. exists r. reflexivity.
    + intros [r Hr]. injection Hr as -> ->. split; [reflexivity|exists r; reflexivity].
Qed.

Fixpoint bytes_eqb (a b : bytes) : bool :=
  match a, b with
  | [], [] => true
  | x :: a', y :: b' => (x =? y) && bytes_eqb a' b'
  | _, _ => false
  end.

Lemma bytes_eqb_eq a b : bytes_eqb a b = true <-> a = b.
Proof.
  revert b; induction a as [|x a IH]; intros [|y b]; simpl; try (split; [discriminate|discriminate]); try tauto.
  rewrite andb_true_iff, N.eqb_eq, IH. split; [intros [-> ->]; reflexivity|intros H; injection H as -> ->; split; reflexivity].
Qed.

(* ------------------------------------------------------------------ *)
(* blanks *)

(* a single-byte blank: code points up to U+0020 *)
Definition blank_byte (b : byte) : bool := b <=? 32.

(* UTF-8 continuation byte 10xxxxxx *)
Definition is_cont (b : byte) : bool := (128 <=? b) && (b <=? 191).

(* The non-blank projection of C01: drop every byte <= 0x20 and every triple E3 80 80 (U+3000).
   On valid UTF-8 the triple can only occur at a character start (E3 is never a continuation byte),
   so this is exactly "drop code points <= U+0020 and U+3000". *)
Fixpoint strip (l : bytes) : bytes :=
  match l with
  | [] => []
  | a :: t =>
      if a <=? 32 then strip t
      else match t with
           | b :: c :: t' =>
               if (a =? 227) && (b =? 128) && (c =? 128) then strip t' else a :: strip t
           | _ => a :: strip t
           end
  end.

(* a whole string of blanks *)
Definition all_blank (l : bytes) : Prop := strip l = [].

(* "does not begin with byte 0x80": the only way a split x ++ y can cut a U+3000 in two *)
Definition no80 (l : bytes) : Prop := match l with b :: _ => b <> 128 | [] => True end.

Lemma strip_cons_blank a t : (a <=? 32) = true -> strip (a :: t) = strip t.
Proof. intros H. simpl. rewrite H. reflexivity. Qed.

Lemma strip_nil : strip [] = []. Proof. reflexivity. Qed.

(* unfolding lemma that avoids simpl on strip *)
Lemma strip_unfold a t :
  strip (a :: t) =
  if a <=? 32 then strip t
  else match t with
       | b :: c :: t' => if (a =? 227) && (b =? 128) && (c =? 128) then strip t' else a :: strip t
       | _ => a :: strip t
       end.
Proof. reflexivity. Qed.

Lemma strip_app_no80 x y : no80 y -> strip (x ++ y) = strip x ++ strip y.
Proof.
  intros Hy.
  destruct y as [|y0 yt]; [rewrite !app_nil_r; reflexivity|].
  simpl in Hy.
  assert (H0 : (y0 =? 128) = false) by (apply N.eqb_neq; exact Hy).
  remember (length x) as n eqn:Hn.
  revert x Hn. induction n as [n IH] using lt_wf_ind. intros x Hn.
  destruct x as [|a t]; [reflexivity|].
  rewrite <- app_comm_cons. rewrite (strip_unfold a (t ++ y0 :: yt)), (strip_unfold a t).
  destruct (a <=? 32) eqn:Ea.
  { apply (IH (length t)); [simpl in Hn; lia|reflexivity]. }
  destruct t as [|b t1].
  { (* x = [a] *)
    simpl app. destruct yt as [|c y2]; [reflexivity|].
    cbv beta iota. rewrite H0, andb_false_r. reflexivity. }
  destruct t1 as [|c t2].
  { (* x = [a; b] *)
    simpl app. cbv beta iota. rewrite H0, andb_false_r.
    change (a :: strip ([b] ++ y0 :: yt) = (a :: strip [b]) ++ strip (y0 :: yt)).
    rewrite (IH 1%nat); [reflexivity|simpl in Hn; lia|reflexivity]. }
  (* x = a :: b :: c :: t2 *)
  simpl app. cbv beta iota.
  destruct ((a =? 227) && (b =? 128) && (c =? 128)).
  - apply (IH (length t2)); [simpl in Hn; lia|reflexivity].
  - change (a :: strip ((b :: c :: t2) ++ y0 :: yt) = (a :: strip (b :: c :: t2)) ++ strip (y0 :: yt)).
    rewrite (IH (length (b :: c :: t2))); [reflexivity|simpl in Hn; simpl; lia|reflexivity].
Qed.

Lemma all_blank_app x y : all_blank x -> all_blank y -> no80 y -> all_blank (x ++ y).
Proof. unfold all_blank. intros Hx Hy Hn. rewrite strip_app_no80 by exact Hn. rewrite Hx, Hy. reflexivity. Qed.

(* strings made of single-byte blanks only (what the formatter itself emits) *)
Definition ascii_blank (l : bytes) : Prop := Forall (fun b => (b <=? 32) = true) l.

Lemma strip_ascii_blank_app x y : ascii_blank x -> strip (x ++ y) = strip y.
Proof. induction 1 as [|a t Ha Ht IH]; [reflexivity|]. rewrite <- app_comm_cons, strip_cons_blank by exact Ha. exact IH. Qed.

Lemma ascii_blank_all_blank x : ascii_blank x -> all_blank x.
Proof. intros H. unfold all_blank. rewrite <- (app_nil_r x). rewrite strip_ascii_blank_app by exact H. reflexivity. Qed.

Lemma ascii_blank_app x y : ascii_blank x -> ascii_blank y -> ascii_blank (x ++ y).
Proof. intros; apply Forall_app; split; assumption. Qed.

Lemma ascii_blank_repeat n s : ascii_blank s -> ascii_blank (nrepeat n s).
Proof. intros H. apply Forall_repeat_app. exact H. Qed.

(* If x is all blank and the rest does not start with 0x80, x vanishes under strip *)
Lemma strip_all_blank_app x y : all_blank x -> no80 y -> strip (x ++ y) = strip y.
Proof. intros Hx Hy. rewrite strip_app_no80 by exact Hy. rewrite Hx. reflexivity. Qed.

(* ------------------------------------------------------------------ *)
(* ASCII case *)

Definition is_upper (b : byte) : bool := (65 <=? b) && (b <=? 90).
Definition is_lower (b : byte) : bool := (97 <=? b) && (b <=? 122).
Definition is_alpha (b : byte) : bool := is_upper b || is_lower b.
Definition is_digit (b : byte) : bool := (48 <=? b) && (b <=? 57).
Definition is_alnum (b : byte) : bool := is_alpha b || is_digit b.
Definition to_lower (b : byte) : byte := if is_upper b then b + 32 else b.
Definition to_upper (b : byte) : byte := if is_lower b then b - 32 else b.
Definition lower (l : bytes) : bytes := map to_lower l.
Definition upper (l : bytes) : bytes := map to_upper l.

(* u8::is_ascii_whitespace: SP, HT, LF, FF, CR (not VT) *)
Definition is_ascii_ws (b : byte) : bool :=
  (b =? 32) || (b =? 9) || (b =? 10) || (b =? 12) || (b =? 13).

Lemma to_lower_idem b : to_lower (to_lower b) = to_lower b.
Proof. unfold to_lower, is_upper. destruct ((65 <=? b) && (b <=? 90)) eqn:E; [|rewrite E; reflexivity].
  apply andb_true_iff in E. destruct E as [E1 E2]. apply N.leb_le in E1, E2.
  destruct ((65 <=? b + 32) && (b + 32 <=? 90)) eqn:E'; [|reflexivity].
  apply andb_true_iff in E'. destruct E' as [_ E']. apply N.leb_le in E'. lia. Qed.

Lemma lower_idem l : lower (lower l) = lower l.
Proof. unfold lower. rewrite map_map. apply map_ext. intros; apply to_lower_idem. Qed.

Lemma to_lower_upper b : to_lower (to_upper b) = to_lower b.
Proof. unfold to_lower, to_upper, is_upper, is_lower.
  destruct ((97 <=? b) && (b <=? 122)) eqn:E.
  - apply andb_true_iff in E. destruct E as [E1 E2]. apply N.leb_le in E1, E2.
    assert (H1 : (65 <=? b - 32) = true) by (apply N.leb_le; lia).
    assert (H2 : (b - 32 <=? 90) = true) by (apply N.leb_le; lia).
    rewrite H1, H2. simpl.
    assert (H3 : (b <=? 90) = false) by (apply N.leb_gt; lia).
    rewrite H3, andb_false_r. lia.
  - reflexivity. Qed.

Lemma to_upper_idem b : to_upper (to_upper b) = to_upper b.
Proof. unfold to_upper, is_lower. destruct ((97 <=? b) && (b <=? 122)) eqn:E; [|rewrite E; reflexivity].
  apply andb_true_iff in E. destruct E as [E1 E2]. apply N.leb_le in E1, E2.
  destruct ((97 <=? b - 32) && (b - 32 <=? 122)) eqn:E'; [|reflexivity].
  apply andb_true_iff in E'. destruct E' as [E' _]. apply N.leb_le in E'. lia. Qed.

(* case folding used to compare input and output in C01 *)
Definition fold_case (l : bytes) : bytes := lower l.

Lemma fold_case_app x y : fold_case (x ++ y) = fold_case x ++ fold_case y.
Proof. apply map_app. Qed.

Lemma fold_case_lower l : fold_case (lower l) = fold_case l.
Proof. apply lower_idem. Qed.

Lemma fold_case_upper l : fold_case (upper l) = fold_case l.
Proof. unfold fold_case, lower, upper. rewrite map_map. apply map_ext. intros; apply to_lower_upper. Qed.

(* case mapping commutes with strip: it never creates or destroys a blank *)
Lemma to_lower_le32 b : (to_lower b <=? 32) = (b <=? 32).
Proof. unfold to_lower, is_upper. destruct ((65 <=? b) && (b <=? 90)) eqn:E; [|reflexivity].
  apply andb_true_iff in E. destruct E as [E1 E2]. apply N.leb_le in E1, E2.
  transitivity false; [apply N.leb_gt; lia|symmetry; apply N.leb_gt; lia]. Qed.

Lemma to_lower_eqb_hi b k : 123 <= k -> (to_lower b =? k) = (b =? k).
Proof. intros Hk. unfold to_lower, is_upper. destruct ((65 <=? b) && (b <=? 90)) eqn:E; [|reflexivity].
  apply andb_true_iff in E. destruct E as [E1 E2]. apply N.leb_le in E1, E2.
  transitivity false; [apply N.eqb_neq; lia|symmetry; apply N.eqb_neq; lia]. Qed.

Lemma strip_lower l : strip (lower l) = lower (strip l).
Proof.
  remember (length l) as n eqn:Hn. revert l Hn.
  induction n as [n IH] using lt_wf_ind. intros l Hn.
  destruct l as [|a t]; [reflexivity|].
  change (lower (a :: t)) with (to_lower a :: lower t).
  rewrite !strip_unfold, to_lower_le32.
  destruct (a <=? 32); [apply (IH (length t)); [simpl in Hn; lia|reflexivity]|].
  destruct t as [|b [|c t2]].
  - reflexivity.
  - change (lower [b]) with ([to_lower b]). cbv beta iota. change [to_lower b] with (lower [b]).
    rewrite (IH 1%nat); [reflexivity|simpl in Hn; lia|reflexivity].
  - change (lower (b :: c :: t2)) with (to_lower b :: to_lower c :: lower t2). cbv beta iota.
    rewrite !to_lower_eqb_hi by lia.
    destruct ((a =? 227) && (b =? 128) && (c =? 128)).
    + apply (IH (length t2)); [simpl in Hn; lia|reflexivity].
    + change (to_lower b :: to_lower c :: lower t2) with (lower (b :: c :: t2)).
      rewrite (IH (length (b :: c :: t2))); [reflexivity|simpl in Hn; simpl; lia|reflexivity].
Qed.
