(* Extraction of the executable model for the correspondence driver.
   ExtrOcamlBasic only: bool, option, unit, list, prod, sumbool map to OCaml's; N, Z, positive, nat
   stay Coq datatypes.  No Extract Constant. *)
From Coq Require Extraction.
From Coq Require ExtrOcamlBasic.
From PasfmtVerif Require Import Model.Token Model.Reconstruct Model.Rewriters Model.Toggle Model.Canon Model.DirectiveTree Model.Cursor Model.MLString Model.MLValue Model.Lines Model.Lexer Model.Spacing Model.FmtData Model.Encoding Model.FileIO Model.ParserKernel Model.Generics Model.Requirements Model.WrapApply Model.LineConsolidators Model.Measure Model.ParserGrammar Model.WrapContexts Model.WrapSearch Model.WrapFormat Model.Format.
(* join lives in the proofs file of the multi-line string unit; re-stated here for the oracle *)
Module MLStringJoin.
  Fixpoint join (nl : bytes) (ls : list bytes) : bytes :=
    match ls with [] => [] | [l] => l | l :: r => l ++ nl ++ join nl r end.
End MLStringJoin.
Extraction Language OCaml.
Extraction NoInline bid.
Extraction "model.ml"
  all_RawTokenType all_TokenType all_LogicalLineType tt_of_raw
  strip fold_case
  Z.of_N Z.add Nat.add
  rs_new rs_of_config reconstruct
  lowercase_keywords comment_formatter eof_newline_once r01_b tok_ok_b
  parse_toggle toggle_marks ignore_marks void_lines canon_fmt canon_first_bad eof_canon ends_nonblank
  all_passes
  track_cursor_u32 process_cursor_ok
  rewrite_ml_token lines_custom ml_value eligible closing_indent MLStringJoin.join nrepeat
  lines_cover parents_ok eof_line_ok
  lex ident_end_generic ident_end_avx2 get_word_token_type get_word_token_type_hash valid_utf8
  token_spacing gap_fn glue_safe reads_orig keeps_orig fmt_of_ws
  utf8_decode utf8_encode decode_file write_bytes files_mode stdin_mode check_files_mode files_to_stdout_mode check_stdin_mode
  k_run k_skips parse_file_lines
  generics_consolidate lines_violations formatting_invariant
  olf_effect
  conddir_consolidate conddir_consolidate_std conddir_consolidate_chk deindent_package
  conddir_lines_singleton no_voided unique_first_tokens lines_cover_nv
  measure_ok token_line_length rendered_cols counter_cols tok_measurable rs_measurable breaks_after_sl
  parse_file_with parse_file_model parsed_token_types
  olf_model wsettings_of wrap_phase1 wrap_phase2 mk_lviews line_contexts_new tokinfo_of
  format_chain format_trace to_fmt make_formatter_kinds cfg_in_range
  lex_segments eof_lines_okb idem_hyp_checks idem_hypb idem_hyp_checks_min idem_hypb_min idem_hyp_checks_kinds idem_hypb_kinds fm_l4 crlf_link_okb crlf_seg_okb.
