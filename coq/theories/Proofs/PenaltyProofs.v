From PasfmtVerif Require Import Model.Penalty.

Lemma over_penalty_antitone W1 W2 len : W1 <= W2 -> over_penalty W2 len <= over_penalty W1 len.
Proof.
  intros H. unfold over_penalty, default_break_penalty.
  destruct (W2 <? len) eqn:E2; destruct (W1 <? len) eqn:E1;
    try apply N.ltb_lt in E1; try apply N.ltb_lt in E2; try apply N.ltb_ge in E1; try apply N.ltb_ge in E2; lia.
Qed.

Lemma over_penalty_fits W len : len <= W -> over_penalty W len = 0.
Proof. intros H. unfold over_penalty. destruct (W <? len) eqn:E; [apply N.ltb_lt in E; lia|reflexivity]. Qed.

Lemma nsum_map_le (f g : N -> N) l : (forall x, f x <= g x) -> nsum (map f l) <= nsum (map g l).
Proof. intros H. induction l as [|a t IH]; cbn [map nsum]; [lia|]. specialize (H a). lia. Qed.

(* for fixed decisions and lengths the total penalty never increases when the limit is widened *)
Theorem penalty_antitone W1 W2 c : W1 <= W2 -> total_penalty W2 c <= total_penalty W1 c.
Proof.
  intros H. unfold total_penalty.
  pose proof (nsum_map_le (over_penalty W2) (over_penalty W1) (c_ends c) (fun x => over_penalty_antitone W1 W2 x H)). lia.
Qed.

Lemma fits_spec W c : fits W c = true <-> Forall (fun len => len <= W) (c_ends c).
Proof.
  unfold fits, too_long. rewrite forallb_forall, Forall_forall. split; intros H x Hx; specialize (H x Hx).
  - apply negb_true_iff, N.ltb_ge in H. exact H.
  - apply negb_true_iff, N.ltb_ge. exact H.
Qed.

(* a rendering that fits W fits every wider limit *)
Theorem fits_monotone W1 W2 c : W1 <= W2 -> fits W1 c = true -> fits W2 c = true.
Proof.
  rewrite !fits_spec. intros H HF. eapply Forall_impl; [|exact HF]. cbn. intros; lia.
Qed.

(* when everything fits the narrower limit, both limits charge the same (no over-length term) *)
Theorem penalty_eq_when_fits W1 W2 c : W1 <= W2 -> fits W1 c = true -> total_penalty W1 c = total_penalty W2 c.
Proof.
  intros H HF. unfold total_penalty. f_equal.
  apply fits_spec in HF. induction HF as [|a t Ha Ht IH]; [reflexivity|].
  cbn [map nsum]. rewrite IH, !over_penalty_fits by lia. reflexivity.
Qed.

(* IF the search returned a minimiser of total_penalty over a candidate set that does not depend
   on the limit, then the solution for a wider limit that already fits the narrower limit is also
   a minimiser for the narrower limit.  (The real search is heuristic: this explains why the first
   clause of C11 is plausible; it does not prove it.) *)
Theorem ideal_search_width_stable (cands : list candidate) W1 W2 s2 :
  W1 <= W2 -> In s2 cands ->
  (forall c, In c cands -> total_penalty W2 s2 <= total_penalty W2 c) ->
  fits W1 s2 = true ->
  forall c, In c cands -> total_penalty W1 s2 <= total_penalty W1 c.
Proof.
  intros H Hin Hmin Hf c Hc.
  rewrite (penalty_eq_when_fits W1 W2 s2 H Hf).
  pose proof (Hmin c Hc). pose proof (penalty_antitone W1 W2 c H). lia.
Qed.

Example fits_example : fits 30 (mkCand [3; 3] [12; 30; 7]) = true /\ total_penalty 30 (mkCand [3; 3] [12; 30; 7]) = 6.
Proof. split; reflexivity. Qed.
